"""C01 — FFT, matrix-DFT and chirp-Z compute the same transform; no dependence on history.

correspondence: the Lean model (Drivers/C01.lean: textbook double sum `spec2` = the oracle, the triple product `mdft2`,
the Bluestein pipeline `czt2`/`iczt2`, the padded FFT route `fft2`, `_prepare_czt_basis` vectors, the executor cache
state machine) against the real prysm functions on the same generated inputs; the property's own predicates
(route == textbook sum at zero shift, |route| == |textbook sum| otherwise, no exception, result == fresh executor's
result for every history) are evaluated on the real outputs of every case.
"""
import itertools
import os
import subprocess
import threading
import numpy as np
from harness import common as C

RULE = ('transform cases: every shape in {1..9}^2 (all parity pairs, square and not) several times plus a few up to 24x17; Q half '
        'from {1,2,3,1.5,2.37,0.8,(1.7,2.3),(2,1)} and half RANDOM REALS in [0.3,5] (scalar or per-axis, all digits random); output '
        'sizes 1..10 per axis (every parity, smaller and larger than the input); shift from {0,+-1,+-2.5,(1.5,-2.25),(0,1)} or random '
        'reals in [-4,4]; a systematic block of near-symmetric cases (square in/out, equal shifts, one Q, then exactly one per-axis '
        'parameter made different); direction fwd/inv; input dtype from {complex128, float64, complex64, float32, int64, bool}; config.precision '
        '64 (85%) / 32 (15%); 40% of the cases pass Q / samples_out / shift as list, ndarray or scalar instead of tuples; methods mdft '
        'and czt both run on every case, on a FRESH executor (pure-function test against the Lean double sum) and on the shared '
        'executors (the stream is one long history: a difference is reduced to a short culprit history); FFT-route cases: focus/unfocus '
        'for shapes x Q in {1,2,3,1.5,2.37,1.2}; basis cases: _prepare_czt_basis for all (n,M) up to the tier bound; dispatch cases: '
        'focus_fixed_sampling / unfocus_fixed_sampling and the Wavefront methods, both engines, random real dx/efl/wvl/out_dx/shift, '
        'non-square shapes, samples as tuple/list/int, against the textbook sum on the PHYSICAL grid (Q_a = wvl efl/(n_a dx out_dx), '
        'shift/out_dx computed independently) and the returned Wavefront (dx, space, wavelength, shape); large cases: shapes 30..140 '
        '(quick) / ..513 (thorough) with random real Q and shifts, NumPy double-sum oracle, size-scaled float32 tolerance; histories: '
        'systematic pairs (precision, dtype, direction, one-axis variants, argument forms, forward/backprop) and random sequences '
        '(<= 40 ops) of dft2/idft2/czt2/iczt2/dft2_backprop/idft2_backprop over pools of one-axis variants with random real Q, clear(), '
        'precision switches, nbytes() queries, and transforms requested through prysm.propagation.focus_fixed_sampling / '
        'unfocus_fixed_sampling (physical units, same shared executors, one of them on the grid of a direct call), call/clear()/same call '
        'for every entry point; each result compared with a fresh executor and the input array checked unmodified; per-dictionary entry '
        'counts (Ein, Eout, components) and "no KeyError" compared with the Lean dictionary machine (histogram cache2_model:*).  Non-trivial = not '
        '1x1->1x1; distinct = distinct (item, input) tuples')
ASSUMPTIONS = ['scipy.fft.fft/ifft/fft2/ifft2 compute the (iterated 1-D) DFT sums with the stated normalisation; fftshift/ifftshift '
               'rotate by n//2; next_fast_len(k) >= k (modelled as parameters with that contract)',
               'np.exp / np.sqrt / matmul / broadcasting (trusted); comparison tolerance 1e-9*max(1,|x|max) in float64, '
               'max(5e-5, 5e-7 * longest axis, 8 eps32 * largest chirp phase) in float32 on standard-normal inputs (conditioning: '
               'unitary-like maps, no cancellation; single-precision phase rounding calibrated on the clean tree)',
               'Float evaluation of the Lean model (cos/sin of 2*pi*t in IEEE double) stands for the exact model; the large-size tier '
               'uses a NumPy double sum as oracle (the Lean oracle is an interpreted O(n^4) sum)']

TOL64 = 1e-9
TOL32 = 5e-5


def _impl():
    from prysm import fttools, propagation
    from prysm.conf import config
    return fttools, propagation, config


# ------------------------------------------------------------------------------------------------
# wire helpers, parallel driver
# ------------------------------------------------------------------------------------------------
def arr2w(a):
    a = np.asarray(a, dtype=complex)
    return ' '.join(C.f2w(v) for z in a.ravel() for v in (z.real, z.imag))


def w2arr(s, M, N):
    v = [C.w2f(x) for x in s.split()]
    if len(v) != 2 * M * N:
        raise C.ToolError(f'driver returned {len(v)} floats for a {M}x{N} array: {s[:80]}')
    return (np.array(v[0::2]) + 1j * np.array(v[1::2])).reshape(M, N)


def w2vec(s):
    v = [C.w2f(x) for x in s.split()]
    return np.array(v[0::2]) + 1j * np.array(v[1::2])


def driver_parallel(lines, nproc=None, timeout=3000):
    """C.lean_driver split over several processes (the Lean driver is interpreted; cases are independent)"""
    if not lines:
        return []
    nproc = nproc or max(1, min(10, (os.cpu_count() or 4) // 2, len(lines) // 8 + 1))
    if nproc == 1:
        return C.lean_driver('C01', lines, timeout=timeout)
    # balance by line length (cost grows with the array sizes)
    order = sorted(range(len(lines)), key=lambda i: -len(lines[i]))
    buckets = [[] for _ in range(nproc)]
    for r, i in enumerate(order):
        buckets[r % nproc].append(i)
    out = [None] * len(lines)
    errs = []

    def work(b, tag):
        if not b:
            return
        os.makedirs(C.WORK, exist_ok=True)
        inp = os.path.join(C.WORK, f'C01.{os.getpid()}.{tag}.in')
        with open(inp, 'w') as f:
            f.write('\n'.join(lines[i] for i in b) + '\n')
        try:
            with open(inp) as fin:
                p = subprocess.run(['lake', 'env', 'lean', '--run', 'Drivers/C01.lean'], cwd=C.LEAN, stdin=fin,
                                   stdout=subprocess.PIPE, stderr=subprocess.STDOUT, text=True, timeout=timeout)
            rows = p.stdout.split('\n')
            if rows and rows[-1] == '':
                rows.pop()
            if p.returncode != 0 or len(rows) != len(b):
                errs.append(f'driver C01 chunk {tag}: rc={p.returncode}, {len(rows)} replies for {len(b)} requests\n{p.stdout[-1500:]}')
                return
            for i, r in zip(b, rows):
                out[i] = r
        except subprocess.TimeoutExpired:
            errs.append(f'driver C01 chunk {tag}: timeout')
        finally:
            os.unlink(inp)
    ths = [threading.Thread(target=work, args=(b, t)) for t, b in enumerate(buckets)]
    for t in ths:
        t.start()
    for t in ths:
        t.join()
    if errs:
        raise C.ToolError(errs[0])
    return out


# ------------------------------------------------------------------------------------------------
# inputs
# ------------------------------------------------------------------------------------------------
DTYPES = ['complex128', 'float64', 'complex64', 'float32', 'int64', 'bool']
QS = [1, 2, 3, 1.5, 2.37, 0.8, (1.7, 2.3), (2, 1), (1.0, 1.0)]
SHIFTS = [(0, 0), (0, 0), (0, 0), (1, 1), (-1, 0), (2.5, -2.5), (1.5, -2.25), (0, 1), (-2.5, 0.75)]


LAYOUTS = ['C', 'F', 'T', 'strided', 'negstride', 'readonly']


def relayout(a, kind):
    """the same values in another memory layout: Fortran order, a transposed view, a strided view of a larger buffer, a view
    with negative strides, a read-only array (the implementation must neither depend on the layout nor write to its input)"""
    if kind in (None, 'C'):
        return a
    if kind == 'F':
        return np.asfortranarray(a)
    if kind == 'T':
        return np.ascontiguousarray(a.T).T
    if kind == 'strided':
        big = np.zeros((2 * a.shape[0] + 1, 3 * a.shape[1] + 2), dtype=a.dtype)
        big[1::2, 2::3] = a
        return big[1::2, 2::3]
    if kind == 'negstride':
        return np.ascontiguousarray(a[::-1, ::-1])[::-1, ::-1]
    if kind == 'readonly':
        b = a.copy()
        b.flags.writeable = False
        return b
    raise ValueError(kind)


def gen_layout(r):
    return 'C' if r.random() < 0.6 else LAYOUTS[int(r.integers(1, len(LAYOUTS)))]


def make_input(shape, dtype, seed, layout=None):
    """deterministic, well-conditioned input of the requested dtype and memory layout (reconstructible from its arguments)"""
    r = np.random.default_rng(seed)
    m, n = shape
    if dtype.startswith('complex'):
        a = r.standard_normal((m, n)) + 1j * r.standard_normal((m, n))
    elif dtype.startswith('float'):
        a = r.standard_normal((m, n))
    elif dtype.startswith('int') or dtype.startswith('uint'):
        a = r.integers(0 if dtype.startswith('uint') else -3, 4, size=(m, n))
        if not a.any():
            a[0, 0] = 1
    elif dtype == 'bool':
        a = r.integers(0, 2, size=(m, n)).astype(bool)
        if not a.any():
            a[0, 0] = True
    else:
        raise ValueError(dtype)
    return relayout(a.astype(dtype), layout)


def qpair(Q):
    return (float(Q[0]), float(Q[1])) if isinstance(Q, (tuple, list)) else (float(Q), float(Q))


def spec2_numpy(f, Q, MN, shift, sign):
    """the textbook sum in NumPy (used by search/replay only; the correspondence oracle is the Lean model):
    sum_ji f[j,i] exp(sign*2*pi*i*[(j-m//2)(k-M//2-sy)/(m Qy) + (i-n//2)(l-N//2-sx)/(n Qx)]) / sqrt(m Qy n Qx)"""
    f = np.asarray(f)
    m, n = f.shape
    M, N = MN
    Qy, Qx = qpair(Q)
    sx, sy = float(shift[0]), float(shift[1])
    j = np.arange(m) - m // 2
    k = np.arange(M) - M // 2 - sy
    i = np.arange(n) - n // 2
    ell = np.arange(N) - N // 2 - sx
    Ey = np.exp(sign * 2j * np.pi * np.outer(k, j) / (m * Qy))
    Ex = np.exp(sign * 2j * np.pi * np.outer(i, ell) / (n * Qx))
    return (Ey @ f.astype(complex) @ Ex) / np.sqrt(m * Qy * n * Qx)


def apply_forms(Q, MN, shift, forms):
    """the documented argument forms: scalars, tuples, lists, arrays ("int or Iterable", "scalar or per-axis")"""
    if not forms:
        return Q, MN, shift

    def conv(x, how, kind):
        if how == 'list':
            return list(x)
        if how == 'array':
            return np.asarray(x)
        if how == 'scalar':
            return x[0]
        if how == 'gen':
            return (v for v in tuple(x))                 # a generator: can be consumed once
        if how == 'iter':
            return iter(list(x))                          # a one-shot iterator
        if how == 'narrow':                               # NumPy scalar types: narrow ints for counts, float32 where exact
            if kind == 'count':
                return tuple((np.uint8 if i % 2 else np.int16)(v) for i, v in enumerate(x))
            if all(float(np.float32(v)) == float(v) for v in x):
                return tuple(np.float32(v) for v in x)
            return tuple(np.float64(v) for v in x)
        return tuple(x)
    fq, fs, fh = forms.get('Q', 'asis'), forms.get('samples', 'tuple'), forms.get('shift', 'tuple')
    if fq != 'asis':
        if isinstance(Q, tuple):
            Q = conv(Q, fq, 'real')
        elif fq == 'narrow':
            Q = np.float32(Q) if float(np.float32(Q)) == float(Q) else np.float64(Q)
    if fs == 'scalar' and MN[0] != MN[1]:
        fs = 'tuple'
    if fh == 'scalar' and shift[0] != shift[1]:
        fh = 'tuple'
    return Q, conv(MN, fs, 'count'), conv(shift, fh, 'real')


def gen_forms(r):
    if r.random() < 0.6:
        return None
    return {'Q': ['asis', 'list', 'array', 'gen', 'narrow'][int(r.integers(5))],
            'samples': ['tuple', 'list', 'array', 'scalar', 'gen', 'iter', 'narrow'][int(r.integers(7))],
            'shift': ['tuple', 'list', 'array', 'scalar', 'gen', 'iter', 'narrow'][int(r.integers(7))]}


def call_impl(method, direction, f, Q, MN, shift, fresh=False, forms=None):
    """run the real transform; returns ndarray or raises"""
    ft, pr, config = _impl()
    Q, MN, shift = apply_forms(Q, MN, shift, forms)
    if method == 'mdft_bp':
        # gradient back-propagation entry points: same caches, same keys as dft2 / idft2; `MN` is the shape of the OTHER plane
        ex = ft.MatrixDFTExecutor() if fresh else ft.mdft
        return (ex.dft2_backprop if direction < 0 else ex.idft2_backprop)(f, Q, MN, shift)
    if method == 'mdft':
        ex = ft.MatrixDFTExecutor() if fresh else ft.mdft
        fn = ex.dft2 if direction < 0 else ex.idft2
    else:
        ex = ft.ChirpZTransformExecutor() if fresh else ft.czt
        fn = ex.czt2 if direction < 0 else ex.iczt2
    return fn(f, Q, MN, shift)


def tol32(nmax):
    """single precision: rounding of the chirps / bases grows ~linearly with the axis length (measured on the clean tree:
    czt complex64 vs complex128 rel. error 2e-6 at n=64, 1e-5 at 256, 4.3e-5 at 1024, i.e. ~4e-8 n): 12x that, floor 5e-5"""
    return max(TOL32, 5e-7 * nmax)


def phase_max(case):
    """largest chirp / kernel phase (radians) the engines form: pi * alpha_a * (max(n_a, M_a) + |shift_a|)^2 per axis.  In single
    precision these phases are rounded to ~eps32 * phase, which bounds the accuracy of Bluestein's algorithm and of the bases."""
    if 'shape' not in case or 'samples' not in case or 'Q' not in case:
        return 0.0
    (m, n), (M, N) = case['shape'], case['samples']
    Qy, Qx = qpair(tuple(case['Q']) if isinstance(case['Q'], list) else case['Q'])
    sh = case.get('shift', [0, 0])
    return max(np.pi / (m * Qy) * (max(m, M) + abs(sh[1])) ** 2, np.pi / (n * Qx) * (max(n, N) + abs(sh[0])) ** 2)


def tol_for(case):
    """float64: 1e-9.  Single precision: max(5e-5, 5e-7 * longest axis, 8 * eps32 * largest phase).  Calibration on the clean tree
    (9 600 random single-precision cases, sizes 1..513, Q in [0.3, 5], shifts up to 5): error / (eps32 * largest phase) <= 0.5,
    one thorough-tier case at 1.2; the factor 8 leaves >= 6x margin while an index / sign / constant error is O(1)."""
    lowp = case.get('precision', 64) == 32 or case.get('dtype') in ('float32', 'complex64')
    if not lowp:
        return TOL64
    sizes = list(case.get('shape', [])) + list(case.get('samples', []))
    return max(tol32(max(sizes) if sizes else 1), 8 * 1.2e-7 * phase_max(case))


def close(a, b, tol):
    a = np.asarray(a)
    b = np.asarray(b)
    if a.shape != b.shape:
        return False, float('inf')
    if a.size == 0:
        return True, 0.0
    if not (np.isfinite(a).all() and np.isfinite(b).all()):
        return False, float('nan')
    err = float(np.abs(a - b).max())
    return err <= tol * max(1.0, float(np.abs(b).max())), err


def transform_case(ctx_rng, shape, big=False):
    r = ctx_rng
    m, n = shape
    Q = QS[int(r.integers(len(QS)))]
    if r.random() < 0.5:          # random REAL Q (all digits random), scalar or per-axis, below and above 1
        q = [float(np.exp(r.uniform(np.log(0.3), np.log(5.0)))) for _ in range(2)]
        Q = q[0] if r.random() < 0.5 else (q[0], q[1])
    hi = 10 if not big else 26
    M, N = int(r.integers(1, hi + 1)), int(r.integers(1, hi + 1))
    if r.random() < 0.15:
        M, N = m, n
    shift = SHIFTS[int(r.integers(len(SHIFTS)))]
    if r.random() < 0.4:          # random real shifts (one component may stay zero)
        shift = (float(r.uniform(-4, 4)), float(r.uniform(-4, 4)) if r.random() < 0.7 else 0.0)
        if r.random() < 0.3:
            shift = (shift[1], shift[0])
    dtype = DTYPES[int(r.choice(len(DTYPES), p=[0.35, 0.25, 0.1, 0.1, 0.1, 0.1]))]
    direction = -1 if r.random() < 0.5 else 1
    precision = 32 if r.random() < 0.15 else 64
    c = {'shape': [m, n], 'Q': list(Q) if isinstance(Q, tuple) else Q, 'samples': [M, N], 'shift': list(shift),
         'dir': direction, 'dtype': dtype, 'precision': precision, 'seed': int(r.integers(1 << 30))}
    forms = gen_forms(r)
    if forms:
        c['forms'] = forms
    lay = gen_layout(r)
    if lay != 'C':
        c['layout'] = lay
    return c


def symmetric_cases():
    """near-symmetric situations: input and output square, equal shift components, one Q - and then exactly ONE of the four
    per-axis parameters made different (a shortcut that treats the two axes alike when 'everything is symmetric' must test all four)"""
    out = []
    seed = 1000
    for n in (3, 4):
        for M in (n, 5):
            for s_ in (0, 1.5):
                for d in (-1, 1):
                    base = {'shape': [n, n], 'Q': [1.7, 1.7], 'samples': [M, M], 'shift': [s_, s_], 'dir': d, 'dtype': 'complex128',
                            'precision': 64}
                    for key, val in ((None, None), ('Q', [1.7, 2.3]), ('Q', [2.3, 1.7]), ('shift', [s_, s_ + 1.25]),
                                     ('samples', [M, M + 2]), ('shape', [n, n + 1])):
                        c = {k: (list(v) if isinstance(v, list) else v) for k, v in base.items()}
                        if key:
                            c[key] = val
                        seed += 1
                        c['seed'] = seed
                        out.append(c)
    return out


def case_args(c):
    Q = tuple(c['Q']) if isinstance(c['Q'], list) else c['Q']
    return tuple(c['shape']), Q, tuple(c['samples']), tuple(c['shift'])


def driver_lines_for(c, f, K, L, with_czt=True):
    (m, n), Q, (M, N), shift = case_args(c)
    Qy, Qx = qpair(Q)
    hdr = f'{c["dir"]} {m} {n} {M} {N}'
    q = f'{C.f2w(Qy)} {C.f2w(Qx)}'
    s0, s1 = C.f2w(shift[0]), C.f2w(shift[1])
    data = arr2w(f)
    out = [f'spec2 {hdr} {q} {s1} {s0} {data}',          # spec2 takes (sy, sx) = (shift[1], shift[0])
           f'mdft2 {hdr} {q} {s0} {s1} {data}']
    if with_czt:
        out.append(f'czt2 {hdr} {K} {L} {q} {s0} {s1} {data}')
    return out


# ------------------------------------------------------------------------------------------------
# correspondence
# ------------------------------------------------------------------------------------------------
def correspondence(ctx):
    ft, pr, config = _impl()
    config.precision = 64
    ft.mdft.clear()
    ft.czt.clear()
    try:
        import os, sys, time
        for stream in (_transforms, _fft_route, _czt_basis, _dispatch, _large, _histories):
            t0 = time.time()
            stream(ctx, ft, pr, config)
            if os.environ.get('VERIF_PROFILE'):
                print(f'profile C01 {stream.__name__}: {time.time() - t0:.1f} s', file=sys.stderr)
    finally:
        config.precision = 64
        ft.mdft.clear()
        ft.czt.clear()


def _transforms(ctx, ft, pr, config):
    reps = ctx.scale(4, 140)
    nbig = ctx.scale(18, 660)
    if ctx.widen:
        reps = max(reps, 12)
    shapes = list(itertools.product(range(1, 10), repeat=2))
    cases = []
    for rep in range(reps):
        for shp in shapes:
            cases.append(transform_case(ctx.rng, shp))
    for _ in range(nbig):
        shp = (int(ctx.rng.integers(10, 25)), int(ctx.rng.integers(10, 18)))
        cases.append(transform_case(ctx.rng, shp, big=True))
    cases = symmetric_cases() + cases
    lines, meta = [], []
    for c in cases:
        (m, n), Q, (M, N), shift = case_args(c)
        f = make_input((m, n), c['dtype'], c['seed'], c.get('layout'))
        K, L = ft.next_fast_len(m + M - 1), ft.next_fast_len(n + N - 1)
        if K < m + M - 1 or L < n + N - 1:
            ctx.pred_fail('next_fast_len', {'arg': [m + M - 1, n + N - 1]}, f'next_fast_len returned {K, L}')
        ls = driver_lines_for(c, f, K, L)
        meta.append((c, f, len(lines)))
        lines += ls
    rep = driver_parallel(lines)
    stream, hist_reports = [], 0
    for c, f, at in meta:
        (m, n), Q, (M, N), shift = case_args(c)
        sp, md, cz = (w2arr(rep[at + i], M, N) for i in range(3))
        tol = tol_for(c)
        zero_shift = (shift[0] == 0 and shift[1] == 0)
        nontriv = not (m == n == M == N == 1)
        # input-distribution histograms (one coarse histogram per quantifier of the property text)
        for hk in (f'shape_parity_in->out:{m % 2}{n % 2}->{M % 2}{N % 2}', f'square:{m == n}',
                   f'size_out_vs_in:{"smaller" if M * N < m * n else "equal" if (M, N) == (m, n) else "larger"}',
                   'Q:' + ('1' if Q == 1 else 'integer' if isinstance(Q, int) else
                           ('per-axis random real' if len(repr(Q[0])) > 6 else 'per-axis') if isinstance(Q, tuple) else
                           'random real' if len(repr(Q)) > 6 else 'fractional<1' if Q < 1 else 'fractional'),
                   'shift:' + ('zero' if zero_shift else 'fractional' if any(float(s_) != int(s_) for s_ in shift) else 'integer'),
                   f'dtype:{c["dtype"]}', f'precision:{c["precision"]}', f'direction:{"fwd" if c["dir"] < 0 else "inv"}',
                   f'argument_forms:{"tuples" if not c.get("forms") else "list/array/scalar/generator/iterator/numpy-scalars"}',
                   f'layout:{c.get("layout", "C")}'):
            ctx.hist['transform.' + hk] += 1
        config.precision = c['precision']
        f_before = np.array(f, copy=True)
        try:
            for method, model in (('mdft', md), ('czt', cz)):
                cc = dict(c, method=method)
                ctx.case('transform', cc, nontrivial=nontriv, tag=f'method:{method}')
                if _is_known(ctx, cc):
                    continue
                try:
                    out = call_impl(method, c['dir'], f, Q, (M, N), shift, fresh=True, forms=c.get('forms'))
                except Exception as ex:
                    ctx.disagree('transform', cc, f'raised {type(ex).__name__}: {str(ex)[:120]}', 'model returns an array')
                    ctx.pred_fail('transform', cc, f'{method} raised {type(ex).__name__}: {str(ex)[:160]}')
                    continue
                # the whole stream is also one long history on the SHARED executors: the same call there must return
                # what the fresh executor returned (same arguments, same configuration)
                op = dict(cc, op='call')
                stream.append({'op': 'precision', 'value': c['precision']})
                stream.append(op)
                if hist_reports < 3:
                    try:
                        shared = call_impl(method, c['dir'], f, Q, (M, N), shift, forms=c.get('forms'))
                        lowp = c['precision'] == 32 if method == 'mdft' else (
                            c['dtype'] in ('complex64', 'float32') or (c['precision'] == 32 and not c['dtype'].startswith(('complex', 'float'))))
                        same = shared.dtype == out.dtype and close(shared, out, max(1e-5, tol_for(dict(c, precision=32))) if lowp else 1e-10)[0]
                    except Exception:
                        same = False
                    if not same:
                        hist_reports += 1
                        ops = _culprit_history(stream, ft, config)
                        config.precision = c['precision']
                        if ops is not None:
                            ctx.pred_fail('history', {'ops': ops}, run_history(ops, ft, config)[0])
                            config.precision = c['precision']
                if not np.array_equal(f, f_before):
                    ctx.pred_fail('transform', cc, f'{method} modified its input array in place')
                    f = make_input((m, n), c['dtype'], c['seed'], c.get('layout'))
                ok, err = close(out, model, tol)
                if not ok:
                    ctx.disagree('transform', cc, f'max |impl - model| = {err:.3g}', f'model {method} (tol {tol:g})')
                # property predicate on the real output, against the textbook sum
                if zero_shift:
                    okp, errp = close(out, sp, tol)
                    what = 'route != textbook sum (zero shift)'
                else:
                    okp, errp = close(np.abs(out), np.abs(sp), tol)
                    what = '|route| != |textbook sum| (shifted)'
                if not okp:
                    ctx.pred_fail('transform', cc, f'{what}: max err {errp:.3g} (tol {tol:g})')
        finally:
            config.precision = 64


def _culprit_history(stream, ft, config):
    """the last call of `stream` differs from a fresh executor: find a short history that reproduces it.
    First try each earlier call alone in front of the failing one (most recent first), then the whole prefix."""
    last_prec, last = stream[-2], stream[-1]
    calls = [(stream[i - 1], stream[i]) for i in range(1, len(stream) - 2, 2)]
    for prec, op in reversed(calls[-600:]):
        if op['method'] != last['method']:
            continue
        ops = [prec, op, last_prec, last]
        if run_history(ops, ft, config)[0]:
            return ops
    ops = list(stream[-802:])
    if run_history(ops, ft, config)[0]:
        return _shrink_history(ops, ft, config) if len(ops) <= 120 else ops
    return None


def _fft_route(ctx, ft, pr, config):
    shapes = list(itertools.product(range(1, 10), repeat=2))
    Qs = [1, 2, 3, 1.5, 2.37, 1.2]
    reps = ctx.scale(2, 12)
    cases = []
    for rep in range(reps):
        for i, shp in enumerate(shapes):
            Q = Qs[(i + rep + int(ctx.rng.integers(len(Qs)))) % len(Qs)]
            dtype = ['complex128', 'float64', 'complex64', 'bool', 'float32', 'int64'][int(ctx.rng.integers(6))]
            cases.append({'shape': list(shp), 'Q': Q, 'dtype': dtype, 'seed': int(ctx.rng.integers(1 << 30)),
                          'dir': -1 if (i + rep) % 2 == 0 else 1, 'layout': gen_layout(ctx.rng)})
    for _ in range(ctx.scale(6, 120)):
        shp = (int(ctx.rng.integers(10, 25)), int(ctx.rng.integers(10, 18)))
        cases.append({'shape': list(shp), 'Q': [1, 2, 1.5][int(ctx.rng.integers(3))], 'dtype': 'complex128',
                      'seed': int(ctx.rng.integers(1 << 30)), 'dir': -1 if ctx.rng.random() < 0.5 else 1})
    lines, meta = [], []
    for c in cases:
        m, n = c['shape']
        f = make_input((m, n), c['dtype'], c['seed'], c.get('layout'))
        fn = pr.focus if c['dir'] < 0 else pr.unfocus
        try:
            out = fn(f, c['Q'])
        except Exception as ex:
            ctx.case('fft_route', c)
            ctx.disagree('fft_route', c, f'raised {type(ex).__name__}: {ex}', 'model returns an array')
            ctx.pred_fail('fft_route', c, f'raised {type(ex).__name__}: {str(ex)[:160]}')
            continue
        M, N = out.shape
        wantM, wantN = int(np.ceil(m * c['Q'])), int(np.ceil(n * c['Q']))
        if (M, N) != (wantM, wantN):
            ctx.pred_fail('fft_route', c, f'padded shape {M, N}, expected ceil(shape*Q) = {wantM, wantN}')
        z = C.f2w(0.0)
        lines.append(f'fft2 {c["dir"]} {m} {n} {M} {N} {arr2w(f)}')
        lines.append(f'spec2 {c["dir"]} {m} {n} {M} {N} {C.f2w(M / m)} {C.f2w(N / n)} {z} {z} {arr2w(f)}')
        meta.append((c, out, M, N, len(lines) - 2))
    rep = driver_parallel(lines)
    for c, out, M, N, at in meta:
        model, sp = w2arr(rep[at], M, N), w2arr(rep[at + 1], M, N)
        m, n = c['shape']
        tol = tol_for(c)
        ctx.case('fft_route', c, nontrivial=not (m == n == 1), tag=f'par{m % 2}{n % 2}->{M % 2}{N % 2}/Q{c["Q"]}/{c["dtype"]}')
        ok, err = close(out, model, tol)
        if not ok:
            ctx.disagree('fft_route', c, f'max |impl - model| = {err:.3g}', 'model fftRoute2')
        okp, errp = close(out, sp, tol)
        if not okp:
            ctx.pred_fail('fft_route', c, f'padded FFT != textbook sum on its own grid: max err {errp:.3g}')


def _czt_basis(ctx, ft, pr, config):
    """_prepare_czt_basis against the model's h, b, a for every (n, M) up to a bound (validates the index glue that the
    translator emits, by execution)"""
    B = ctx.scale(10, 24)
    if ctx.widen:
        B = max(B, 16)
    cases = []
    for n in range(1, B + 1):
        for M in range(1, B + 1):
            L = ft.next_fast_len(n + M - 1)
            if (n + M) % 3 == 0:
                L += 1 + (n % 2)          # the theorem holds for every L >= n+M-1, not only fast lengths
            alpha = 1.0 / (n * [1.0, 1.5, 2.37][(n + M) % 3])
            s = [0.0, 1.0, -2.5, 0.75][(n * 3 + M) % 4]
            cases.append((n, M, L, alpha, s))
    lines = [f'cztbasis {n} {M} {L} {C.f2w(alpha)} {C.f2w(s)}' for (n, M, L, alpha, s) in cases]
    rep = driver_parallel(lines)
    for (n, M, L, alpha, s), row in zip(cases, rep):
        case = {'n': n, 'M': M, 'L': L, 'alpha': alpha, 'shift': s}
        ctx.case('czt_basis', case, nontrivial=not (n == 1 and M == 1), tag=f'par{n % 2}{M % 2}/{"s0" if s == 0 else "s"}')
        v = w2vec(row)
        h, b, a = v[:L], v[L:L + n], v[L + n:]
        try:
            H, bi, ai = ft._prepare_czt_basis(N=n, M=M, K=L, shift=s, alpha=alpha, dtype=np.dtype('complex128'), norm=True)
        except TypeError as ex:
            if 'argument' in str(ex):      # the private helper changed its signature: nothing to compare against
                ctx.notes.append(f'_prepare_czt_basis signature changed ({ex}); basis stream skipped')
                break
            ctx.disagree('czt_basis', case, f'raised {type(ex).__name__}: {str(ex)[:120]}', 'model returns vectors')
            continue
        except Exception as ex:
            ctx.disagree('czt_basis', case, f'raised {type(ex).__name__}: {str(ex)[:120]}', 'model returns vectors')
            continue
        hi = np.fft.ifft(np.asarray(H))
        for nm, x, y in (('h', hi, h), ('b', np.asarray(bi), b), ('a', np.asarray(ai), a)):
            ok, err = close(x, y, 1e-10)
            if not ok:
                ctx.disagree('czt_basis', case, f'{nm}: max |impl - model| = {err:.3g}', f'model {nm}')
                break


def large_case(r, hi):
    m, n = int(r.integers(30, hi + 1)), int(r.integers(30, hi + 1))
    M, N = int(r.integers(20, hi + 1)), int(r.integers(20, hi + 1))
    q = [float(np.exp(r.uniform(np.log(0.5), np.log(3.0)))) for _ in range(2)]
    return {'shape': [m, n], 'Q': q[0] if r.random() < 0.5 else q, 'samples': [M, N],
            'shift': [0, 0] if r.random() < 0.4 else [float(r.uniform(-5, 5)), float(r.uniform(-5, 5))],
            'dir': -1 if r.random() < 0.5 else 1, 'dtype': ['complex128', 'float64', 'complex64', 'float32'][int(r.integers(4))],
            'precision': 32 if r.random() < 0.2 else 64, 'seed': int(r.integers(1 << 30))}


def _large(ctx, ft, pr, config):
    """realistic sizes (the Lean oracle is an interpreted O(n^4) sum, so the oracle here is the NumPy double sum `spec2_numpy`):
    catches edits that only act beyond the small-scope sizes; single-precision tolerance scales with the axis length"""
    hi = ctx.scale(140, 513)
    for _ in range(ctx.scale(6, 120)):
        c = large_case(ctx.rng, hi)
        for method in ('mdft', 'czt'):
            cc = dict(c, method=method)
            ctx.case('large', cc, tag=f'{method}/{c["dtype"]}/p{c["precision"]}')
            ok, detail = check_transform(cc)
            if not ok:
                ctx.pred_fail('transform', cc, detail)
    for _ in range(ctx.scale(6, 60)):
        c = {'shape': [int(ctx.rng.integers(30, hi // 2 + 1)), int(ctx.rng.integers(30, hi // 2 + 1))],
             'Q': [1, 2, 1.5, 1.27][int(ctx.rng.integers(4))], 'dtype': ['complex128', 'complex64'][int(ctx.rng.integers(2))],
             'seed': int(ctx.rng.integers(1 << 30)), 'dir': -1 if ctx.rng.random() < 0.5 else 1}
        ctx.case('large', c, tag='fft_route')
        ok, detail = check_fft(c)
        if not ok:
            ctx.pred_fail('fft_route', c, detail)


def dispatch_case(r):
    """fixed-sampling entry points: random REAL spacings / focal length / wavelength / shifts, non-square shapes; the
    output spacing is chosen so that the per-axis Q lands in [0.4, 4] (conditioning), which keeps every digit random"""
    m, n = int(r.integers(1, 10)), int(r.integers(1, 10))
    M, N = int(r.integers(1, 11)), int(r.integers(1, 11))
    if r.random() < 0.25:
        N = M
    dx, efl, wvl = float(r.uniform(0.3, 3.0)), float(r.uniform(30, 300)), float(r.uniform(0.3, 2.0))
    q0 = float(np.exp(r.uniform(np.log(0.4), np.log(4.0))))
    out_dx = wvl * efl / (m * dx * q0)
    x = r.random()
    if x < 0.35:
        shift = [0.0, 0.0]
    elif x < 0.55:
        shift = [float(r.uniform(-3, 3)) * out_dx, 0.0] if r.random() < 0.5 else [0.0, float(r.uniform(-3, 3)) * out_dx]
    else:
        shift = [float(r.uniform(-3, 3)) * out_dx, float(r.uniform(-3, 3)) * out_dx]
    return {'fn': ['focus_fixed_sampling', 'unfocus_fixed_sampling'][int(r.integers(2))], 'shape': [m, n], 'samples': [M, N],
            'dx': dx, 'efl': efl, 'wvl': wvl, 'out_dx': out_dx, 'shift': shift,
            'samples_form': ['tuple', 'list', 'int'][int(r.integers(3))] if M == N else ['tuple', 'list'][int(r.integers(2))],
            'dtype': ['complex128', 'float64', 'bool', 'float32', 'int64', 'complex64'][int(r.choice(6, p=[0.45, 0.2, 0.1, 0.1, 0.1, 0.05]))],
            'layout': gen_layout(r), 'seed': int(r.integers(1 << 30))}


def dispatch_expect(c):
    """what the physics says the engines must be asked for: per-axis Q = lambda f / (n_a dx_in dx_out), shift in output samples"""
    m, n = c['shape']
    Q = tuple(c['wvl'] * c['efl'] / (s * c['dx'] * c['out_dx']) for s in (m, n))
    sh = (c['shift'][0] / c['out_dx'], c['shift'][1] / c['out_dx'])
    return Q, sh, (-1 if c['fn'].startswith('focus') else 1)


def dispatch_outputs(c):
    """every way of making the call: function / Wavefront method x mdft / czt; returns [(label, array or exception, wavefront or None)]"""
    ft, pr, config = _impl()
    f = make_input(tuple(c['shape']), c['dtype'], c['seed'], c.get('layout'))
    M, N = c['samples']
    samples = {'tuple': (M, N), 'list': [M, N], 'int': M}[c.get('samples_form', 'tuple')]
    fn = getattr(pr, c['fn'])
    space = 'pupil' if c['fn'].startswith('focus') else 'psf'
    outs = []
    for method in ('mdft', 'czt'):
        try:
            outs.append((f'{c["fn"]}(method={method!r})',
                         fn(f, c['dx'], c['efl'], c['wvl'], c['out_dx'], samples, shift=tuple(c['shift']), method=method), None))
        except Exception as ex:
            outs.append((f'{c["fn"]}(method={method!r})', ex, None))
        try:
            wf = pr.Wavefront(np.asarray(f, dtype=complex), c['wvl'], c['dx'], space=space)
            w = getattr(wf, c['fn'])(c['efl'], c['out_dx'], samples, shift=tuple(c['shift']), method=method)
            outs.append((f'Wavefront.{c["fn"]}(method={method!r})', w.data, w))
        except Exception as ex:
            outs.append((f'Wavefront.{c["fn"]}(method={method!r})', ex, None))
    return f, outs


def check_dispatch(c, verbose=False, oracle=None):
    """True iff every entry point returns the textbook sum on the PHYSICAL grid (complex at zero shift, modulus otherwise)
    and the returned Wavefront carries the requested spacing / the right space / the wavelength"""
    f, outs = dispatch_outputs(c)
    Q, sh, d = dispatch_expect(c)
    M, N = c['samples']
    sp = oracle if oracle is not None else spec2_numpy(f, Q, (M, N), sh, d)
    zero = c['shift'][0] == 0 and c['shift'][1] == 0
    for label, out, w in outs:
        if isinstance(out, Exception):
            return False, f'{label} raised {type(out).__name__}: {str(out)[:140]}'
        # the chirp-Z engine works in the precision of the array it is given (the Wavefront wrapper always hands it complex128)
        tl = tol_for({'dtype': c['dtype'], 'shape': c['shape'], 'samples': c['samples'], 'Q': list(Q), 'shift': list(sh)}) \
            if ('czt' in label and w is None) else TOL64
        ok, err = close(out, sp, tl) if zero else close(np.abs(out), np.abs(sp), tl)
        if verbose:
            print(f'  {label}: max error against the textbook sum on the physical grid (Q = {Q[0]:.4g}, {Q[1]:.4g}; shift = '
                  f'{sh[0]:.4g}, {sh[1]:.4g} samples) {err:.3g}')
        if not ok:
            return False, (f'{label}: {"result" if zero else "|result|"} != textbook sum with Q_a = wvl*efl/(n_a*dx*out_dx), '
                           f'shift/out_dx: max err {err:.3g}')
        if w is not None:
            want_space = 'psf' if c['fn'].startswith('focus') else 'pupil'
            if not (w.dx == c['out_dx'] and w.space == want_space and w.wavelength == c['wvl'] and w.data.shape == (M, N)):
                return False, f'{label}: returned Wavefront has dx={w.dx}, space={w.space!r}, shape={w.data.shape}'
    return True, ''


def _dispatch(ctx, ft, pr, config):
    """the propagation-level entry points (functions and Wavefront methods, both engines) against the textbook sum on the
    PHYSICAL grid: per-axis Q and shift conversion are computed independently here (oracle: Lean `spec2`)"""
    cases = [dispatch_case(ctx.rng) for _ in range(ctx.scale(50, 800))]
    lines = []
    for c in cases:
        Q, sh, d = dispatch_expect(c)
        m, n = c['shape']
        M, N = c['samples']
        f = make_input((m, n), c['dtype'], c['seed'], c.get('layout'))
        lines.append(f'spec2 {d} {m} {n} {M} {N} {C.f2w(Q[0])} {C.f2w(Q[1])} {C.f2w(sh[1])} {C.f2w(sh[0])} {arr2w(f)}')
    rep = driver_parallel(lines)
    for c, row in zip(cases, rep):
        m, n = c['shape']
        M, N = c['samples']
        zero = c['shift'] == [0.0, 0.0]
        ctx.case('dispatch', c, nontrivial=not (m == n == M == N == 1),
                 tag=f'{c["fn"]}/{"sq" if m == n else "ns"}/{"s0" if zero else "s"}/{c["samples_form"]}')
        ok, detail = check_dispatch(c, oracle=w2arr(row, M, N))
        if not ok:
            ctx.pred_fail('dispatch', c, detail)
            continue
        # model: czt2 == dft2 sample for sample (including the phase under a shift)
        f, outs = dispatch_outputs(c)
        Qd, shd, _ = dispatch_expect(c)
        ok, err = close(outs[2][1], outs[0][1], tol_for({'dtype': c['dtype'], 'shape': c['shape'], 'samples': c['samples'],
                                                         'Q': list(Qd), 'shift': list(shd)}))
        if not ok:
            ctx.disagree('dispatch', c, f'czt - mdft = {err:.3g}', 'model: czt2 == dft2 sample for sample')
        # the Wavefront.focus / unfocus wrappers (FFT route)
        try:
            space = 'pupil' if c['fn'].startswith('focus') else 'psf'
            wf = pr.Wavefront(np.asarray(f, dtype=complex), c['wvl'], c['dx'], space=space)
            q = [1, 2, 1.5][int(ctx.rng.integers(3))]
            w2 = (wf.focus if space == 'pupil' else wf.unfocus)(c['efl'], Q=q)
            ref2 = (pr.focus if space == 'pupil' else pr.unfocus)(np.asarray(f, dtype=complex), q)
            if not close(w2.data, ref2, TOL64)[0] or w2.space != ('psf' if space == 'pupil' else 'pupil'):
                ctx.pred_fail('dispatch', c, 'Wavefront.focus / unfocus differ from the functions they wrap')
        except Exception as ex:
            ctx.pred_fail('dispatch', c, f'Wavefront.focus/unfocus raised {type(ex).__name__}: {str(ex)[:160]}')


# ------------------------------------------------------------------------------------------------
# histories
# ------------------------------------------------------------------------------------------------
# the reference protocol of the hand model (Model/C01.lean: mdftProtoRef, cztProtoRef)
PROTO_REF = {'mdft': {'stores': ['Ein', 'Eout'], 'probe': ['Ein'], 'miss': ['Ein', 'Eout'], 'use': ['Ein', 'Eout'], 'clear': ['Ein', 'Eout']},
             'czt': {'stores': ['components'], 'probe': ['components'], 'miss': ['components'], 'use': ['components'],
                     'clear': ['components']}}


def _norm_key(method, direction, shape, Q, MN, shift, precision, dtype):
    """the key fields the MODEL says a call depends on (independent of the implementation's _key)"""
    Qy, Qx = qpair(Q)
    if method == 'mdft':
        return ['mdft', repr((Qy, Qx)), repr(tuple(shape)), repr(tuple(MN)), repr((float(shift[0]), float(shift[1]))),
                'fwd' if direction < 0 else 'inv', f'p{precision}']
    return ['czt', repr((Qy, Qx)), repr(tuple(shape)), repr(tuple(MN)), repr((float(shift[0]), float(shift[1]))), dtype]


def gen_history(r, length):
    """ops over a small pool of argument sets so that keys repeat; clear() and precision switches interleaved"""
    pool = []
    shp = (int(r.integers(1, 8)), int(r.integers(1, 8)))
    rq = float(np.exp(r.uniform(np.log(0.4), np.log(4.0))))
    pool.append({'shape': list(shp), 'Q': [1, 2, 1.5, (1.7, 2.3), rq, (rq, 1.0 + rq / 3)][int(r.integers(6))],
                 'samples': [int(r.integers(1, 9)), int(r.integers(1, 9))],
                 'shift': list(SHIFTS[int(r.integers(len(SHIFTS)))]) if r.random() < 0.6
                 else [float(r.uniform(-3, 3)), float(r.uniform(-3, 3))]})
    for _ in range(int(r.integers(1, 5))):
        if r.random() < 0.3:          # an unrelated argument set
            shp = (int(r.integers(1, 8)), int(r.integers(1, 8)))
            pool.append({'shape': list(shp), 'Q': [1, 2, 1.5, (1.7, 2.3)][int(r.integers(4))],
                         'samples': [int(r.integers(1, 9)), int(r.integers(1, 9))],
                         'shift': list(SHIFTS[int(r.integers(len(SHIFTS)))])})
            continue
        # a variant of an earlier set that differs along ONE axis only (the other axis shares count, Q, samples, shift)
        base = pool[int(r.integers(len(pool)))]
        v = {k: (list(x) if isinstance(x, (list, tuple)) else x) for k, x in base.items()}
        ax = int(r.integers(2))
        what = int(r.integers(4))
        if what == 0:
            v['shape'][ax] = int(r.integers(1, 8))
        elif what == 1:
            q = list(qpair(tuple(v['Q']) if isinstance(v['Q'], list) else v['Q']))
            q[ax] = [1.0, 2.0, 1.5, 2.37, 3.0][int(r.integers(5))]
            v['Q'] = q
        elif what == 2:
            v['samples'][ax] = int(r.integers(1, 9))
        else:
            v['shift'][ax] = [0, 1, -2.5, 0.75][int(r.integers(4))]
        pool.append(v)
    # transforms requested through prysm.propagation (physical units; a small pool so that their keys repeat; the first one asks
    # for exactly the grid of pool[0] so that it shares cache entries with the direct calls)
    disp_pool = []
    if r.random() < 0.7:
        for i_ in range(int(r.integers(1, 4))):
            c = dispatch_case(r)
            if i_ == 0 and r.random() < 0.6:
                b = pool[0]
                qy, qx = qpair(tuple(b['Q']) if isinstance(b['Q'], list) else b['Q'])
                if abs(qy * b['shape'][0] - qx * b['shape'][1]) < 1e-12 * qy * b['shape'][0]:   # one output spacing serves both axes
                    c.update(shape=list(b['shape']), samples=list(b['samples']))
                    c['out_dx'] = c['wvl'] * c['efl'] / (b['shape'][0] * c['dx'] * qy)
                    c['shift'] = [float(b['shift'][0]) * c['out_dx'], float(b['shift'][1]) * c['out_dx']]
            disp_pool.append(c)
    ops = []
    for _ in range(length):
        x = r.random()
        if x < 0.08:
            ops.append({'op': 'clear', 'which': ['mdft', 'czt'][int(r.integers(2))]})
        elif x < 0.12:
            ops.append({'op': 'nbytes', 'which': ['mdft', 'czt'][int(r.integers(2))]})
        elif x < 0.15:
            p = pool[int(r.integers(len(pool)))]
            ops.append(dict(p, op='bad', method=['mdft', 'czt'][int(r.integers(2))], dir=-1 if r.random() < 0.5 else 1,
                            kind=['object', 'str'][int(r.integers(2))]))
        elif x < 0.22 and disp_pool:
            ops.append({'op': 'disp', 'method': ['mdft', 'czt'][int(r.integers(2))],
                        'case': dict(disp_pool[int(r.integers(len(disp_pool)))], seed=int(r.integers(1 << 30)))})
        elif x < 0.34:
            ops.append({'op': 'precision', 'value': [32, 64][int(r.integers(2))]})
        else:
            p = pool[int(r.integers(len(pool)))]
            ops.append(dict(p, op='call', method=['mdft', 'czt', 'mdft_bp'][int(r.choice(3, p=[0.42, 0.42, 0.16]))],
                            dir=-1 if r.random() < 0.5 else 1,
                            dtype=['complex128', 'float64', 'complex64', 'float32', 'int64', 'bool'][
                                int(r.choice(6, p=[0.45, 0.2, 0.15, 0.1, 0.05, 0.05]))],
                            seed=int(r.integers(1 << 30)), layout=gen_layout(r)))
            if ops[-1]['method'] != 'mdft_bp' and r.random() < 0.25:
                ops[-1]['forms'] = gen_forms(r)
    return ops


def _dict_sizes(ft):
    """(len(mdft.Ein), len(czt.components), len(mdft.Eout)); -1 where the attribute is not a sized container (renamed ...)"""
    def ln(obj, name):
        try:
            return len(getattr(obj, name))
        except Exception:
            return -1
    return (ln(ft.mdft, 'Ein'), ln(ft.czt, 'components'), ln(ft.mdft, 'Eout'))


def run_history(ops, ft, config, collect=None):
    """execute a history on the SHARED executors; after every call compare with a FRESH executor under the same
    configuration.  returns (first failure description or None, list of cache sizes after each op)"""
    config.precision = 64
    ft.mdft.clear()
    ft.czt.clear()
    prec = 64
    fail = None
    sizes = []
    pr = _impl()[1]
    for idx, op in enumerate(ops):
        if op['op'] == 'clear':
            (ft.mdft if op['which'] == 'mdft' else ft.czt).clear()
        elif op['op'] == 'precision':
            prec = op['value']
            config.precision = prec
        elif op['op'] == 'nbytes':
            # a pure query between transforms: must answer, and must leave every dictionary as it was
            before = _dict_sizes(ft)
            try:
                nb = (ft.mdft if op['which'] == 'mdft' else ft.czt).nbytes()
                if not (isinstance(nb, (int, np.integer)) and nb >= 0) or (nb == 0) != (before[0 if op['which'] == 'mdft' else 1] == 0):
                    fail = fail or f'op {idx}: {op["which"]}.nbytes() = {nb!r} with {before} cached entries (mdft.Ein, czt.components, mdft.Eout)'
            except Exception as ex:
                fail = fail or f'op {idx}: {op["which"]}.nbytes() raised {type(ex).__name__}: {str(ex)[:120]}'
            if _dict_sizes(ft) != before:
                fail = fail or f'op {idx}: nbytes() changed the cached entries {before} -> {_dict_sizes(ft)}'
        elif op['op'] == 'bad':
            # a call that FAILS after the executor has set up (and cached) its bases: an array of Python objects / strings cannot be
            # multiplied.  Whatever it raises, it must leave nothing behind that changes a later call (compared as always).
            shp, Q, MN, shift = case_args(op)
            junk = np.full(shp, 'x', dtype=object if op.get('kind') == 'object' else '<U1')
            try:
                call_impl(op['method'], op['dir'], junk, Q, MN, shift)
            except Exception:
                pass
        elif op['op'] == 'disp':
            # a transform requested through prysm.propagation (physical units): same shared executors, key computed there
            c = op['case']
            f = make_input(tuple(c['shape']), c['dtype'], c['seed'], c.get('layout'))
            f0 = f.copy()
            fn = getattr(pr, c['fn'])
            args = (f, c['dx'], c['efl'], c['wvl'], c['out_dx'], tuple(c['samples']))
            kw = {'shift': tuple(c['shift']), 'method': op['method']}
            try:
                got = fn(*args, **kw)
                saved = pr.mdft, pr.czt
                pr.mdft, pr.czt = ft.MatrixDFTExecutor(), ft.ChirpZTransformExecutor()
                try:
                    want = fn(*args, **kw)
                finally:
                    pr.mdft, pr.czt = saved
                if not np.array_equal(f, f0):
                    fail = fail or f'op {idx} ({c["fn"]}): the input array was modified in place'
            except Exception as ex:
                fail = fail or f'op {idx} ({c["fn"]}, method={op["method"]}): raised {type(ex).__name__}: {str(ex)[:120]}'
                sizes.append(_dict_sizes(ft))
                continue
            lowp = prec == 32 if op['method'] == 'mdft' else (
                c['dtype'] in ('complex64', 'float32') or (prec == 32 and not c['dtype'].startswith(('complex', 'float'))))
            Qe, she, _ = dispatch_expect(c)
            tl = max(1e-5, tol_for({'shape': c['shape'], 'Q': list(Qe), 'samples': c['samples'], 'shift': list(she),
                                    'precision': 32})) if lowp else 1e-10
            ok, err = close(got, want, tl)
            if got.dtype != want.dtype:
                fail = fail or f'op {idx} ({c["fn"]}): dtype {got.dtype} on the shared executor, {want.dtype} on a fresh one'
            elif not ok:
                fail = fail or (f'op {idx} ({c["fn"]}, method={op["method"]}, precision {prec}): result differs from fresh executors '
                                f'by {err:.3g} (same arguments, same configuration)')
        else:
            shp, Q, MN, shift = case_args(op)
            if op['method'] == 'mdft_bp':
                # fbar lives in the output plane (shape `samples`); the other plane's shape is the `samples_in` argument
                # (handed over as an int when that plane is square, on every other case)
                shp, MN = MN, (shp[0] if (shp[0] == shp[1] and op['seed'] % 2 == 0) else shp)
            f = make_input(shp, op['dtype'], op['seed'], op.get('layout'))
            f0 = f.copy()
            try:
                if op['method'] == 'mdft_bp' and not isinstance(MN, tuple):
                    ex_ = ft.mdft
                    got = (ex_.dft2_backprop if op['dir'] < 0 else ex_.idft2_backprop)(f, Q, MN, shift)
                    ex_ = ft.MatrixDFTExecutor()
                    want = (ex_.dft2_backprop if op['dir'] < 0 else ex_.idft2_backprop)(f, Q, MN, shift)
                else:
                    got = call_impl(op['method'], op['dir'], f, Q, MN, shift, forms=op.get('forms'))
                    want = call_impl(op['method'], op['dir'], f, Q, MN, shift, fresh=True, forms=op.get('forms'))
                if not np.array_equal(f, f0):
                    fail = fail or f'op {idx} ({op["method"]}): the input array was modified in place'
            except Exception as ex:
                fail = fail or f'op {idx}: raised {type(ex).__name__}: {str(ex)[:120]}'
                sizes.append(_dict_sizes(ft))
                continue
            # which precision the engine works in: the matrix DFT in config.precision; the chirp-Z in that of the array it is
            # given (integer / boolean arrays are cast to config.precision first)
            lowp = prec == 32 if op['method'] in ('mdft', 'mdft_bp') else (
                op['dtype'] in ('complex64', 'float32') or (prec == 32 and not op['dtype'].startswith(('complex', 'float'))))
            # single precision: two builds of the same basis may round a shifted coordinate differently by one ulp (Python float vs
            # NumPy scalar shift), which the chirp phases amplify: conditioning-aware tolerance (see tol_for)
            tl = max(1e-5, tol_for(dict(op, precision=32))) if lowp else 1e-10
            ok, err = close(got, want, tl)
            if got.dtype != want.dtype:
                fail = fail or f'op {idx}: dtype {got.dtype} on the shared executor, {want.dtype} on a fresh one'
            elif not ok:
                fail = fail or (f'op {idx} ({op["method"]}, precision {prec}): result differs from a fresh executor by {err:.3g} '
                                f'(same arguments, same configuration)')
        sizes.append(_dict_sizes(ft))
    config.precision = 64
    return fail, sizes


def systematic_histories():
    """short histories around one argument set: every ordered pair of precisions (with / without clear()), every ordered
    pair of input dtypes, every ordered pair of directions, and every pair of calls that differ along ONE axis only
    (count, Q, samples_out or shift of that axis), both orders, both engines"""
    hs = []
    base = {'shape': [4, 3], 'Q': [1.5, 1.5], 'samples': [5, 4], 'shift': [0, 0], 'dtype': 'complex128', 'seed': 7}
    for method in ('mdft', 'czt'):
        for p1, p2 in itertools.product((32, 64), repeat=2):
            for clr in (False, True):
                ops = [{'op': 'precision', 'value': p1}, dict(base, op='call', method=method, dir=-1)]
                if clr:
                    ops.append({'op': 'clear', 'which': method})
                ops += [{'op': 'precision', 'value': p2}, dict(base, op='call', method=method, dir=-1)]
                hs.append(ops)
        for d1, d2 in itertools.permutations(('complex128', 'complex64', 'float64', 'float32'), 2):
            hs.append([dict(base, op='call', method=method, dir=-1, dtype=d1), dict(base, op='call', method=method, dir=-1, dtype=d2)])
        hs.append([dict(base, op='call', method=method, dir=-1), dict(base, op='call', method=method, dir=1)])
        hs.append([dict(base, op='call', method=method, dir=1), dict(base, op='call', method=method, dir=-1)])
        # the same values handed over in another documented form (tuple / list / ndarray: equal as cache keys)
        for dt in ('complex64', 'complex128'):
            for fm in ({'Q': 'array', 'samples': 'tuple', 'shift': 'tuple'}, {'Q': 'list', 'samples': 'list', 'shift': 'list'},
                       {'Q': 'asis', 'samples': 'array', 'shift': 'array'}):
                a = dict(base, op='call', method=method, dir=-1, dtype=dt)
                b = dict(a, forms=fm)
                hs.append([a, b])
                hs.append([b, a])
        if method == 'mdft':
            for d in (-1, 1):
                hs.append([dict(base, op='call', method='mdft', dir=d), dict(base, op='call', method='mdft_bp', dir=d)])
                hs.append([dict(base, op='call', method='mdft_bp', dir=d), dict(base, op='call', method='mdft', dir=d)])
        # the same call before and after clear() (each dictionary must be rebuilt or still complete), with a query in between,
        # every entry point of the engine
        for m2 in ((method, 'mdft_bp') if method == 'mdft' else (method,)):
            for d in (-1, 1):
                a = dict(base, op='call', method=m2, dir=d)
                hs.append([a, {'op': 'clear', 'which': method}, a])
                hs.append([a, {'op': 'nbytes', 'which': method}, a, {'op': 'clear', 'which': method}, {'op': 'nbytes', 'which': method}, a])
                hs.append([a, {'op': 'clear', 'which': 'czt' if method == 'mdft' else 'mdft'}, a])
        for kind in ('object', 'str'):
            a = dict(base, op='call', method=method, dir=-1)
            hs.append([dict(base, op='bad', method=method, dir=-1, kind=kind), a])
            hs.append([a, dict(base, op='bad', method=method, dir=-1, kind=kind), a])
        # the same grid requested through prysm.propagation and directly (n Q equal on both axes: one output spacing), both orders
        sq = {'shape': [4, 4], 'Q': [1.5, 1.5], 'samples': [5, 4], 'shift': [0.5, -1.25], 'dtype': 'complex128', 'seed': 7}
        for fn_, d in (('focus_fixed_sampling', -1), ('unfocus_fixed_sampling', 1)):
            for dt in ('complex128', 'complex64'):
                cdisp = {'fn': fn_, 'shape': [4, 4], 'samples': [5, 4], 'dx': 0.5, 'efl': 100.0, 'wvl': 0.75, 'dtype': dt, 'seed': 11}
                cdisp['out_dx'] = cdisp['wvl'] * cdisp['efl'] / (4 * cdisp['dx'] * 1.5)
                cdisp['shift'] = [0.5 * cdisp['out_dx'], -1.25 * cdisp['out_dx']]
                a = dict(sq, op='call', method=method, dir=d, dtype=dt)
                b = {'op': 'disp', 'method': method, 'case': cdisp}
                hs.append([a, b])
                hs.append([b, a])
                hs.append([b, {'op': 'clear', 'which': method}, b, a])
        variants = []
        for ax in (0, 1):
            for key, val in (('shape', 6), ('samples', 7), ('shift', 1.5), ('Q', 2.37)):
                v = {k: (list(x) if isinstance(x, list) else x) for k, x in base.items()}
                v[key][ax] = val
                variants.append(v)
        for v in variants:
            hs.append([dict(base, op='call', method=method, dir=-1), dict(v, op='call', method=method, dir=-1)])
            hs.append([dict(v, op='call', method=method, dir=-1), dict(base, op='call', method=method, dir=-1)])
    return hs


def _histories(ctx, ft, pr, config):
    nh = ctx.scale(60, 1500)
    hs = systematic_histories()
    nh = max(nh, len(hs) + ctx.scale(15, 1000))
    while len(hs) < nh:
        hs.append(gen_history(ctx.rng, int(ctx.rng.integers(3, 41))))
    lines, keep = [], []
    for ops in hs:
        fail, sizes = run_history(ops, ft, config)
        kinds = '+'.join(sorted({o['op'] if o['op'] != 'call' else o['method'] for o in ops}))
        for o in ops:
            ctx.hist['history_op:' + (o['op'] if o['op'] != 'call' else o['method'])] += 1
        ctx.case('history', {'ops': ops}, nontrivial=len(ops) > 1, tag=f'len{min(len(ops) // 10 * 10, 40)}/{kinds}')
        if fail:
            ctx.pred_fail('history', {'ops': ops}, fail)
        # cache state machine: model (keys as the MODEL defines them) vs implementation (entry counts)
        for which, nf in (('mdft', 7), ('czt', 6)):
            toks, prec = [], 64
            for op in ops:
                if op['op'] == 'precision':
                    prec = op['value']
                    toks.append(None)
                elif op['op'] == 'clear':
                    toks.append('C' if op['which'] == which else None)
                elif op['op'] == 'nbytes':
                    toks.append(None)
                elif op['op'] == 'bad':
                    # the matrix DFT sets up (and caches) its bases before the product fails; the chirp-Z refuses the array first
                    if which == 'mdft' and op['method'] == 'mdft':
                        shp, Q, MN, shift = case_args(op)
                        key = _norm_key(which, op['dir'], shp, Q, MN, shift, prec, '')
                        toks.append('K ' + ' '.join(k.replace(' ', '') for k in key))
                    else:
                        toks.append(None)
                elif op['op'] == 'disp':
                    if op['method'] != which:
                        toks.append(None)
                        continue
                    c = op['case']
                    Qe, she, dr = dispatch_expect(c)
                    dt = str(make_input((1, 1), c['dtype'], 0).dtype)
                    if which == 'czt' and not c['dtype'].startswith(('complex', 'float')):
                        dt = f'float{prec}'
                    key = _norm_key(which, dr if which == 'mdft' else -1, c['shape'], Qe, c['samples'], she, prec, dt)
                    toks.append('K ' + ' '.join(k.replace(' ', '') for k in key))
                elif op['method'] == which or (which == 'mdft' and op['method'] == 'mdft_bp'):
                    shp, Q, MN, shift = case_args(op)
                    dt = str(make_input((1, 1), op['dtype'], 0).dtype)
                    key = _norm_key(which, op['dir'] if which == 'mdft' else -1, shp, Q, MN, shift, prec, dt)
                    toks.append('K ' + ' '.join(k.replace(' ', '') for k in key))
                else:
                    toks.append(None)
            lines.append(f'cache {nf} ' + ' '.join(t for t in toks if t))
            keep.append((ops, which, toks, sizes, 1))
            # the dictionaries as the source handles them (hand model's reference protocol; the generated protocol is tied to
            # soundness by gen_*_cache_protocol): per-dictionary entry counts and "no KeyError"
            pr_ = PROTO_REF[which]
            lines.append(f'cache2 {nf} ' + ' '.join(','.join(pr_[k]) for k in ('stores', 'probe', 'miss', 'use', 'clear')) + ' '
                         + ' '.join(t for t in toks if t))
            keep.append((ops, which, toks, sizes, 2))
    rep = driver_parallel(lines, nproc=4)
    for (ops, which, toks, sizes, machine), row in zip(keep, rep):
        out = row.split()
        it = iter(out)
        if machine == 2:
            # several-dictionary machine: the model never predicts a KeyError for the reference protocol (theorem); the counts of
            # every dictionary are compared (a difference is recorded, not alarmed: granularity is an implementation choice)
            cur2 = tuple(0 for _ in PROTO_REF[which]['stores'])
            agree = True
            for idx, t in enumerate(toks):
                if t is not None:
                    tag, lens = next(it).split(':')
                    cur2 = tuple(int(v) for v in lens.split(','))
                    ctx.hist[f'cache2_model:{which}:{tag}'] += 1
                    if tag == 'err':
                        ctx.disagree('history', {'ops': ops}, 'no KeyError (result equals a fresh executor)',
                                     f'the dictionary machine with the reference protocol predicts a KeyError at op {idx}')
                have2 = (sizes[idx][0], sizes[idx][2]) if which == 'mdft' else (sizes[idx][1],)
                if have2 != cur2:
                    agree = False
                    msg = (f'dictionary model: executor {which} holds {have2} entries in {PROTO_REF[which]["stores"]} where the model has {cur2}')
                    if msg not in ctx.notes and len(ctx.notes) < 20:
                        ctx.notes.append(msg)
                    break
            ctx.hist['cache2_model:entry_counts_' + ('agree' if agree else 'differ')] += 1
            continue
        cur = 0
        for idx, t in enumerate(toks):
            if t is not None:
                cur = int(next(it).split(':')[1])
            have = sizes[idx][0 if which == 'mdft' else 1]
            if have != cur:
                # the granularity of the cache is an implementation choice (per-axis caching, bounded caches ...): the property
                # speaks about RESULTS, which the comparison with a fresh executor above covers; record, do not alarm
                msg = (f'cache model: executor {which} holds {have} entries where the model (one entry per distinct key incl. '
                       f'precision/dtype) has {cur}')
                if msg not in ctx.notes and len(ctx.notes) < 20:
                    ctx.notes.append(msg)
                ctx.hist['cache_model:entry_count_differs'] += 1
                break
        else:
            ctx.hist['cache_model:entry_count_agrees'] += 1


# ------------------------------------------------------------------------------------------------
# known findings (none for C01)
# ------------------------------------------------------------------------------------------------
KNOWN = {}


def _is_known(ctx, case):
    return False


# ------------------------------------------------------------------------------------------------
# search / replay: the property's predicates on the REAL code, NumPy oracle
# ------------------------------------------------------------------------------------------------
def check_transform(c, verbose=False):
    """True iff the real code satisfies the property on this case"""
    ft, pr, config = _impl()
    (m, n), Q, (M, N), shift = case_args(c)
    f = make_input((m, n), c['dtype'], c['seed'], c.get('layout'))
    config.precision = c.get('precision', 64)
    try:
        try:
            out = call_impl(c['method'], c['dir'], f, Q, (M, N), shift, fresh=True, forms=c.get('forms'))
        except Exception as ex:
            if verbose:
                print(f'  {c["method"]} raised {type(ex).__name__}: {ex}')
            return False, f'{c["method"]} raised {type(ex).__name__}: {str(ex)[:160]}'
    finally:
        config.precision = 64
    if not np.array_equal(f, make_input((m, n), c['dtype'], c['seed'])):
        return False, f'{c["method"]} modified its input array in place'
    sp = spec2_numpy(f, Q, (M, N), shift, c['dir'])
    tol = tol_for(c)
    if shift[0] == 0 and shift[1] == 0:
        ok, err = close(out, sp, tol)
        what = 'route != textbook sum (zero shift)'
    else:
        ok, err = close(np.abs(out), np.abs(sp), tol)
        what = '|route| != |textbook sum| (shifted)'
    if verbose:
        print(f'  {c["method"]} {"fwd" if c["dir"] < 0 else "inv"} {m}x{n} -> {M}x{N}, Q={Q}, shift={shift}, {c["dtype"]}: '
              f'max error against the textbook sum {err:.3g} (tolerance {tol:g})')
    return ok, f'{what}: max err {err:.3g}'


def check_fft(c, verbose=False):
    ft, pr, config = _impl()
    m, n = c['shape']
    f = make_input((m, n), c['dtype'], c['seed'], c.get('layout'))
    try:
        out = (pr.focus if c['dir'] < 0 else pr.unfocus)(f, c['Q'])
    except Exception as ex:
        return False, f'raised {type(ex).__name__}: {str(ex)[:160]}'
    M, N = out.shape
    if (M, N) != (int(np.ceil(m * c['Q'])), int(np.ceil(n * c['Q']))):
        return False, f'padded shape {M, N}'
    sp = spec2_numpy(f, (M / m, N / n), (M, N), (0, 0), c['dir'])
    ok, err = close(out, sp, tol_for(dict(c, samples=[M, N])))
    if verbose:
        print(f'  {"focus" if c["dir"] < 0 else "unfocus"} {m}x{n} Q={c["Q"]} -> {M}x{N}: max error against the textbook sum {err:.3g}')
    return ok, f'padded FFT != textbook sum on its own grid: max err {err:.3g}'


def search(ctx, hints):
    ft, pr, config = _impl()
    # 0. corpus
    cdir = os.path.join(C.VERIF, 'corpus', 'C01')
    if os.path.isdir(cdir):
        import json
        for fn in sorted(os.listdir(cdir)):
            inp = json.load(open(os.path.join(cdir, fn)))
            if _violates(inp):
                return inp
    # 1. histories: the systematic short ones (pairs of calls around one argument set)
    for ops in systematic_histories():
        fail, _ = run_history(ops, ft, config)
        if fail:
            return {'item': 'history', 'input': {'ops': ops}, 'detail': fail}
    # 2. small-scope enumeration of transforms, smallest shapes first
    budget = ctx.scale(6, 7)
    for total in range(2, 2 * budget + 1):
        for m in range(1, budget + 1):
            n = total - m
            if not (1 <= n <= budget):
                continue
            for (M, N) in itertools.product(range(1, budget + 2), repeat=2):
                for Q in (1, 1.5, 2):
                    for shift in ((0, 0), (1, 0), (0.5, -1.5)):
                        for method in ('czt', 'mdft'):
                            for d in (-1, 1):
                                for dtype in ('complex128', 'float64') + (('bool', 'int64') if (M + N) % 3 == 0 else ()):
                                    c = {'shape': [m, n], 'Q': Q, 'samples': [M, N], 'shift': list(shift), 'dir': d,
                                         'dtype': dtype, 'precision': 64, 'seed': 11, 'method': method}
                                    ok, detail = check_transform(c)
                                    if not ok:
                                        return {'item': 'transform', 'input': _shrink(c), 'detail': detail}
    for (m, n) in itertools.product(range(1, 8), repeat=2):
        for Q in (1, 2, 1.5, 3):
            for d in (-1, 1):
                c = {'shape': [m, n], 'Q': Q, 'dtype': 'complex128', 'seed': 5, 'dir': d}
                ok, detail = check_fft(c)
                if not ok:
                    return {'item': 'fft_route', 'input': c, 'detail': detail}
    # 3. seeded random
    for _ in range(ctx.scale(300, 3000)):
        c = transform_case(ctx.rng, (int(ctx.rng.integers(1, 13)), int(ctx.rng.integers(1, 13))))
        for method in ('czt', 'mdft'):
            cc = dict(c, method=method)
            ok, detail = check_transform(cc)
            if not ok:
                return {'item': 'transform', 'input': _shrink(cc), 'detail': detail}
    for _ in range(ctx.scale(40, 400)):
        ops = gen_history(ctx.rng, int(ctx.rng.integers(2, 30)))
        fail, _ = run_history(ops, ft, config)
        if fail:
            return {'item': 'history', 'input': {'ops': _shrink_history(ops, ft, config)}, 'detail': fail}
    return None


def _shrink(c):
    """shrink a failing transform case: simpler Q / shift / dtype, then smaller sizes, keeping the failure"""
    best = dict(c)

    def fails(x):
        try:
            return not check_transform(x)[0]
        except Exception:
            return False
    for key, simple in (('forms', None), ('layout', None), ('dtype', 'complex128'), ('precision', 64), ('shift', [0, 0]), ('Q', 1), ('dir', -1)):
        t = dict(best, **{key: simple})
        if t != best and fails(t):
            best = t
    changed = True
    while changed:
        changed = False
        for key in ('shape', 'samples'):
            for ax in (0, 1):
                if best[key][ax] > 1:
                    t = dict(best)
                    t[key] = list(best[key])
                    t[key][ax] -= 1
                    if fails(t):
                        best, changed = t, True
    return best


def _shrink_history(ops, ft, config):
    ops = list(ops)
    i = 0
    while i < len(ops):
        t = ops[:i] + ops[i + 1:]
        if t and run_history(t, ft, config)[0]:
            ops = t
        else:
            i += 1
    return ops


def _violates(inp):
    ft, pr, config = _impl()
    item, c = inp['item'], inp['input']
    if item in ('transform', 'dispatch_transform'):
        return not check_transform(c)[0]
    if item == 'fft_route':
        return not check_fft(c)[0]
    if item == 'history':
        return run_history(c['ops'], ft, config)[0] is not None
    if item == 'dispatch':
        return not check_dispatch(c)[0]
    return False


def replay(inp):
    ft, pr, config = _impl()
    item, c = inp['item'], inp['input']
    print('replaying', item, {k: v for k, v in c.items() if k != 'ops'})
    if item == 'transform':
        if 'method' not in c:
            bad = False
            for method in ('mdft', 'czt'):
                ok, detail = check_transform(dict(c, method=method), verbose=True)
                bad = bad or not ok
            return bad
        ok, detail = check_transform(c, verbose=True)
        if not ok:
            print(' ', detail)
        return not ok
    if item == 'fft_route':
        ok, detail = check_fft(c, verbose=True)
        if not ok:
            print(' ', detail)
        return not ok
    if item == 'history':
        for o in c['ops']:
            print('   ', {k: v for k, v in o.items() if k != 'seed'})
        fail, sizes = run_history(c['ops'], ft, config)
        print('  cache sizes (mdft.Ein, czt.components, mdft.Eout) after each op:', sizes)
        print('  ', fail or 'every call returned what a fresh executor returns')
        return fail is not None
    if item == 'dispatch':
        ok, detail = check_dispatch(c, verbose=True)
        if not ok:
            print(' ', detail)
        return not ok
    print('no replay routine for item', item)
    return False


MANIFEST_ENTRY = {
    'technique': 'Lean 4 proofs over an abstract Fourier character (Bluestein identity, wrap-around lemma, FFT convolution '
                 'theorem from derived root-of-unity orthogonality, index reindexing mod N, cache invariant by induction over '
                 'op lists) about model routes whose signs / statement order / flags / wiring / constants are translator-generated '
                 'parameters + differential correspondence of the executable model with prysm',
    'text': ('PROVED for all inputs (every shape m x n, output size M x N, per-axis Q, real shift, input array, FFT lengths that '
             'next_fast_len may return for the generated length arguments; kernel e any map with e(a+b)=e(a)e(b), e(0)=1, e(k)=1 for '
             'integer k, e(t)=1 only at integers; instantiated with exp(-2 pi i t)): (1) dft2 / idft2 with the kernel sign, fwd flags, '
             'wiring, exponent scalars and norms of the current source equal an explicit unit phase (output-sample dependent only, =1 at '
             'zero shift) times the forward / inverse textbook sum; equal squared modulus for every shift; (2) czt2 as an interpreter '
             'over the GENERATED list of its statements (pre-chirp, zero-padded fft2 as iterated 1-D DFT sums, kernel product, ifft2, '
             'crop, post-chirp) with the generated chirp / shift signs, index glue, wiring and chirp constants equals dft2 sample for '
             'sample; iczt2 = conj.czt2.conj equals idft2; (3) focus / unfocus with the generated shift order, norm, transform and pad '
             'offset equal the forward / inverse textbook sum on the grid Q_eff = N\'/n for every padded size >= the input; the padded '
             'length is ceil(nQ), >= n for Q >= 1 and = nQ when that is an integer (only then do the three routes share a grid; '
             'corollary routes_agree); (4) with the Q and shift conversions translated from focus_fixed_sampling / '
             'unfocus_fixed_sampling the kernel exponent of both engines is the physical x xi/(lambda f), per axis; (5) for every '
             'sequence of earlier calls and clear()s an executor call uses exactly the bases a fresh executor builds, given that '
             'everything read while building (key components, config.*, hidden self.*) is a key field; (6) the same for the dictionaries AS '
             'THE SOURCE HANDLES THEM (several dictionaries - Ein and Eout -, only some probed in _setup_bases, written on the KeyError '
             'path, indexed by dft2 / idft2 / dft2_backprop / idft2_backprop / czt2 after _setup_bases(key), re-initialised by clear(); '
             'this protocol is TRANSLATED per executor and its soundness is an obligation): after every history of calls of any entry '
             'point and clear()s a call raises no KeyError and every entry it indexes is the freshly built one (invariant by induction '
             'over histories); examples show each soundness clause is necessary. (7) the normalisation of argument forms in _key and in the head of czt2 is TRANSLATED (per parameter: scalar broadcast, '
             'element conversion float / int / as given; both engines alike) and two forms give the same key component exactly when they '
             'denote the same sampling after the conversion (no TypeError for any form). Python equality of unconverted key elements '
             '(1 == 1.0 in a shift) is outside the machine (history stream only). Every translated obligation is consumed by a property '
             'theorem. MODELLED AND COMPARED each run: NumPy execution of all routes (incl. dtype promotion, argument forms, dispatch '
             'layer, Wavefront wrappers, backprop entry points, histories) against the Lean model evaluated in Float and the Lean '
             'double-sum oracle; sizes beyond 26 only against a NumPy double sum.'),
    'note': ('Partial in these respects: scipy.fft is a parameter with the contract "computes the DFT sum" (not verified); '
             'floating-point rounding is not covered (float64 compared at 1e-9, float32 at max(5e-5, 5e-7 n)); the cache theorem is over '
             'an abstract single-dictionary machine whose key/read sets are extracted from the AST (dict semantics of Python trusted); '
             'the driver runs the parameterised routes at the hand reference values, the generated values are tied to them by the '
             'gen_* theorems; an unrecognised source shape degrades the item to the hand value (TIE-DEGRADED line, widened sweep); '
             'cupy/torch backends not covered; focus(f, Q<1) raises (pad2d cannot shrink) - outside the FFT route as stated.'),
}
