"""C17 — thin-film and Fresnel coefficients conserve energy and agree with each other.

correspondence: the Lean model (`Drivers/C17.lean`, complex doubles) and `prysm.thinfilm` on the same inputs
(Fresnel coefficients at an interface; r, t of stacks of 1..8 layers, both polarisations, oblique incidence,
lossless and absorbing layers), compared at 1e-9; the property's own predicates (energy conservation, one-layer
stack = Fresnel, Brewster zero, zero-thickness identity, half-wave absentee, batched = loop, R+T <= 1 with
absorption, independence of call history / caller's arrays untouched) are evaluated on the REAL outputs of every case as well.
"""
import math
import numpy as np
from harness import common as C

TOL = 1e-9          # float64, well-conditioned inputs (angles <= 89 deg and >= 3 % below TIR, <= 8 layers)
TOL_BATCH = 1e-12   # batched vs loop: same arithmetic, different plumbing

RULE = ('interfaces: n0, n1 uniform in [1,4], angle uniform in [0, min(89 deg, 0.97*critical)], plus normal incidence and '
        'Brewster; stacks: 1..8 layers, indices uniform in [1,4], ambient 1 or uniform [1,2], thickness from '
        '{0, uniform(0,1.5) um, quarter-wave, half-wave}, wavelength uniform [0.4,2] um, angle with n0 sin(aoi) <= '
        '0.97 min(n_j) and <= 89 deg, both polarisations; batches of leading shape (5,), (3,4), (1,), (2,1); absorbing: '
        'interior layers n + i k, k uniform (0, 4]; a case is non-trivial unless n0 == n1 or the stack is a single '
        'zero-thickness layer; distinct = distinct (item, input) tuples')
ASSUMPTIONS = ['np.matmul / np.dot / tensordot / moveaxis / reshape index semantics (trusted; exercised by batched-vs-loop)',
               'np.cos(np.lib.scimath.arcsin(z)) = principal sqrt(1 - z^2); np.sin/np.cos/np.radians of float64 (model uses '
               'Float.sin/cos/sqrt); comparison tolerance 1e-9 relative']


def _tf():
    from prysm import thinfilm
    return thinfilm


def _rel(a, b):
    return abs(a - b) / max(1.0, abs(b))


def _cos_in(n0, aoi_rad, n):
    """cos of the refraction angle in a medium of (possibly complex) index n"""
    s = n0 * math.sin(aoi_rad) / n
    return np.lib.scimath.sqrt(1 - s * s)


def _tfac(n0, aoi_rad, ne):
    """admittance factor of the exit medium: Re(ne cos theta_e) / (n0 cos theta_0)"""
    return float(np.real(ne * _cos_in(n0, aoi_rad, ne))) / (n0 * math.cos(aoi_rad))


def _aslayers(stack):
    """json-able [[n_re, n_im, d], ...] -> list of (n, d) for prysm"""
    out = []
    for nr, ni, d in stack:
        out.append((complex(nr, ni) if ni != 0 else float(nr), float(d)))
    return out


def _call_stack(stack, wvl, pol, aoi, amb):
    tf = _tf()
    r, t = tf.multilayer_stack_rt(_aslayers(stack), wvl, pol, aoi=aoi, ambient_index=amb)
    return complex(r), complex(t)


# ------------------------------------------------------------------------------------------------
# property predicates on the real code: (ok, detail)
# ------------------------------------------------------------------------------------------------
def pred(item, c):
    tf = _tf()
    if item in ('fresnel_energy', 'fresnel_continuity'):
        n0, n1, th0 = c['n0'], c['n1'], math.radians(c['theta0_deg'])
        th1 = tf.snell_aor(n0, n1, th0, degrees=False)
        fac = n1 * math.cos(th1) / (n0 * math.cos(th0))
        if c['pol'] == 's':
            r, t = tf.fresnel_rs(n0, n1, th0, th1), tf.fresnel_ts(n0, n1, th0, th1)
            cont = abs(1 + r - t)
        else:
            r, t = tf.fresnel_rp(n0, n1, th0, th1), tf.fresnel_tp(n0, n1, th0, th1)
            cont = abs((1 + r) * math.cos(th0) - t * math.cos(th1))
        if item == 'fresnel_energy':
            e = r * r + fac * t * t
            return abs(e - 1) <= TOL, f'r_{c["pol"]}^2 + (n1 cos th1 / n0 cos th0) t_{c["pol"]}^2 = {e!r}'
        return cont <= TOL, f'tangential-field continuity residual {cont!r}'
    if item == 'brewster':
        n0, n1 = c['n0'], c['n1']
        thb = tf.brewsters_angle(n0, n1, deg=False)
        th1 = tf.snell_aor(n0, n1, thb, degrees=False)
        rp = tf.fresnel_rp(n0, n1, thb, th1)
        r, _ = tf.multilayer_stack_rt([(n1, 0.1)], 0.5, 'p', aoi=tf.brewsters_angle(n0, n1, deg=True), ambient_index=n0)
        ok = abs(rp) <= 1e-12 and abs(r) <= TOL and abs(math.tan(thb) - n1 / n0) <= TOL * n1 / n0
        return ok, f'at Brewster angle {math.degrees(thb)!r} deg: fresnel_rp = {rp!r}, stack |r_p| = {abs(r)!r}'
    if item == 'single_interface':
        n0, n1, th0 = c['n0'], c['n1'], math.radians(c['theta0_deg'])
        th1 = tf.snell_aor(n0, n1, th0, degrees=False)
        r, t = tf.multilayer_stack_rt([(n1, c['d'])], c['wavelength'], c['pol'], aoi=c['theta0_deg'], ambient_index=n0)
        if c['pol'] == 's':
            fr, ft = tf.fresnel_rs(n0, n1, th0, th1), tf.fresnel_ts(n0, n1, th0, th1)
        else:
            fr, ft = tf.fresnel_rp(n0, n1, th0, th1), tf.fresnel_tp(n0, n1, th0, th1)
        ok = _rel(r, fr) <= TOL and _rel(abs(t), abs(ft)) <= TOL and (c['d'] != 0 or _rel(t, ft) <= TOL)
        return ok, f'one-layer stack r,t = {complex(r)!r}, {complex(t)!r}; fresnel r,t = {fr!r}, {ft!r}'
    if item in ('stack_energy', 'absorbing'):
        r, t = _call_stack(c['stack'], c['wavelength'], c['pol'], c['aoi'], c['ambient'])
        ne = complex(c['stack'][-1][0], c['stack'][-1][1])
        e = abs(r) ** 2 + _tfac(c['ambient'], math.radians(c['aoi']), ne) * abs(t) ** 2
        if item == 'stack_energy':
            return abs(e - 1) <= TOL, f'R + (n_e cos th_e / n_0 cos th_0) T = {e!r}'
        return e <= 1 + TOL, f'R + T = {e!r} with absorbing layers'
    if item in ('zero_thickness', 'half_wave'):
        base = c['stack']
        r0, t0 = _call_stack(base, c['wavelength'], c['pol'], c['aoi'], c['ambient'])
        nin = c['n_ins']
        if item == 'zero_thickness':
            d = 0.0
        else:
            ct = float(np.real(_cos_in(c['ambient'], math.radians(c['aoi']), nin)))
            d = c['wavelength'] / (2 * nin * ct)
        new = base[:c['pos']] + [[nin, 0.0, d]] + base[c['pos']:]
        r1, t1 = _call_stack(new, c['wavelength'], c['pol'], c['aoi'], c['ambient'])
        if item == 'zero_thickness':
            ok = _rel(r1, r0) <= TOL and _rel(t1, t0) <= TOL
        else:
            ok = _rel(r1, r0) <= TOL and _rel(t1, -t0) <= TOL
        return ok, f'without the layer r,t = {r0!r}, {t0!r}; with it r,t = {r1!r}, {t1!r}'
    if item == 'batch':
        n = np.array(c['n'])
        if 'k' in c:
            n = n + 1j * np.array(c['k'])        # absorbing interior layers
        d = np.array(c['d'])
        k, bs = n.shape[0], n.shape[1:]
        st = np.stack([n, d], axis=1)
        r, t = tf.multilayer_stack_rt(st, c['wavelength'], c['pol'], aoi=c['aoi'], ambient_index=c['ambient'])
        if r.shape != bs or t.shape != bs:
            return False, f'batched result has shape {r.shape}, expected {bs}'
        worst = 0.0
        for idx in np.ndindex(*bs):
            sl = [(n[(j,) + idx].item(), float(d[(j,) + idx])) for j in range(k)]
            rl, tl = tf.multilayer_stack_rt(sl, c['wavelength'], c['pol'], aoi=c['aoi'], ambient_index=c['ambient'])
            worst = max(worst, _rel(complex(r[idx]), complex(rl)), _rel(complex(t[idx]), complex(tl)))
        return worst <= TOL_BATCH, f'batched vs per-element loop: worst relative difference {worst!r}'
    if item == 'batch_energy':
        n, d = np.array(c['n']), np.array(c['d'])
        st = np.stack([n, d], axis=1)
        r, t = tf.multilayer_stack_rt(st, c['wavelength'], c['pol'], aoi=c['aoi'], ambient_index=c['ambient'])
        worst, at = 0.0, None
        for idx in np.ndindex(*n.shape[1:]):
            e = abs(r[idx]) ** 2 + _tfac(c['ambient'], math.radians(c['aoi']), complex(n[(-1,) + idx])) * abs(t[idx]) ** 2
            if abs(e - 1) > worst:
                worst, at = abs(e - 1), idx
        return worst <= TOL, f'batched lossless stack: worst |R + (n_e cos th_e / n_0 cos th_0) T - 1| = {worst!r} at element {at}'
    if item == 'defaults':
        lay = _aslayers(c['stack'])
        r0, t0 = tf.multilayer_stack_rt(lay, c['wavelength'], c['pol'])
        r1, t1 = tf.multilayer_stack_rt(lay, c['wavelength'], c['pol'], aoi=0, ambient_index=1)
        r2, t2 = tf.multilayer_stack_rt(lay, c['wavelength'], c['pol'], 0, 1)
        e = max(_rel(complex(r0), complex(r1)), _rel(complex(t0), complex(t1)), _rel(complex(r2), complex(r1)), _rel(complex(t2), complex(t1)))
        return e <= TOL_BATCH, f'defaults omitted vs aoi=0, ambient_index=1 (keyword and positional): {e!r}'
    if item == 'units':
        n0, n1, th = c['n0'], c['n1'], c['theta0_deg']
        a = tf.snell_aor(n0, n1, th)                                   # default: degrees in
        b = tf.snell_aor(n0, n1, math.radians(th), degrees=False)
        a2 = tf.snell_aor(n0, n1, th, degrees=True)
        e1 = max(abs(a - b), abs(a2 - b), abs(n1 * np.sin(a) - n0 * math.sin(math.radians(th))) / n0)
        bd, br = tf.brewsters_angle(n0, n1), tf.brewsters_angle(n0, n1, deg=False)
        e2 = max(abs(bd - math.degrees(br)) / 90, abs(math.tan(br) - n1 / n0) / (n1 / n0), abs(tf.brewsters_angle(n0, n1, True) - bd))
        lo, hi = min(n0, n1), max(n0, n1)
        e3 = 0.0
        if lo < hi:   # library convention: critical_angle(n_rare, n_dense)
            cd, cr = tf.critical_angle(lo, hi), tf.critical_angle(lo, hi, deg=False)
            e3 = max(abs(cd - math.degrees(cr)) / 90, abs(math.sin(cr) - lo / hi), abs(tf.critical_angle(lo, hi, True) - cd))
        return max(e1, e2, e3) <= TOL, (f'degrees flags: snell {e1!r}, brewster {e2!r}, critical {e3!r} '
                                        f'(snell_aor default = {a!r} rad for {th} deg)')
    if item == 'polcase':
        lay = _aslayers(c['stack'])
        worst = 0.0
        for lo_, up in (('s', 'S'), ('p', 'P')):
            a = tf.multilayer_stack_rt(lay, c['wavelength'], lo_, aoi=c['aoi'], ambient_index=c['ambient'])
            b = tf.multilayer_stack_rt(lay, c['wavelength'], up, aoi=c['aoi'], ambient_index=c['ambient'])
            worst = max(worst, _rel(complex(a[0]), complex(b[0])), _rel(complex(a[1]), complex(b[1])))
        try:
            tf.multilayer_stack_rt(lay, c['wavelength'], 'x', aoi=c['aoi'], ambient_index=c['ambient'])
            return False, "polarization 'x' was accepted"
        except ValueError:
            pass
        return worst <= TOL_BATCH, f"upper-case 'S'/'P' vs 's'/'p': {worst!r}"
    if item == 'precision32':
        from prysm.conf import config
        lay = _aslayers(c['stack'])
        ref = tf.multilayer_stack_rt(lay, c['wavelength'], c['pol'], aoi=c['aoi'], ambient_index=c['ambient'])
        old = 32 if config.precision is np.float32 else 64
        try:
            config.precision = 32
            got = tf.multilayer_stack_rt(lay, c['wavelength'], c['pol'], aoi=c['aoi'], ambient_index=c['ambient'])
        finally:
            config.precision = old
        e = max(_rel(complex(got[0]), complex(ref[0])), _rel(complex(got[1]), complex(ref[1])))
        return e <= 2e-4, f'config.precision = 32 vs 64: {e!r} (float32 tolerance 2e-4)'
    if item == 'fresnel_vector':
        n0, n1 = c['n0'], c['n1']
        th0 = np.radians(np.array(c['thetas_deg'], dtype=float))
        th1 = tf.snell_aor(n0, n1, th0, degrees=False)
        worst = 0.0
        for nm in ('fresnel_rs', 'fresnel_ts', 'fresnel_rp', 'fresnel_tp'):
            v = getattr(tf, nm)(n0, n1, th0, th1)
            if np.shape(v) != th0.shape:
                return False, f'{nm} on an angle array returned shape {np.shape(v)}'
            for i in range(len(th0)):
                worst = max(worst, _rel(v[i], getattr(tf, nm)(n0, n1, float(th0[i]), float(th1[i]))))
        # complex (absorbing) second medium: the algebraic identity r^2 + (n1 c1 / n0 c0) t^2 = 1 with complex squares
        nc = complex(n1, c['kappa'])
        for t0 in th0:
            t1 = tf.snell_aor(n0, nc, float(t0), degrees=False)
            fac = nc * np.cos(t1) / (n0 * math.cos(t0))
            es = tf.fresnel_rs(n0, nc, t0, t1) ** 2 + fac * tf.fresnel_ts(n0, nc, t0, t1) ** 2
            ep = tf.fresnel_rp(n0, nc, t0, t1) ** 2 + fac * tf.fresnel_tp(n0, nc, t0, t1) ** 2
            worst = max(worst, abs(es - 1), abs(ep - 1))
        return worst <= TOL, f'fresnel_* on angle arrays vs scalars, and the energy identity with a complex index: {worst!r}'
    if item == 'forms':
        # the SAME stack handed over in another container / dtype / memory layout / scalar type must give the same r, t
        base = [(float(n), float(d)) for n, d in c['stack']]
        k = len(base)
        w, aoi, amb = c['wavelength'], c['aoi'], c['ambient']
        ref = tf.multilayer_stack_rt(base, w, c['pol'], aoi=aoi, ambient_index=amb)
        form, tol = c['form'], TOL_BATCH
        a64 = np.array(base, dtype=float)
        if form == 'int_list':
            st = [(int(n), int(d)) for n, d in base]
        elif form == 'mixed_list':
            st = [((int(n) if j % 2 == 0 else float(n)), (float(d) if j % 2 == 0 else int(d))) for j, (n, d) in enumerate(base)]
        elif form == 'tuple_of_tuples':
            st = tuple(tuple(x) for x in base)
        elif form == 'list_of_lists':
            st = [list(x) for x in base]
        elif form == 'list_of_arrays':
            st = [np.array(x) for x in base]
        elif form.startswith('dtype:'):
            dt = np.dtype(form[6:])
            st = a64.astype(dt)
            if dt in (np.dtype('float32'), np.dtype('complex64'), np.dtype('float16')):
                tol = 2e-5 if dt != np.dtype('float16') else 5e-2      # the Snell angles are then computed in that precision
                ref = tf.multilayer_stack_rt([(complex(x).real, complex(y).real) for x, y in st.astype(complex)], w, c['pol'], aoi=aoi, ambient_index=amb)
        elif form == 'fortran':
            st = np.asfortranarray(a64)
        elif form == 'transposed':
            st = np.ascontiguousarray(a64.T).T
        elif form == 'strided':
            big = np.zeros((2 * k, 4)); big[::2, ::2] = a64
            st = big[::2, ::2]
        elif form == 'negstride':
            st = np.ascontiguousarray(a64[::-1, ::-1])[::-1, ::-1]
        elif form == 'readonly':
            st = a64.copy(); st.setflags(write=False)
        elif form.startswith('scalars:'):
            ty = {'float32': np.float32, 'float64': np.float64, 'int64': np.int64, 'int32': np.int32, 'int': int}[form[8:]]
            st = base
            ok_int = float(aoi).is_integer() and float(amb).is_integer()
            w2 = ty(w) if ty in (np.float32, np.float64) else w
            aoi2, amb2 = (ty(aoi), ty(amb)) if (ok_int or ty in (np.float32, np.float64)) else (aoi, amb)
            if ty is np.float32:
                tol = 2e-5
            got = tf.multilayer_stack_rt(st, w2, c['pol'], aoi=aoi2, ambient_index=amb2)
            e = max(_rel(complex(got[0]), complex(ref[0])), _rel(complex(got[1]), complex(ref[1])))
            return e <= tol, f'scalar arguments as {form[8:]}: differs from python floats by {e!r}'
        elif form.startswith('batch:'):
            # (k, 2, B) arrays in the given dtype / layout; element b repeats the stack with thickness scaled by (1 + b)
            B = 3
            arr = np.stack([np.stack([a64[:, 0], a64[:, 1] * (1 + b)], axis=1) for b in range(B)], axis=2)
            kind = form[6:]
            if kind == 'fortran':
                st = np.asfortranarray(arr)
            elif kind == 'strided':
                big = np.zeros((k, 2, 2 * B)); big[:, :, ::2] = arr
                st = big[:, :, ::2]
            else:
                st = arr.astype(np.dtype(kind))
                if np.dtype(kind) in (np.dtype('float32'), np.dtype('complex64')):
                    tol = 2e-5
            got = tf.multilayer_stack_rt(st, w, c['pol'], aoi=aoi, ambient_index=amb)
            worst = 0.0
            for b in range(B):
                sl = [(float(np.real(st[j, 0, b])), float(np.real(st[j, 1, b]))) for j in range(k)]
                rb = tf.multilayer_stack_rt(sl, w, c['pol'], aoi=aoi, ambient_index=amb)
                worst = max(worst, _rel(complex(got[0][b]), complex(rb[0])), _rel(complex(got[1][b]), complex(rb[1])))
            return worst <= tol, f'batched stack as {kind}: differs from the per-element float stacks by {worst!r}'
        else:
            raise KeyError(form)
        got = tf.multilayer_stack_rt(st, w, c['pol'], aoi=aoi, ambient_index=amb)
        e = max(_rel(complex(got[0]), complex(ref[0])), _rel(complex(got[1]), complex(ref[1])))
        return e <= tol, f'stack given as {form}: r,t = {complex(got[0])!r}, {complex(got[1])!r}; as a list of float tuples {complex(ref[0])!r}, {complex(ref[1])!r} (differ by {e!r})'
    if item == 'history':
        # the SAME caller-owned ndarray is evaluated repeatedly; results must not depend on earlier calls and the
        # caller's data must be left untouched
        n, d = np.array(c['n'], dtype=float), np.array(c['d'], dtype=float)
        arr = np.stack([n, d], axis=1)
        keep = arr.copy()
        k, bs = arr.shape[0], arr.shape[2:]
        calls = [(pol, w) for pol, w in zip(c['pols'], c['wavelengths'])]
        for step, (pol, w) in enumerate(calls):
            ref = tf.multilayer_stack_rt(keep.copy(), w, pol, aoi=c['aoi'], ambient_index=c['ambient'])
            got = tf.multilayer_stack_rt(arr, w, pol, aoi=c['aoi'], ambient_index=c['ambient'])
            e = max(_relarr(got[0], ref[0]), _relarr(got[1], ref[1]))
            if e > TOL_BATCH:
                return False, f'call {step + 1} ({pol}, wavelength {w}) on the same stack array differs from the call on a fresh copy by {e!r}'
            if not np.array_equal(arr, keep):
                return False, f'call {step + 1} ({pol}) modified the caller\'s stack array (max change {float(np.max(np.abs(arr - keep)))!r})'
        if bs:
            pol, w = calls[-1]
            rb, tb = tf.multilayer_stack_rt(arr, w, pol, aoi=c['aoi'], ambient_index=c['ambient'])
            for idx in np.ndindex(*bs):
                view = arr[(slice(None), slice(None)) + idx]          # a (k, 2) view of the same array
                rl, tl = tf.multilayer_stack_rt(view, w, pol, aoi=c['aoi'], ambient_index=c['ambient'])
                e = max(_rel(complex(rb[idx]), complex(rl)), _rel(complex(tb[idx]), complex(tl)))
                if e > TOL_BATCH:
                    return False, f'batched call then per-element loop over the same array: element {idx} differs by {e!r}'
            if not np.array_equal(arr, keep):
                return False, 'the per-element loop over views modified the caller\'s stack array'
        return True, f'{len(calls)} calls on one stack array of shape {arr.shape}: independent of history, array unchanged'
    raise KeyError(item)


def _relarr(a, b):
    a, b = np.asarray(a), np.asarray(b)
    if a.shape != b.shape:
        return float('inf')
    return float(np.max(np.abs(a - b) / np.maximum(1.0, np.abs(b)))) if a.size else 0.0


def _check(ctx, item, case, nontrivial=True, tag=None):
    ctx.case(item, case, nontrivial=nontrivial, tag=tag)
    try:
        ok, detail = pred(item, case)
    except Exception as ex:   # the property holds for every input in scope: an exception is a failure
        ok, detail = False, f'raised {type(ex).__name__}: {ex}'
    if not ok:
        ctx.pred_fail(item, case, detail)
    return ok


# ------------------------------------------------------------------------------------------------
# generators
# ------------------------------------------------------------------------------------------------
def _gen_interface(rng):
    n0 = float(rng.choice([1.0, round(rng.uniform(1, 4), 3), round(rng.uniform(1, 4), 3)]))
    n1 = round(float(rng.uniform(1, 4)), 3)
    lim = 89.9
    if n0 > n1:
        lim = min(lim, 0.999 * math.degrees(math.asin(n1 / n0)))   # up to 0.1 % below the critical angle
    th = float(rng.choice([0.0, round(rng.uniform(0, lim), 2), round(rng.uniform(0, lim), 2), round(rng.uniform(0.97 * lim, lim), 3),
                           math.floor(lim * 1000) / 1000]))
    return n0, n1, th


def _gen_stack(rng, k, absorbing=False):
    amb = float(rng.choice([1.0, round(rng.uniform(1, 2), 3)]))
    ns = [round(float(rng.uniform(1, 4)), 3) for _ in range(k)]
    wvl = round(float(rng.uniform(0.4, 2.0)), 3)
    smax = min(0.995 * min(ns) / amb, math.sin(math.radians(89.5)))
    lim = math.degrees(math.asin(smax))
    aoi = float(rng.choice([0.0, min(0.03, lim), round(rng.uniform(0, lim), 2), round(rng.uniform(0, lim), 2),
                            math.floor(lim * 100) / 100]))
    stack = []
    for j, n in enumerate(ns):
        ct = math.sqrt(1 - (amb * math.sin(math.radians(aoi)) / n) ** 2)
        kind = rng.integers(0, 7)
        if kind == 0:
            d = 0.0
        elif kind == 5 and not absorbing and ct >= 0.6:
            d = round(float(rng.uniform(5, 60)), 3)          # thick film: beta up to ~4e3 rad
        elif kind == 6 and not absorbing and ct >= 0.6:
            # substrate-like: beta up to ~6e4 rad.  Only away from grazing propagation inside the layer (cos >= 0.6): the
            # rounding of beta is beta * eps / cos^2 and is amplified further by the finesse of the cavity the thick layer
            # forms, so thick layers near their critical angle are ill-conditioned at the 1e-9 level for ANY float64
            # evaluation (verified against a long-double reference: prysm 7e-10, model 3e-9 off)
            d = round(float(rng.uniform(100, 1000)), 2)
        elif kind == 1:
            d = wvl / (4 * n * ct)
        elif kind == 2:
            d = wvl / (2 * n * ct)
        else:
            d = round(float(rng.uniform(0, 1.5)), 4)
        ni = 0.0
        if absorbing and j < k - 1 and (rng.random() < 0.6 or j == 0):
            ni = round(float(rng.uniform(0.01, 4.0)), 3)
            d = min(d, 0.3)   # keep exp(|Im beta|) moderate
        stack.append([n, ni, d])
    return {'stack': stack, 'wavelength': wvl, 'aoi': aoi, 'ambient': amb}


def _gen_ftir(rng):
    """dense ambient, a thin rare gap in which the wave is evanescent (n0 sin(aoi) > n_gap), dense propagating exit;
    optionally a propagating film in front of / behind the gap.  The gap is kept thin (<= 0.4 wavelengths) so that the
    transmitted amplitude stays O(1e-3) or larger."""
    amb = round(float(rng.uniform(1.5, 2.6)), 3)
    ngap = round(float(rng.uniform(1.0, 1.35)), 3)
    crit = math.degrees(math.asin(ngap / amb))
    aoi = round(float(rng.uniform(1.03 * crit, min(85.0, 1.6 * crit))), 2)
    sig = amb * math.sin(math.radians(aoi))
    wvl = round(float(rng.uniform(0.4, 2.0)), 3)
    nexit = round(float(rng.uniform(max(1.5, sig / 0.95), max(1.6, sig / 0.95) + 1.5)), 3)
    stack = []
    if rng.random() < 0.5:
        stack.append([round(float(rng.uniform(sig / 0.9, sig / 0.9 + 1.5)), 3), 0.0, round(float(rng.uniform(0, 0.8)), 4)])
    stack.append([ngap, 0.0, round(float(rng.uniform(0.02, 0.4)) * wvl, 4)])
    if rng.random() < 0.5:
        stack.append([round(float(rng.uniform(sig / 0.9, sig / 0.9 + 1.5)), 3), 0.0, round(float(rng.uniform(0, 0.8)), 4)])
    stack.append([nexit, 0.0, round(float(rng.uniform(0, 1.0)), 4)])
    return {'stack': stack, 'wavelength': wvl, 'aoi': aoi, 'ambient': amb}


def _stack_line(c):
    parts = ['stack', c['pol'], C.f2w(c['ambient']), C.f2w(np.radians(c['aoi'])), C.f2w(c['wavelength'])]
    for nr, ni, d in c['stack']:
        parts += [C.f2w(nr), C.f2w(ni), C.f2w(d)]
    return ' '.join(parts)


def correspondence(ctx):
    tf = _tf()
    rng = ctx.rng
    ftir = []
    widen = 3 if ctx.widen else 1
    # ------------------------------------------------ build all cases first, then one driver call
    ifaces = [_gen_interface(rng) for _ in range(ctx.scale(400, 20000) * widen)]
    ifaces += [(1.0, 1.5, 40.0), (1.5, 1.0, 30.0), (1.0, 1.0, 20.0), (2.0, 2.0, 0.0), (1.33, 2.4, 89.0)]
    stacks = []
    for i in range(ctx.scale(800, 60000) * widen):
        k = 1 + i % 8
        c = _gen_stack(rng, k)
        c['pol'] = 'sp'[(i // 8) % 2]
        stacks.append(c)
    absorb = []
    for i in range(ctx.scale(200, 15000) * widen):
        k = 2 + i % 6
        c = _gen_stack(rng, k, absorbing=True)
        c['pol'] = 'sp'[i % 2]
        absorb.append(c)
    lines = [f'fresnel {C.f2w(n0)} {C.f2w(n1)} {C.f2w(np.radians(th))}' for (n0, n1, th) in ifaces]
    lines += [_stack_line(c) for c in stacks + absorb]
    rep = iter(C.lean_driver('C17', lines))

    # ------------------------------------------------ interfaces: model vs the four fresnel functions
    names = ('fresnel_rs', 'fresnel_ts', 'fresnel_rp', 'fresnel_tp')
    for (n0, n1, th) in ifaces:
        model = [C.w2f(x) for x in next(rep).split()]
        th0 = float(np.radians(th))
        case = {'n0': n0, 'n1': n1, 'theta0_deg': th}
        ctx.case('fresnel', case, nontrivial=(n0 != n1), tag=f'{"normal" if th == 0 else "oblique"}/{"dense" if n1 > n0 else "rare"}')
        try:
            th1 = tf.snell_aor(n0, n1, th0, degrees=False)
            impl = [float(getattr(tf, nm)(n0, n1, th0, th1)) for nm in names]
        except Exception as ex:
            ctx.disagree('fresnel', case, f'raised {type(ex).__name__}: {ex}', model)
            continue
        for nm, a, b in zip(names, impl, model):
            if not _rel(a, b) <= TOL:
                ctx.disagree(nm, case, a, b)
        for pol in 'sp':
            _check(ctx, 'fresnel_energy', {**case, 'pol': pol}, nontrivial=(n0 != n1))
            _check(ctx, 'fresnel_continuity', {**case, 'pol': pol}, nontrivial=(n0 != n1))
        _check(ctx, 'units', case, nontrivial=(n0 != n1))
        if n0 != n1:
            d = [0.0, 0.25, 1.0][int(th * 100) % 3]
            for pol in 'sp':
                _check(ctx, 'single_interface', {**case, 'pol': pol, 'd': d, 'wavelength': 0.6}, tag=f'd{"=0" if d == 0 else ">0"}')
            _check(ctx, 'brewster', {'n0': n0, 'n1': n1})
        # Snell / critical angle helpers
        s1 = math.sin(th1)
        if abs(n1 * s1 - n0 * math.sin(th0)) > TOL * n0:
            ctx.pred_fail('snell', case, f'n1 sin th1 = {n1 * s1!r} != n0 sin th0 = {n0 * math.sin(th0)!r}')
        if n0 < n1 and abs(math.sin(tf.critical_angle(n0, n1, deg=False)) - n0 / n1) > TOL:
            ctx.pred_fail('critical_angle', case, 'sin(critical angle) != n0/n1')

    # ------------------------------------------------ lossless stacks: model vs multilayer_stack_rt + predicates
    for i, c in enumerate(stacks):
        mr, mi, tr, ti = [C.w2f(x) for x in next(rep).split()]
        k = len(c['stack'])
        triv = (k == 1 and c['stack'][0][2] == 0)
        ctx.case('stack', c, nontrivial=not triv, tag=f'k{k}/{c["pol"]}/{"normal" if c["aoi"] == 0 else "oblique"}')
        try:
            r, t = _call_stack(c['stack'], c['wavelength'], c['pol'], c['aoi'], c['ambient'])
        except Exception as ex:
            ctx.disagree('stack', c, f'raised {type(ex).__name__}: {ex}', [mr, mi, tr, ti])
            continue
        if not (_rel(r, complex(mr, mi)) <= TOL and _rel(t, complex(tr, ti)) <= TOL):
            ctx.disagree('stack', c, [r, t], [complex(mr, mi), complex(tr, ti)])
        _check(ctx, 'stack_energy', c, nontrivial=not triv, tag=f'k{k}/{c["pol"]}')
        if i % 7 == 0:
            _check(ctx, 'defaults', {'stack': c['stack'], 'wavelength': c['wavelength'], 'pol': c['pol']}, tag=f'k{k}')
            _check(ctx, 'polcase', c, tag=f'k{k}')
        if i % 11 == 0 and max(l[2] for l in c['stack']) <= 2.0:   # float32 cannot carry beta ~ 1e4 rad (thick layers)
            _check(ctx, 'precision32', c, tag=f'k{k}/{c["pol"]}')
        if i % 3 == 0:
            pos = int(rng.integers(0, k))          # never after the last layer: that would change the exit medium
            extra = {'pos': pos, 'n_ins': round(float(rng.uniform(max(1.0, 1.02 * c['ambient'] * math.sin(math.radians(c['aoi']))), 4)), 3)}
            _check(ctx, 'zero_thickness', {**c, **extra}, tag=f'k{k}/{c["pol"]}')
            _check(ctx, 'half_wave', {**c, **extra}, tag=f'k{k}/{c["pol"]}')

    # ------------------------------------------------ absorbing layers: model vs code, R + T <= 1
    for c in absorb:
        mr, mi, tr, ti = [C.w2f(x) for x in next(rep).split()]
        ctx.case('stack_absorbing', c, tag=f'k{len(c["stack"])}/{c["pol"]}')
        try:
            r, t = _call_stack(c['stack'], c['wavelength'], c['pol'], c['aoi'], c['ambient'])
        except Exception as ex:
            ctx.disagree('stack_absorbing', c, f'raised {type(ex).__name__}: {ex}', [mr, mi, tr, ti])
            continue
        if not (_rel(r, complex(mr, mi)) <= TOL and _rel(t, complex(tr, ti)) <= TOL):
            ctx.disagree('stack_absorbing', c, [r, t], [complex(mr, mi), complex(tr, ti)])
        _check(ctx, 'absorbing', c, tag=f'k{len(c["stack"])}/{c["pol"]}')

    for i in range(ctx.scale(40, 800) * widen):
        n0, n1, th = _gen_interface(rng)
        lim = 89.9 if n0 <= n1 else 0.999 * math.degrees(math.asin(n1 / n0))
        _check(ctx, 'fresnel_vector', {'n0': n0, 'n1': n1, 'thetas_deg': [0.0, round(0.3 * lim, 2), round(0.8 * lim, 2), th],
                                       'kappa': round(float(rng.uniform(0.01, 3)), 3)}, nontrivial=(n0 != n1))

    # ------------------------------------------------ batched index / thickness arrays vs the per-element loop
    shapes = [(5,), (3, 4), (1,), (2, 1), (2, 3, 2)]
    for i in range(ctx.scale(80, 3000) * widen):
        bs = shapes[i % len(shapes)]
        k = 1 + (i // len(shapes)) % 8
        amb = float(rng.choice([1.0, round(rng.uniform(1, 2), 3)]))
        n = np.round(rng.uniform(1.0, 4.0, size=(k,) + bs), 3)
        d = np.round(rng.uniform(0.0, 1.2, size=(k,) + bs), 4)
        d[rng.random(d.shape) < 0.15] = 0.0
        smax = min(0.97 * n.min() / amb, math.sin(math.radians(89)))
        aoi = float(rng.choice([0.0, round(rng.uniform(0, math.degrees(math.asin(smax))), 2)]))
        case = {'n': n.tolist(), 'd': d.tolist(), 'wavelength': round(float(rng.uniform(0.4, 2)), 3), 'pol': 'sp'[i % 2],
                'aoi': aoi, 'ambient': amb}
        if i % 3 == 2 and k > 1:      # absorbing interior layers in the batch (the exit medium stays real)
            kap = np.round(rng.uniform(0.0, 2.0, size=(k,) + bs), 3)
            kap[-1] = 0.0
            case['k'] = kap.tolist()
            case['d'] = np.minimum(d, 0.3).tolist()
        _check(ctx, 'batch', case, tag=f'shape{bs}/k{k}/{"normal" if aoi == 0 else "oblique"}/{"complex" if "k" in case else "real"}')

    # ------------------------------------------------ the index maps of the batch plumbing: model ravel / unravel / bsize vs NumPy
    rshapes = [tuple(s_) for s_ in shapes] + [(4, 1), (1, 1, 3), (2, 2, 2, 2), (7,), (3, 1, 2)]
    rcases = []
    for i in range(ctx.scale(60, 2000) * widen):
        shp = rshapes[i % len(rshapes)] if i % 3 else tuple(int(x) for x in rng.integers(1, 6, size=int(rng.integers(1, 5))))
        idx = tuple(int(rng.integers(0, m)) for m in shp)
        rcases.append((shp, idx))
    rrep = C.lean_driver('C17', [' '.join(['ravel', str(len(shp))] + [str(x) for x in shp + idx]) for shp, idx in rcases])
    for (shp, idx), line in zip(rcases, rrep):
        case = {'shape': list(shp), 'idx': list(idx)}
        ctx.case('batch_index_maps', case, nontrivial=(len(shp) > 1 and int(np.prod(shp)) > 1), tag=f'rank{len(shp)}')
        want = [int(np.ravel_multi_index(idx, shp))] + [int(x) for x in np.unravel_index(int(np.ravel_multi_index(idx, shp)), shp)] + [int(np.prod(shp))]
        try:
            got = [int(x) for x in line.split()]
        except ValueError:
            got = line
        if got != want:
            ctx.disagree('batch_index_maps', case, want, got)
        # the reshape the source performs, on a tagged array: element [b, j] of moveaxis(a.reshape((k, -1)), 1, 0) is a[j, *unravel(b)]
        k = 2
        a = np.arange(k * int(np.prod(shp))).reshape((k,) + shp)
        fl = np.moveaxis(a.reshape((k, -1)), 1, 0)
        if int(fl[want[0], 1]) != int(a[(1,) + idx]) or int(fl[:, 0].reshape(shp)[idx]) != int(a[(0,) + idx]):
            ctx.disagree('batch_index_maps', case, 'numpy reshape/moveaxis differ from the C-order index map', got)

    # ------------------------------------------------ batches in which SOME elements have an evanescent gap (mixed FTIR / propagating)
    for i in range(ctx.scale(24, 900) * widen):
        bs = [(4,), (2, 3), (3, 1, 2)][i % 3]
        amb = round(float(rng.uniform(1.6, 2.4)), 3)
        aoi = round(float(rng.uniform(35.0, 60.0)), 2)
        sig = amb * math.sin(math.radians(aoi))
        ngap = np.where(rng.random(bs) < 0.5, np.round(rng.uniform(1.0, max(1.01, 0.95 * sig), size=bs), 3),
                        np.round(rng.uniform(1.05 * sig, 1.05 * sig + 1.5, size=bs), 3))
        nfilm = np.round(rng.uniform(sig / 0.9, sig / 0.9 + 1.5, size=bs), 3)
        nexit = np.round(rng.uniform(sig / 0.95, sig / 0.95 + 1.5, size=bs), 3)
        wvl = round(float(rng.uniform(0.4, 2.0)), 3)
        n = np.stack([nfilm, ngap, nexit])
        d = np.stack([np.round(rng.uniform(0, 0.8, size=bs), 4), np.round(rng.uniform(0.02, 0.4, size=bs) * wvl, 4),
                      np.round(rng.uniform(0, 1.0, size=bs), 4)])
        case = {'n': n.tolist(), 'd': d.tolist(), 'wavelength': wvl, 'pol': 'sp'[i % 2], 'aoi': aoi, 'ambient': amb}
        nev = int(np.sum(ngap < sig))
        _check(ctx, 'batch', case, tag=f'shape{bs}/ftir-mixed/{"some" if 0 < nev < ngap.size else ("all" if nev else "none")}-evanescent')
        _check(ctx, 'batch_energy', case, tag=f'shape{bs}/ftir-mixed')

    # ------------------------------------------------ the same stack in every container / dtype / layout / scalar type
    forms = ['int_list', 'mixed_list', 'tuple_of_tuples', 'list_of_lists', 'list_of_arrays', 'dtype:int64', 'dtype:int32', 'dtype:int16',
             'dtype:uint8', 'dtype:float32', 'dtype:float64', 'dtype:complex64', 'dtype:complex128', 'dtype:longdouble', 'fortran',
             'transposed', 'strided', 'negstride', 'readonly', 'scalars:float32', 'scalars:float64', 'scalars:int64', 'scalars:int32',
             'scalars:int', 'batch:int64', 'batch:float32', 'batch:complex128', 'batch:fortran', 'batch:strided', 'batch:int32']
    for i in range(ctx.scale(len(forms) * 2, len(forms) * 40) * widen):
        form = forms[i % len(forms)]
        k = 1 + (i // len(forms)) % 5
        # integer-valued indices and thicknesses, so that every integer form holds exactly the same numbers
        ns = [int(rng.integers(1, 5)) for _ in range(k)]
        ds = [int(rng.integers(0, 3)) for _ in range(k)]
        amb = int(rng.integers(1, 3)) if min(ns) >= 2 else 1
        smax = min(0.97 * min(ns) / amb, math.sin(math.radians(89)))
        lim = math.degrees(math.asin(smax))
        aoi = float(rng.choice([float(int(rng.uniform(5, lim))) if lim > 6 else round(lim / 2, 2), round(rng.uniform(0.2 * lim, lim), 2)]))
        case = {'stack': [[n, d] for n, d in zip(ns, ds)], 'wavelength': float(rng.choice([0.5, 0.75, 1.25])), 'pol': 'sp'[i % 2],
                'aoi': aoi, 'ambient': float(amb), 'form': form}
        _check(ctx, 'forms', case, nontrivial=(len(set(ns + [amb])) > 1), tag=form)

    # ------------------------------------------------ frustrated total reflection: an evanescent gap between propagating media
    for i in range(ctx.scale(60, 3000) * widen):
        c = _gen_ftir(rng)
        c['pol'] = 'sp'[i % 2]
        ftir.append(c)
    ftir_rep = iter(C.lean_driver('C17', [_stack_line(c) for c in ftir]))
    for c in ftir:
        mr, mi, tr, ti = [C.w2f(x) for x in next(ftir_rep).split()]
        ctx.case('stack_ftir', c, tag=f'k{len(c["stack"])}/{c["pol"]}')
        try:
            r, t = _call_stack(c['stack'], c['wavelength'], c['pol'], c['aoi'], c['ambient'])
        except Exception as ex:
            ctx.disagree('stack_ftir', c, f'raised {type(ex).__name__}: {ex}', [mr, mi, tr, ti])
            continue
        if not (_rel(r, complex(mr, mi)) <= TOL and _rel(t, complex(tr, ti)) <= TOL):
            ctx.disagree('stack_ftir', c, [r, t], [complex(mr, mi), complex(tr, ti)])
        _check(ctx, 'stack_energy', c, tag=f'ftir/{c["pol"]}')

    # ------------------------------------------------ histories: one caller-owned ndarray, many evaluations
    hshapes = [(), (4,), (2, 3)]
    for i in range(ctx.scale(60, 1200) * widen):
        bs = hshapes[i % len(hshapes)]
        k = 1 + (i // len(hshapes)) % 6
        amb = float(rng.choice([1.0, round(rng.uniform(1, 2), 3)]))
        n = np.round(rng.uniform(1.0, 4.0, size=(k,) + bs), 3)
        d = np.round(rng.uniform(0.05, 1.2, size=(k,) + bs), 4)
        smax = min(0.97 * n.min() / amb, math.sin(math.radians(89)))
        aoi = float(rng.choice([0.0, round(rng.uniform(0, math.degrees(math.asin(smax))), 2)]))
        w1, w2 = round(float(rng.uniform(0.4, 2)), 3), round(float(rng.uniform(0.4, 2)), 3)
        seq = [(['s', 'p', 's'], [w1, w1, w1]), (['p', 's', 'p', 'p'], [w1, w2, w1, w2]), (['s', 's'], [w1, w2])][i % 3]
        case = {'n': n.tolist(), 'd': d.tolist(), 'pols': seq[0], 'wavelengths': seq[1], 'aoi': aoi, 'ambient': amb}
        _check(ctx, 'history', case, tag=f'shape{bs}/k{k}/{"".join(seq[0])}')


# ------------------------------------------------------------------------------------------------
# search: smallest failing input of the property's predicates on the real code
# ------------------------------------------------------------------------------------------------
def _small_scope():
    """systematic enumeration, simplest inputs first"""
    grid_n = [(1.0, 1.5), (1.5, 1.0), (1.0, 2.0), (1.33, 2.4), (2.0, 1.5)]
    grid_th = [0.0, 10.0, 30.0, 40.0, 60.0, 80.0]
    for (n0, n1) in grid_n:
        for th in grid_th:
            if n0 > n1 and th >= 0.97 * math.degrees(math.asin(n1 / n0)):
                continue
            for pol in 'sp':
                base = {'n0': n0, 'n1': n1, 'theta0_deg': th, 'pol': pol}
                yield 'fresnel_energy', base
                yield 'fresnel_continuity', base
                for d in (0.0, 0.3):
                    yield 'single_interface', {**base, 'd': d, 'wavelength': 0.5}
        yield 'brewster', {'n0': n0, 'n1': n1}
    stacks = [[[1.5, 0.0, 0.3]], [[1.38, 0.0, 0.1], [1.5, 0.0, 1.0]], [[1.38, 0.0, 0.1], [2.1, 0.0, 0.2], [1.5, 0.0, 1.0]],
              [[2.3, 0.0, 0.07], [1.38, 0.0, 0.11], [2.3, 0.0, 0.07], [1.52, 0.0, 0.5]]]
    for st in stacks:
        for aoi in (0.0, 35.0, 70.0):
            for pol in 'sp':
                for amb in (1.0, 1.2):
                    base = {'stack': st, 'wavelength': 0.55, 'pol': pol, 'aoi': aoi, 'ambient': amb}
                    yield 'stack_energy', base
                    for pos in range(len(st)):
                        yield 'zero_thickness', {**base, 'pos': pos, 'n_ins': 1.7}
                        yield 'half_wave', {**base, 'pos': pos, 'n_ins': 1.7}
    for st in ([[0.2, 3.4, 0.02], [1.5, 0.0, 1.0]], [[1.38, 0.0, 0.1], [0.2, 3.4, 0.02], [1.5, 0.0, 1.0]]):
        for aoi in (0.0, 35.0):
            for pol in 'sp':
                yield 'absorbing', {'stack': st, 'wavelength': 0.55, 'pol': pol, 'aoi': aoi, 'ambient': 1.0}
    for (n0, n1) in grid_n:
        yield 'units', {'n0': n0, 'n1': n1, 'theta0_deg': 20.0}
        yield 'fresnel_vector', {'n0': n0, 'n1': n1, 'thetas_deg': [0.0, 10.0, 30.0], 'kappa': 0.5}
    for st in stacks:
        yield 'defaults', {'stack': st, 'wavelength': 0.55, 'pol': 'p'}
        yield 'polcase', {'stack': st, 'wavelength': 0.55, 'aoi': 20.0, 'ambient': 1.0}
        yield 'precision32', {'stack': st, 'wavelength': 0.55, 'pol': 's', 'aoi': 20.0, 'ambient': 1.0}
    for th_ in (1000.0, 150.0):
        for pol in 'sp':
            yield 'stack_energy', {'stack': [[1.38, 0.0, 0.1], [2.1, 0.0, th_], [1.5, 0.0, 10000.0]], 'wavelength': 0.55, 'pol': pol,
                                   'aoi': 30.0, 'ambient': 1.0}
            yield 'half_wave', {'stack': [[1.38, 0.0, 0.1], [2.1, 0.0, th_], [1.5, 0.0, 1.0]], 'wavelength': 0.55, 'pol': pol,
                                'aoi': 30.0, 'ambient': 1.0, 'pos': 1, 'n_ins': 1.7}
    yield 'batch', {'n': [[1.4, 1.6], [1.5, 1.5]], 'k': [[0.3, 0.7], [0.0, 0.0]], 'd': [[0.1, 0.2], [1.0, 1.0]], 'wavelength': 0.6,
                    'pol': 's', 'aoi': 20.0, 'ambient': 1.0}
    for st in ([[2, 0]], [[2, 1], [4, 0]], [[3, 2], [2, 1], [4, 1]]):
        for aoi in (40.0, 20.0):
            for form in ('int_list', 'dtype:int64', 'dtype:int16', 'mixed_list', 'dtype:float32', 'dtype:complex128', 'fortran', 'strided',
                         'negstride', 'list_of_arrays', 'scalars:int64', 'scalars:float32', 'batch:int64', 'batch:float32', 'batch:fortran'):
                for pol in 'sp':
                    yield 'forms', {'stack': st, 'wavelength': 0.5, 'pol': pol, 'aoi': aoi, 'ambient': 1.0, 'form': form}
    for gap in (0.05, 0.2):
        for pol in 'sp':
            yield 'stack_energy', {'stack': [[1.0, 0.0, gap], [1.8, 0.0, 1.0]], 'wavelength': 0.6, 'pol': pol, 'aoi': 50.0, 'ambient': 1.8}
    for (nn, dd) in (([1.38, 1.5], [0.1, 1.0]), ([[1.38, 1.6], [1.5, 1.5]], [[0.1, 0.2], [1.0, 1.0]])):
        for aoi in (0.0, 30.0):
            yield 'history', {'n': nn, 'd': dd, 'pols': ['s', 'p', 's'], 'wavelengths': [0.5, 0.5, 0.5], 'aoi': aoi, 'ambient': 1.0}
            yield 'history', {'n': nn, 'd': dd, 'pols': ['s', 's'], 'wavelengths': [0.5, 0.8], 'aoi': aoi, 'ambient': 1.0}
    for bs in ((2,), (2, 2)):
        for k in (1, 2, 3):
            n = (1.2 + 0.3 * np.arange(k * int(np.prod(bs)))).reshape((k,) + bs)
            d = (0.1 + 0.05 * np.arange(k * int(np.prod(bs)))).reshape((k,) + bs)
            for aoi in (0.0, 30.0):
                for pol in 'sp':
                    yield 'batch', {'n': np.round(n, 3).tolist(), 'd': np.round(d, 3).tolist(), 'wavelength': 0.6, 'pol': pol,
                                    'aoi': aoi, 'ambient': 1.0}

    for bs in ((2,), (2, 2)):
        n = np.stack([np.full(bs, 2.4), np.where(np.arange(int(np.prod(bs))).reshape(bs) % 2 == 0, 1.0, 2.0), np.full(bs, 1.9)])
        d = np.stack([np.full(bs, 0.2), np.full(bs, 0.1), np.full(bs, 0.5)])
        for pol in 'sp':
            yield 'batch_energy', {'n': n.tolist(), 'd': d.tolist(), 'wavelength': 0.6, 'pol': pol, 'aoi': 50.0, 'ambient': 1.8}
            yield 'batch', {'n': n.tolist(), 'd': d.tolist(), 'wavelength': 0.6, 'pol': pol, 'aoi': 50.0, 'ambient': 1.8}

def search(ctx, hints):
    def bad(item, c):
        try:
            ok, detail = pred(item, c)
        except Exception as ex:
            ok, detail = False, f'raised {type(ex).__name__}: {ex}'
        return None if ok else {'item': item, 'input': c, 'detail': detail}
    import glob, json, os
    for path in sorted(glob.glob(os.path.join(C.VERIF, 'corpus', 'C17', '*.json'))):
        obj = json.load(open(path))
        f = bad(obj['item'], obj['input'])
        if f:
            return f
    for item, c in _small_scope():
        f = bad(item, c)
        if f:
            return f
    rng = np.random.Generator(np.random.PCG64(ctx.seed + 1717))
    for i in range(ctx.scale(300, 3000)):
        n0, n1, th = _gen_interface(rng)
        for pol in 'sp':
            for item in ('fresnel_energy', 'fresnel_continuity'):
                f = bad(item, {'n0': n0, 'n1': n1, 'theta0_deg': th, 'pol': pol})
                if f:
                    return f
        c = _gen_stack(rng, 1 + i % 8)
        c['pol'] = 'sp'[i % 2]
        f = bad('stack_energy', c)
        if f:
            return f
    return None


def replay(inp):
    item, c = inp['item'], inp['input']
    print('replaying', item, c)
    if item in ('fresnel', 'fresnel_rs', 'fresnel_ts', 'fresnel_rp', 'fresnel_tp', 'snell', 'critical_angle'):
        out = False
        for pol in 'sp':
            for it in ('fresnel_energy', 'fresnel_continuity'):
                ok, detail = pred(it, {**c, 'pol': pol})
                print(it, pol, detail, 'OK' if ok else 'VIOLATED')
                out = out or not ok
        return out
    if item in ('stack', 'stack_absorbing'):
        item = 'stack_energy' if item == 'stack' else 'absorbing'
    try:
        ok, detail = pred(item, c)
    except Exception as ex:
        print(f'raised {type(ex).__name__}: {ex}')
        return True
    print(detail, '-> holds' if ok else '-> VIOLATED')
    return not ok


MANIFEST_ENTRY = {
    'technique': 'Lean 4 proof (field algebra over translator-generated Fresnel / characteristic-matrix formulas, induction '
                 'over the layer list) + differential correspondence of a complex-double Lean model with prysm.thinfilm',
    'text': ('PROVED for all inputs, over definitions regenerated from prysm/thinfilm.py on every run: (1) the four Fresnel functions '
             'satisfy r^2 + (n1 cos th1 / n0 cos th0) t^2 = 1 in both polarisations over any field (complex indices included), '
             'field continuity 1 + r_s = t_s and (1 + r_p) cos th0 = t_p cos th1, s = p at normal incidence; (2) r_p = 0 when '
             'tan th0 = n1/n0 (the arctan2 arguments of brewsters_angle) and th1 follows from the generated Snell relation; (3) the '
             'A-matrix of a zero-thickness one-layer stack gives exactly fresnel_r*/t*, and a one-layer stack of ANY thickness gives '
             'r = fresnel_r and t = fresnel_t times the unit phase cos b + i sin b; the exit-medium layer of any stack only multiplies A '
             'by that phase; (4) every product of lossless characteristic matrices (any number of layers, both polarisations) has '
             'the form [[p, iq],[ir, s]] with ps + qr = 1, hence |r|^2 + (n_e cos th_e / n_0 cos th_0)|t|^2 = 1 for every lossless stack '
             'of every depth with real positive ambient/exit admittances; (5) a layer with beta = 0 (thickness 0) anywhere in a '
             'stack is the identity, a layer with beta = pi (n d cos th = lambda/2) maps r -> r, t -> -t. TRANSLATED: fresnel_rs/ts/rp/tp; arcsin / arctan2 arguments, degree<->radian conversions and flag defaults of snell_aor / '
             'critical_angle / brewsters_angle; beta and the four entries of characteristic_matrix_s/p; term1/term2/term4 tables and '
             'product order of multilayer_matrix_s/p; rtot, ttot; and the CALL SITES of multilayer_stack_rt as Lean definitions whose '
             'arguments are placed as the source places them (Snell from the ambient medium into layer j, layer call (wavelength, d_j, '
             'n_j, angle_j) per polarisation, A from ambient and the LAST layer, return (rtot A, ttot A), index/thickness columns, default '
             'aoi / ambient); the pipeline assembled from these (pipelineS/P) is proved energy-conserving with the last layer as exit '
             'medium, and r_p of the one-layer pipeline vanishes at Brewster. Re-bound locals the translator cannot read poison the '
             'item (untranslatable, TIE-DEGRADED on stdout, widened sweep) instead of leaving a stale binding. '
             'MODELLED AND COMPARED (1e-9): the whole '
             'multilayer_stack_rt pipeline incl. complex Snell angles, for stacks of 1..8 layers, oblique incidence, both '
             'polarisations, lossless and absorbing. (6) R + T <= 1 for absorbing layers is PROVED in full (the design listed it as '
             'stretch): with the complex sin/cos themselves, d/dk Re(E conj H) = Im(a)|H|^2 + Im(b)|E|^2 >= 0 inside a layer, so every '
             'layer with Im n^2 >= 0, thickness >= 0 and cos(theta) from Snell\'s law is passive, passive matrices are closed under '
             'products (any depth), and between real media |r|^2 + (n_e cos th_e/n_0 cos th_0)|t|^2 <= 1, both polarisations. '
             'Also exercised on the real code: defaults omitted, degrees / deg flags, upper-case polarisation and rejection of an unknown one, '
             'config.precision = 32, fresnel_* on angle arrays and complex indices, layers up to 1000 um, angles to 0.1 % below critical and 89.9 deg. '
             '(7) frustrated total internal reflection: with ANY subset of the lossless layers evanescent (cos th_j = i kappa, sin b = i sinh, cos b = cosh) between '
             'propagating real media, |r|^2 + (n_e cos th_e/n_0 cos th_0)|t|^2 = 1, any depth, both polarisations (energy_conservation_ftir). (8) batched = per-element loop: the '
             'reshape((nlayers,-1)) / moveaxis / [:, i] / reshape(stack.shape[2:]) plumbing is TRANSLATED as index maps (stack.batch) and PROVED, for every batch shape of every rank, to hand '
             'each per-element computation exactly the stack found at that multi-index and to put its result back there (unravel_ravel, batched_eq_loop, batched_exit_medium); trusted there: NumPy '
             'arithmetic / matmul act element-wise along the batch axis (exercised by the batch correspondence, incl. batches where only some elements have an evanescent gap, and by the '
             'index-map correspondence ravel / unravel vs NumPy). '
             '(9) reversibility: Stokes relations r\' = -r, t t\' - r r\' = 1 for the generated Fresnel formulas (s and p); the same lossless layers in reverse order give the product with '
             'its diagonal swapped (any depth), and seen from the exit side t\' = (eta_e/eta_0) t, |r\'| = |r|, t t\' - r r\' = conj(A00)/A00 (unit modulus; 1 for a bare interface), both polarisations; '
             'a layer index-matched to the ambient in front of any stack changes A00, A10 by conjugate unit phases only. TRANSLATOR SOUNDNESS: the call-site items refuse a source in which a parameter '
             'of multilayer_stack_rt is re-bound or modified other than by the three top-level normalisations (the ambient_index != 1 rewrite of C17-r6m2); module-wide fact: no in-place operator / '
             'element store / mutating method / out= on a parameter or a possible alias of one in ANY function of thinfilm.py. '
             'CORRESPONDENCE ONLY: element-wise action along the batch axis (batched 1-D/N-D, real and absorbing = per-element loop); independence of call history (the same caller-owned ndarray '
             'evaluated repeatedly - s/p/s, two wavelengths, batched then element views - equals calls on fresh copies and is left unchanged).'),
    'note': ('Trusted: Lean kernel + standard axioms; the ast->Lean translator for the arithmetic subset; NumPy matmul / '
             'broadcasting / complex arcsin, sin, cos; IEEE rounding (no theorem speaks about it). cos/sin of the angles and of beta, '
             'and -i, are abstract parameters with the laws c^2 + s^2 = 1, mI^2 = -1; non-vacuity examples instantiate them.'),
}
