"""Shared machinery of the checks: context, translator hook, lake build, axiom audit, hygiene grep,
Lean driver line protocol, evidence, replays, known findings.

Environment:
  PRYSM_REPO   path of the prysm checkout to verify (default /repo)
  VERIF_SEED   integer seed for the single PRNG (default 0)
  PRYSM_VERIF  guard variable exported to the implementation (no source hook currently needs it)
"""
import collections
import fcntl
import hashlib
import importlib
import json
import os
import re
import struct
import subprocess
import sys
import time

VERIF = os.path.dirname(os.path.dirname(os.path.abspath(__file__)))
REPO = os.path.abspath(os.environ.get('PRYSM_REPO', '/repo'))
LEAN = os.path.join(VERIF, 'lean')
WORK = os.path.join(VERIF, '.work')
ALLOWED_AXIOMS = {'propext', 'Classical.choice', 'Quot.sound'}
TRUSTED_BASE = [
    'Lean 4.33 kernel; axioms limited to propext, Classical.choice, Quot.sound (audited by #print axioms every run)',
    'Mathlib v4.33 (kernel-checked library)',
    'tools/pyexpr2lean.py + tools/gen_*.py: the emitted Lean term means what the Python fragment means',
    'harness correspondence: implementation ~ hand model is differential testing with stated tolerances, not proved',
    'NumPy/SciPy primitives and IEEE-754 rounding are modelled, not verified',
]


class ToolError(Exception):
    """infrastructure failure: exit 2, never a VIOLATION"""


# ------------------------------------------------------------------------------------------------
# implementation access
# ------------------------------------------------------------------------------------------------
def import_prysm():
    """import the implementation under test from REPO (in-process)"""
    os.environ['PRYSM_VERIF'] = '1'
    if REPO not in sys.path:
        sys.path.insert(0, REPO)
    import prysm  # noqa
    got = os.path.dirname(os.path.dirname(os.path.abspath(prysm.__file__)))
    if got != REPO:
        raise ToolError(f'prysm imported from {got}, expected {REPO}')
    return prysm


# ------------------------------------------------------------------------------------------------
# wire format (see lean/PrysmVerif/Wire.lean)
# ------------------------------------------------------------------------------------------------
def f2w(x):
    """python float -> decimal of its IEEE-754 bit pattern"""
    return str(struct.unpack('<Q', struct.pack('<d', float(x)))[0])


def w2f(s):
    return struct.unpack('<d', struct.pack('<Q', int(s)))[0]


def q2w(fr):
    from fractions import Fraction
    fr = Fraction(fr)
    return f'{fr.numerator}/{fr.denominator}'


def w2q(s):
    from fractions import Fraction
    return Fraction(s)


# ------------------------------------------------------------------------------------------------
# context
# ------------------------------------------------------------------------------------------------
class Ctx:
    def __init__(self, pid, tier, seed):
        import numpy as np
        self.pid, self.tier, self.seed = pid, tier, seed
        self.thorough = tier == 'thorough'
        self.rng = np.random.Generator(np.random.PCG64(seed))
        self.t0 = time.time()
        self.evaluations = 0
        self._distinct = set()
        self.samples = []
        self.hist = collections.Counter()
        self.disagreements = []      # correspondence: model != implementation
        self.pred_failures = []      # property predicate false on the real code
        self.items = {}              # per-item counts
        self.notes = []
        self.filtered_known = collections.Counter()

    def scale(self, quick, thorough):
        return thorough if self.thorough else quick

    def case(self, item, case, nontrivial=True, tag=None):
        """register one executed case (for the evidence counters)"""
        self.evaluations += 1
        self.items[item] = self.items.get(item, 0) + 1
        if tag:
            self.hist[f'{item}:{tag}'] += 1
        if nontrivial:
            h = hashlib.sha1(json.dumps([item, case], sort_keys=True, default=str).encode()).hexdigest()
            if h not in self._distinct:
                self._distinct.add(h)
                if len(self.samples) < 12 and (self.items[item] <= 2):
                    self.samples.append({'item': item, 'case': case})

    def disagree(self, item, case, impl, model, note=''):
        self.disagreements.append({'item': item, 'case': case, 'impl': impl, 'model': model, 'note': note})

    def pred_fail(self, item, case, detail):
        self.pred_failures.append({'item': item, 'case': case, 'detail': detail})

    @property
    def distinct_nontrivial(self):
        return len(self._distinct)


# ------------------------------------------------------------------------------------------------
# lake / lean
# ------------------------------------------------------------------------------------------------
class _Lock:
    def __enter__(self):
        os.makedirs(WORK, exist_ok=True)
        self.f = open(os.path.join(WORK, 'lake.lock'), 'w')
        fcntl.flock(self.f, fcntl.LOCK_EX)

    def __exit__(self, *a):
        fcntl.flock(self.f, fcntl.LOCK_UN)
        self.f.close()


def _run(cmd, cwd=LEAN, timeout=3000, stdin=None):
    try:
        p = subprocess.run(cmd, cwd=cwd, stdout=subprocess.PIPE, stderr=subprocess.STDOUT, text=True,
                           timeout=timeout, stdin=stdin)
    except subprocess.TimeoutExpired:
        raise ToolError(f'timeout: {" ".join(cmd)}')
    return p.returncode, p.stdout


def lake_build(target, timeout=3000):
    with _Lock():
        return _run(['lake', 'build', target], timeout=timeout)


def write_if_changed(path, text):
    old = open(path).read() if os.path.exists(path) else None
    if old != text:
        os.makedirs(os.path.dirname(path), exist_ok=True)
        with open(path, 'w') as f:
            f.write(text)
        return True
    return False


def theorem_names(pid, sub='Props'):
    """fully qualified names + line numbers of the theorems in Props/<pid>.lean"""
    path = os.path.join(LEAN, 'PrysmVerif', sub, f'{pid}.lean')
    out = []
    ns = []
    for i, line in enumerate(open(path), 1):
        m = re.match(r'\s*namespace\s+(\S+)', line)
        if m:
            ns.append(m.group(1))
        m = re.match(r'\s*end\s+(\S+)', line)
        if m and ns and ns[-1] == m.group(1):
            ns.pop()
        m = re.match(r'\s*(?:@\[[^\]]*\]\s*)?(?:private\s+|protected\s+)?theorem\s+([^\s:({\[]+)', line)
        if m:
            out.append(('.'.join(ns + [m.group(1)]), i))
    return out


def translate(pid):
    """run tools/gen_<pid>.py against REPO; (re)write Generated/<pid>.lean when its text changed.
    returns dict(status, items=[{name, source, sha, status, reason}], sha256, changed)"""
    sys.path.insert(0, os.path.join(VERIF, 'tools'))
    try:
        gen = importlib.import_module(f'gen_{pid.lower()}')
    except ModuleNotFoundError:
        return {'status': 'none', 'items': [], 'sha256': None, 'changed': False}
    text, items = gen.generate(REPO)
    path = os.path.join(LEAN, 'PrysmVerif', 'Generated', f'{pid}.lean')
    with _Lock():
        changed = write_if_changed(path, text)
    bad = [it for it in items if it.get('status') != 'ok']
    return {'status': 'ok' if not bad else 'partial', 'items': items,
            'sha256': hashlib.sha256(text.encode()).hexdigest(), 'changed': changed}


def build_props(pid):
    """build Model (must succeed) and Props (may fail).  returns dict(ok, failed=[theorem names], log)"""
    model = os.path.join(LEAN, 'PrysmVerif', 'Model', f'{pid}.lean')
    if os.path.exists(model):
        rc, log = lake_build(f'PrysmVerif.Model.{pid}')
        if rc != 0:
            raise ToolError(f'hand model does not build:\n{log[-3000:]}')
    thms = theorem_names(pid)
    rc, log = lake_build(f'PrysmVerif.Props.{pid}')
    failed = []
    if rc != 0:
        lines = [int(m.group(1)) for m in re.finditer(rf'error: [^\n]*Props/{pid}\.lean:(\d+):', log)]
        starts = [ln for _, ln in thms]
        for ln in lines:
            owner = None
            for (nm, st) in thms:
                if st <= ln:
                    owner = nm
            if owner and owner not in failed:
                failed.append(owner)
        if not failed:   # a dependency (Generated / Lemmas) failed: nothing in Props was checked
            failed = [nm for nm, _ in thms]
    return {'ok': rc == 0, 'failed': failed, 'log': log, 'theorems': [nm for nm, _ in thms]}


def audit(pid):
    """#print axioms for every theorem of Props/<pid>.lean; returns {theorem: [axioms]}"""
    thms = [nm for nm, _ in theorem_names(pid)]
    text = f'import PrysmVerif.Props.{pid}\n' + ''.join(f'#print axioms {t}\n' for t in thms)
    path = os.path.join(LEAN, 'PrysmVerif', 'Audit', f'{pid}.lean')
    with _Lock():
        write_if_changed(path, text)
    rc, out = _run(['lake', 'env', 'lean', path], timeout=1200)
    if rc != 0:
        raise ToolError(f'audit failed:\n{out[-3000:]}')
    res = {}
    flat = re.sub(r'\s+', ' ', out)
    for m in re.finditer(r"'(\S+?)' depends on axioms: \[([^\]]*)\]", flat):
        res[m.group(1)] = [a.strip() for a in m.group(2).split(',') if a.strip()]
    for m in re.finditer(r"'(\S+?)' does not depend on any axioms", flat):
        res[m.group(1)] = []
    missing = [t for t in thms if t not in res]
    if missing:
        raise ToolError(f'audit: no axiom report for {missing[:5]}')
    return res


_FORBIDDEN = re.compile(r'\bsorry\b|\badmit\b|^\s*axiom\s|native_decide|bv_decide|implemented_by|\bunsafe\s|maxHeartbeats\s+0\b|\bopaque\s', re.M)


def _strip_comments(s):
    s = re.sub(r'/-.*?-/', '', s, flags=re.S)
    return re.sub(r'--[^\n]*', '', s)


def hygiene(pid):
    """forbidden constructs in the files this property depends on (comments stripped)"""
    hits = []
    root = os.path.join(LEAN, 'PrysmVerif')
    for sub in ('', 'Model', 'Generated', 'Props', 'Lemmas'):
        d = os.path.join(root, sub)
        for fn in sorted(os.listdir(d)):
            if not fn.endswith('.lean'):
                continue
            if sub in ('Model', 'Generated', 'Props') and not fn.startswith(pid):
                continue
            txt = _strip_comments(open(os.path.join(d, fn)).read())
            for m in _FORBIDDEN.finditer(txt):
                hits.append(f'{sub}/{fn}: {m.group(0).strip()}')
    return hits


def lean_driver(pid, lines, timeout=1800):
    """pipe request lines to Drivers/<pid>.lean; returns reply lines (same count)"""
    os.makedirs(WORK, exist_ok=True)
    inp = os.path.join(WORK, f'{pid}.{os.getpid()}.in')
    with open(inp, 'w') as f:
        f.write('\n'.join(lines) + '\n')
    try:
        with open(inp) as fin:
            rc, out = _run(['lake', 'env', 'lean', '--run', f'Drivers/{pid}.lean'], stdin=fin, timeout=timeout)
    finally:
        os.unlink(inp)
    rows = out.split('\n')
    if rows and rows[-1] == '':
        rows.pop()
    if rc != 0 or len(rows) != len(lines):
        raise ToolError(f'driver {pid}: rc={rc}, {len(rows)} replies for {len(lines)} requests\n{out[-2000:]}')
    return rows


# ------------------------------------------------------------------------------------------------
# known findings
# ------------------------------------------------------------------------------------------------
def known_findings(pid):
    """entries `known: property=<id> key=<key> <text>` of KNOWN_FINDINGS.txt for this property"""
    out = []
    path = os.path.join(VERIF, 'KNOWN_FINDINGS.txt')
    if not os.path.exists(path):
        return out
    for line in open(path):
        m = re.match(r'known:\s+property=(\S+)\s+key=(\S+)\s+(.*)', line.strip())
        if m and m.group(1) == pid:
            out.append({'key': m.group(2), 'text': m.group(3)})
    return out


# ------------------------------------------------------------------------------------------------
# output
# ------------------------------------------------------------------------------------------------
def write_replay(pid, obj):
    os.makedirs(os.path.join(VERIF, 'replays'), exist_ok=True)
    blob = json.dumps(obj, indent=1, sort_keys=True, default=str)
    h = hashlib.sha1(blob.encode()).hexdigest()[:10]
    path = os.path.join(VERIF, 'replays', f'{pid}-{h}.json')
    with open(path, 'w') as f:
        f.write(blob)
    return os.path.relpath(path, VERIF)


def write_evidence(ctx, level, coverage, assumptions, violations):
    os.makedirs(os.path.join(VERIF, 'evidence'), exist_ok=True)
    ev = {
        'property_id': ctx.pid, 'tier': ctx.tier, 'seed': ctx.seed, 'level': level,
        'coverage': coverage, 'assumptions': assumptions,
        'wall_s': round(time.time() - ctx.t0, 2), 'violations': violations,
    }
    with open(os.path.join(VERIF, 'evidence', f'{ctx.pid}.json'), 'w') as f:
        json.dump(ev, f, indent=1, default=str)
    return ev


# ------------------------------------------------------------------------------------------------
# purity guard (history independence / no aliasing of caller-owned arrays)
# ------------------------------------------------------------------------------------------------
def _snap(x):
    import numpy as np
    if isinstance(x, np.ndarray):
        return x.copy()
    if isinstance(x, (list, tuple)):
        return type(x)(_snap(v) for v in x)
    if isinstance(x, dict):
        return {k: _snap(v) for k, v in x.items()}
    return x


def _same(a, b):
    import numpy as np
    if isinstance(a, np.ndarray) or isinstance(b, np.ndarray):
        a, b = np.asarray(a), np.asarray(b)
        return a.shape == b.shape and a.dtype == b.dtype and bool(np.array_equal(a, b, equal_nan=a.dtype.kind in 'fc'))
    if isinstance(a, (list, tuple)) and isinstance(b, (list, tuple)):
        return len(a) == len(b) and all(_same(x, y) for x, y in zip(a, b))
    if isinstance(a, dict) and isinstance(b, dict):
        return a.keys() == b.keys() and all(_same(a[k], b[k]) for k in a)
    if hasattr(a, 'data') and hasattr(b, 'data') and not isinstance(a, (int, float, complex, str, bytes)):
        return _same(getattr(a, 'data'), getattr(b, 'data'))
    try:
        return bool(a == b) or (a != a and b != b)
    except Exception:
        return True


def pure_call(ctx, item, case, fn, *args, **kwargs):
    """Call `fn(*args, **kwargs)` twice with the SAME argument objects.  Reports a predicate failure when an
    ndarray argument was modified in place (the implementation aliases a caller-owned array) or when the second
    result differs from the first (the answer depends on an earlier call).  Returns the first result.
    Use only for functions that are documented as pure (no `inplace=True`, no `out=` buffers, no random draws)."""
    before = (_snap(args), _snap(kwargs))
    r1 = fn(*args, **kwargs)
    keep = _snap(r1)
    if not _same((args, kwargs), before):
        ctx.pred_fail(item, case, 'implementation modified a caller-owned argument array in place')
        return keep
    r2 = fn(*args, **kwargs)
    if not _same(r2, keep):
        ctx.pred_fail(item, case, 'second evaluation with the same arguments differs from the first (history dependence)')
    elif not _same((args, kwargs), before):
        ctx.pred_fail(item, case, 'implementation modified a caller-owned argument array in place (second call)')
    return keep
