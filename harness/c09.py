"""C09 — derivative routines return the derivatives of the routines they name.

correspondence: Lean model (driver `Drivers/C09.lean`: the closed forms / derivative tables AND an exact formal
derivative of the model's value routines) vs the real prysm routines; the property's own predicate is evaluated
on the real code as "derivative routine == formal derivative of prysm's OWN value routine", the latter obtained by
running the value routine on an exact polynomial object (class QP) and differentiating its coefficients — no
finite differences anywhere.
"""
import importlib
import sys
from fractions import Fraction

import numpy as np

from harness import common as C

sys.set_int_max_str_digits(0)

RULE = ('Clenshaw derivative tables: coefficient vectors of length 1..12 (dense / sparse / single-term at each end / length 1 and 2), '
        'derivative orders j = 1..4 (including j greater than the degree), Jacobi parameters incl. alpha+beta in {0,-1}, 2D-Q orders '
        'm = 1..6 (m = 1 with more than three terms exercises the -2/5 alpha_3 correction); closed forms: orders n = 0..30 for '
        'Hermite He/H, Laguerre (several alpha), Jacobi (several alpha, beta), Legendre, Chebyshev 1-4, sequence forms with gapped '
        'order lists; Zernike: all valid (n, m) with n <= 10, norm on/off, r and t arrays; sag/slope: Qbfs, Qcon (length 1..10) and '
        '2D-Q with cosine-only / sine-only / mixed / empty / unequal content, preceded by SYSTEMATIC one-hot content (every position '
        'of every length, each side, each m); SYSTEMATIC dtype family: every derivative entry point x coordinate dtype (int64 .. int8, '
        'uint8, uint16, bool, float32) x orders 0, 1, 2, 3, 4, 6; points strictly inside the domain; exact runs use '
        'fractions.Fraction object arrays through prysm\'s own code. A case is non-trivial unless all coefficients vanish; '
        'distinct = distinct (item, input) tuples')
ASSUMPTIONS = ['the value routines (jacobi, hermite_*, laguerre, Qbfs, Qcon, Q2d, zernike_nm) are polynomials in their argument: the '
               'predicate runs them on an exact polynomial object (Fraction coefficients; float parameters converted exactly)',
               'cos(m t), sin(m t), zernike_norm, f/g/h of the Q families enter the model as numbers taken from NumPy / prysm',
               'float comparisons at 1e-9 relative to max(1, |expected|, size of the table row) on well-conditioned inputs '
               '(|x| <= 0.95, orders <= 30, lengths <= 12, j <= 4)']
TOL = 1e-9


# ------------------------------------------------------------------------------------------------
# exact polynomials: run prysm's value routines on the indeterminate
# ------------------------------------------------------------------------------------------------
def _sc(v):
    if isinstance(v, QP):
        return None
    if isinstance(v, np.ndarray):
        return _sc(v.item()) if v.ndim == 0 else None
    if isinstance(v, (int, Fraction)):
        return Fraction(v)
    if isinstance(v, (float, np.floating)):
        return Fraction(float(v))
    if isinstance(v, np.integer):
        return Fraction(int(v))
    return None


class QP:
    """polynomial with Fraction coefficients; supports the arithmetic prysm's value routines perform"""
    __array_priority__ = 1000

    def __init__(self, c):
        c = [Fraction(v) for v in c]
        while len(c) > 1 and c[-1] == 0:
            c.pop()
        self.c = c or [Fraction(0)]

    @staticmethod
    def lift(v):
        if isinstance(v, QP):
            return v
        if isinstance(v, np.ndarray) and v.ndim == 0 and isinstance(v.item(), QP):
            return v.item()
        s = _sc(v)
        if s is None:
            raise TypeError(f'cannot lift {type(v)}')
        return QP([s])

    def __add__(self, o):
        o = QP.lift(o)
        n = max(len(self.c), len(o.c))
        return QP([(self.c[i] if i < len(self.c) else 0) + (o.c[i] if i < len(o.c) else 0) for i in range(n)])
    __radd__ = __add__

    def __neg__(self):
        return QP([-v for v in self.c])

    def __sub__(self, o):
        return self + (-QP.lift(o))

    def __rsub__(self, o):
        return QP.lift(o) - self

    def __mul__(self, o):
        o = QP.lift(o)
        out = [Fraction(0)] * (len(self.c) + len(o.c) - 1)
        for i, a in enumerate(self.c):
            if a:
                for j, b in enumerate(o.c):
                    out[i + j] += a * b
        return QP(out)
    __rmul__ = __mul__

    def __truediv__(self, o):
        o = QP.lift(o)
        if len(o.c) != 1:
            raise TypeError('division by a non-constant polynomial')
        return QP([v / o.c[0] for v in self.c])

    def __pow__(self, k):
        out = QP([1])
        for _ in range(int(k)):
            out = out * self
        return out

    def deriv(self, j=1):
        c = self.c
        for _ in range(j):
            c = [i * c[i] for i in range(1, len(c))] or [Fraction(0)]
        return QP(c)

    def __call__(self, x):
        x = Fraction(float(x)) if isinstance(x, (float, np.floating)) else Fraction(x)
        acc = Fraction(0)
        for v in reversed(self.c):
            acc = acc * x + v
        return acc

    def shift_down(self, k):
        """divide by X^k (exact: the low coefficients must vanish)"""
        if any(self.c[:k]):
            raise ValueError('not divisible by X^k')
        return QP(self.c[k:])

    def even_part_as_x(self):
        """p(U) = q(U^2) -> q"""
        if any(self.c[1::2]):
            raise ValueError('polynomial is not even')
        return QP(self.c[0::2])

    shape = ()
    dtype = np.dtype(object)


X = QP([0, 1])


class Dual:
    """forward-mode automatic differentiation (value, derivative) — runs prysm's value routines that use sqrt/cos/sin"""
    __array_priority__ = 1000

    def __init__(self, v, d=0.0):
        self.v, self.d = float(v), float(d)

    @staticmethod
    def lift(o):
        if isinstance(o, Dual):
            return o
        if isinstance(o, np.ndarray) and o.ndim == 0:
            return Dual.lift(o.item())
        if isinstance(o, Fraction):
            return Dual(float(o))
        return Dual(float(o))

    def __add__(self, o):
        o = Dual.lift(o)
        return Dual(self.v + o.v, self.d + o.d)
    __radd__ = __add__

    def __neg__(self):
        return Dual(-self.v, -self.d)

    def __sub__(self, o):
        o = Dual.lift(o)
        return Dual(self.v - o.v, self.d - o.d)

    def __rsub__(self, o):
        return Dual.lift(o) - self

    def __mul__(self, o):
        o = Dual.lift(o)
        return Dual(self.v * o.v, self.v * o.d + self.d * o.v)
    __rmul__ = __mul__

    def __truediv__(self, o):
        o = Dual.lift(o)
        return Dual(self.v / o.v, (self.d * o.v - self.v * o.d) / (o.v * o.v))

    def __rtruediv__(self, o):
        return Dual.lift(o) / self

    def __pow__(self, k):
        if isinstance(k, (int, np.integer)):
            out = Dual(1.0)
            for _ in range(int(k)):
                out = out * self
            return out
        k = float(k)
        return Dual(self.v ** k, k * self.v ** (k - 1) * self.d)

    def sqrt(self):
        r = np.sqrt(self.v)
        return Dual(r, self.d / (2 * r))

    def cos(self):
        return Dual(np.cos(self.v), -np.sin(self.v) * self.d)

    def sin(self):
        return Dual(np.sin(self.v), np.cos(self.v) * self.d)

    shape = ()
    dtype = np.dtype(object)


def ad(f, x):
    """(value, derivative) of the python function f at the float x"""
    out = Dual.lift(f(Dual(x, 1.0)))
    return out.v, out.d


class ImplRaised(Exception):
    """the routine under test raised on ordinary (float / int ndarray, list) inputs: a violation"""


class NotApplicable(Exception):
    """the exact reference could not be formed because prysm's value routine does not accept the harness's
    polynomial / dual-number / Fraction objects (e.g. after a refactor that forces a float dtype): not a violation;
    the case is then covered by the model correspondence only and counted as 'exact-reference-not-applicable'"""


def I(fn, *a, **k):
    """call the implementation on ordinary inputs"""
    try:
        return fn(*a, **k)
    except Exception as ex:
        raise ImplRaised(f'raised {type(ex).__name__}: {ex}')


def clear_abc_cache(J):
    f = getattr(getattr(J, 'recurrence_abc', None), 'cache_clear', None)
    if f is not None:
        f()


def _impl():
    from prysm import polynomials as P
    qp = importlib.import_module('prysm.polynomials.qpoly')
    J = importlib.import_module('prysm.polynomials.jacobi')
    return P, qp, J


def fr(v):
    return Fraction(float(v))


def value_poly(kind, n, params=()):
    """the value routine `kind` of order n run on the indeterminate -> QP"""
    P, qp, J = _impl()
    clear_abc_cache(J)
    try:
        if kind == 'jac':
            a, b = params
            return QP.lift(P.jacobi(n, fr(a), fr(b), X))
        if kind == 'legendre':
            return QP.lift(P.legendre(n, X))
        if kind == 'he':
            return QP.lift(P.hermite_He(n, X))
        if kind == 'h':
            return QP.lift(P.hermite_H(n, X))
        if kind == 'lag':
            return QP.lift(P.laguerre(n, fr(params[0]), X))
        if kind in ('cheby1', 'cheby2', 'cheby3', 'cheby4'):
            return QP.lift(getattr(P, kind)(n, X))
        if kind == 'qbfs':
            return QP.lift(qp.Qbfs(n, X))
        if kind == 'qcon':
            return QP.lift(qp.Qcon(n, X))
        if kind == 'q2d':
            m, t = params
            return QP.lift(qp.Q2d(n, m, X, t))
        if kind == 'zern':
            m, t, norm = params
            return QP.lift(P.zernike_nm(n, m, X, t, norm=norm))
    finally:
        clear_abc_cache(J)
    raise C.ToolError(kind)


def close(a, b, tol=TOL, extra_scale=0.0):
    a = np.asarray(a, dtype=float)
    b = np.asarray(b, dtype=float)
    if a.shape != b.shape:
        return False
    if not (np.isfinite(a).all() and np.isfinite(b).all()):
        return False
    if not a.size:
        return True
    scale = max(1.0, float(np.max(np.abs(b))), extra_scale)
    return bool(np.max(np.abs(a - b)) <= tol * scale)


def wl(xs, w=C.f2w):
    return f'{len(xs)} ' + ' '.join(w(v) for v in xs) if len(xs) else '0'


def fw(x):
    return C.q2w(Fraction(float(x)))


def qbfs_fgh(qp, n):
    n = max(n, 2)
    return ([float(qp.f_qbfs(i)) for i in range(n)], [float(qp.g_qbfs(i)) for i in range(n)],
            [float(qp.h_qbfs(i)) for i in range(n)])


def q2d_fg(qp, m, n):
    n = max(n, 1)
    return [float(qp.f_q2d(i, m)) for i in range(n)], [float(qp.g_q2d(i, m)) for i in range(n)]


def coef_vector(rng, n, kind, pos=0):
    if kind == 'dense':
        v = rng.uniform(-1, 1, n)
    elif kind == 'sparse':
        v = rng.uniform(-1, 1, n) * (rng.uniform(size=n) < 0.5)
        if not v.any():
            v[rng.integers(n)] = 1.0
    else:
        v = np.zeros(n)
        v[pos % n] = rng.uniform(0.5, 1.5)
    return [float(t) for t in v]


def coef_cases(rng, nmax):
    out = []
    for n in range(1, nmax + 1):
        out.append((n, 'dense', 0))
        if n > 2:
            out.append((n, 'sparse', 0))
        out.append((n, 'single', n - 1))
        if n > 1:
            out.append((n, 'single', 0))
    return out


# ------------------------------------------------------------------------------------------------
# the property's predicate on the real code
# ------------------------------------------------------------------------------------------------
def qbfs_S_poly(qp, cs):
    """S(x) = sum_n b_n P_n(x), b = change_basis_Qbfs_to_Pn(cs), P_0 = 2, P_1 = 6 - 8x, P_{n+1} = (2 - 4x) P_n - P_{n-1}
    (the auxiliary polynomials of the value routine Qbfs, in x = u^2)"""
    bs = [float(v) for v in qp.change_basis_Qbfs_to_Pn(np.asarray(cs, dtype=float))]
    Ps = [QP([2]), QP([6, -8])]
    while len(Ps) < len(bs):
        Ps.append(QP([2, -4]) * Ps[-1] - Ps[-2])
    tot = QP([0])
    for b, p in zip(bs, Ps):
        tot = tot + p * fr(b)
    return tot


def q2d_S_poly(cs, m):
    """S(x) = sum_n c_n Q_n^m(x) from the value routine: Q2d(n, m, U, 0) = U^m Q_n^m(U^2)"""
    tot = QP([0])
    for n, c in enumerate(cs):
        if c:
            tot = tot + value_poly('q2d', n, (m, 0.0)).shift_down(m).even_part_as_x() * fr(c)
    return tot


def q2d_sag_poly(cm0, ams, bms, t):
    """sum c_nm Q2d(n, m, U, t) as a polynomial in U, and its t-derivative obtained by swapping cos <-> sin"""
    z = QP([0])
    dt = QP([0])
    for n, c in enumerate(cm0):
        if c:
            z = z + value_poly('q2d', n, (0, t)) * fr(c)
    for k, a in enumerate(ams):
        m = k + 1
        for n, c in enumerate(a):
            if c:
                z = z + value_poly('q2d', n, (m, t)) * fr(c)
                dt = dt - value_poly('q2d', n, (-m, t)) * fr(c) * m      # d/dt cos(mt) = -m sin(mt)
    for k, b in enumerate(bms):
        m = k + 1
        for n, c in enumerate(b):
            if c:
                z = z + value_poly('q2d', n, (-m, t)) * fr(c)
                dt = dt + value_poly('q2d', n, (m, t)) * fr(c) * m       # d/dt sin(mt) = m cos(mt)
    return z, dt


FAM_DER = {'he': 'hermite_He_der', 'h': 'hermite_H_der', 'lag': 'laguerre_der', 'jac': 'jacobi_der', 'legendre': 'legendre_der',
           'cheby1': 'cheby1_der', 'cheby2': 'cheby2_der', 'cheby3': 'cheby3_der', 'cheby4': 'cheby4_der'}
FAM_SEQ = {'he': 'hermite_He_der_seq', 'h': 'hermite_H_der_seq', 'lag': 'laguerre_der_seq', 'jac': 'jacobi_der_seq',
           'legendre': 'legendre_der_seq', 'cheby1': 'cheby1_der_seq', 'cheby2': 'cheby2_der_seq', 'cheby3': 'cheby3_der_seq',
           'cheby4': 'cheby4_der_seq'}


def fam_der(P, kind, n, params, x):
    return getattr(P, FAM_DER[kind])(n, *params, x)



# ------------------------------------------------------------------------------------------------
# history / aliasing: derivative routines evaluated twice on the caller's own containers
# ------------------------------------------------------------------------------------------------
CONTAINERS = ['f64', 'f32', 'i64', 'list', 'tuple']
ALIAS_PATHS = ['jder', 'qbfsder', 'q2dder', 'zzqbfs', 'zzqcon', 'zzq2d', 'zern', 'fam']


def container(vals, kind):
    if kind == 'f64':
        return np.array(vals, dtype=np.float64)
    if kind == 'f32':
        return np.array(vals, dtype=np.float32)
    if kind == 'i64':
        return np.array([int(v) for v in vals], dtype=np.int64)
    if kind == 'list':
        return list(vals)
    return tuple(vals)


def snap(obj):
    if isinstance(obj, np.ndarray):
        return ('nd', obj.dtype.str, obj.shape, obj.copy())
    if isinstance(obj, (list, tuple)):
        return (type(obj).__name__, [snap(o) for o in obj])
    return ('sc', obj)


def same(a, b):
    if a[0] != b[0]:
        return False
    if a[0] == 'nd':
        return a[1] == b[1] and a[2] == b[2] and np.array_equal(a[3], b[3], equal_nan=True)
    if a[0] == 'sc':
        return a[1] == b[1]
    return len(a[1]) == len(b[1]) and all(same(x, y) for x, y in zip(a[1], b[1]))


def pred_alias(case):
    """a derivative routine called twice on the same caller-owned containers: both results must agree with the result
    obtained from pristine python-float copies (which the other items tie to the exact derivative), and every argument
    must be left exactly as it was"""
    P, qp, J = _impl()
    path, kind = case['path'], case['container']
    tol = 1e-5 if kind == 'f32' else TOL
    cs = [float(v) for v in case['cs']]
    cs2 = [float(v) for v in case['cs2']]
    u = np.array(case['u'], dtype=float)
    t = np.array(case['t'], dtype=float)
    x = np.array(case['x'], dtype=float)
    j, m = case['j'], case['m']
    if path == 'jder':
        a, b = case['alpha'], case['beta']
        fn = lambda c_, x_: J.jacobi_sum_clenshaw_der(c_, a, b, x_, j=j)                 # noqa: E731
        args, ref = [container(cs, kind), x], [list(cs), x.copy()]
    elif path == 'qbfsder':
        fn = lambda c_, q_: qp.clenshaw_qbfs_der(c_, q_, j=j)                            # noqa: E731
        args, ref = [container(cs, kind), u * u], [list(cs), u * u]
    elif path == 'q2dder':
        fn = lambda c_, q_: qp.clenshaw_q2d_der(c_, m, q_, j=j)                          # noqa: E731
        args, ref = [container(cs, kind), u * u], [list(cs), u * u]
    elif path == 'zzqbfs':
        fn = lambda c_, u_, q_: np.array(qp.compute_z_zprime_Qbfs(c_, u_, q_))           # noqa: E731
        args, ref = [container(cs, kind), u, u * u], [list(cs), u.copy(), u * u]
    elif path == 'zzqcon':
        fn = lambda c_, u_, q_: np.array(qp.compute_z_zprime_Qcon(c_, u_, q_))           # noqa: E731
        args, ref = [container(cs, kind), u, u * u], [list(cs), u.copy(), u * u]
    elif path == 'zzq2d':
        pad = [[] for _ in range(m - 1)]
        fn = lambda c0, a_, b_, u_, t_: np.array(qp.compute_z_zprime_Q2d(c0, a_, b_, u_, t_))   # noqa: E731
        args = [container(cs, kind), pad + [container(cs2, kind)], pad + [container(cs, kind)], u, t]
        ref = [list(cs), pad + [list(cs2)], pad + [list(cs)], u.copy(), t.copy()]
    elif path == 'zern':
        n_ = m + 2 * (len(cs) % 3)
        fn = lambda r_, t_: np.array(P.zernike_nm_der(n_, -m if j % 2 else m, r_, t_, norm=bool(j % 2)))   # noqa: E731
        args, ref = [u, t], [u.copy(), t.copy()]
    elif path == 'fam':
        kinds = ['he', 'h', 'lag', 'jac', 'legendre', 'cheby1', 'cheby2', 'cheby3', 'cheby4']
        fk = kinds[(j + m) % len(kinds)]
        params = {'lag': (0.5,), 'jac': (case['alpha'], case['beta'])}.get(fk, ())
        n_ = len(cs) + m
        fn = lambda x_: np.array(fam_der(P, fk, n_, params, x_))                         # noqa: E731
        pts = u if fk == 'lag' else x
        args, ref = [pts], [pts.copy()]
    else:
        raise C.ToolError(path)
    r0 = np.array(fn(*ref), dtype=float)
    before = snap(args)
    r1 = np.array(fn(*args), dtype=float)
    mid = snap(args)
    r2 = np.array(fn(*args), dtype=float)
    after = snap(args)
    if not same(before, mid):
        return False, f'{path}: the first call modified its arguments (container {kind})'
    if not same(mid, after):
        return False, f'{path}: the second call modified its arguments (container {kind})'
    sc = float(np.max(np.abs(r0))) if r0.size else 0.0
    if not close(r1, r0, tol, extra_scale=sc):
        return False, f'{path} on a {kind} container: {np.ravel(r1)[:3]}; on pristine python floats: {np.ravel(r0)[:3]}'
    if not close(r2, r0, tol, extra_scale=sc):
        return False, f'{path} on a {kind} container: second evaluation {np.ravel(r2)[:3]} differs from {np.ravel(r0)[:3]} (first was right)'
    return True, ''


def alias_cases(rng, count):
    out = []
    for i in range(count):
        path = ALIAS_PATHS[i % len(ALIAS_PATHS)]
        kind = CONTAINERS[(i // len(ALIAS_PATHS)) % len(CONTAINERS)]
        n = int(rng.integers(1, 8))
        cs = [float(int(v)) for v in rng.integers(-4, 5, n)]
        if not any(cs):
            cs[-1] = 1.0
        a, b = AB[i % len(AB)]
        out.append({'item': 'alias', 'path': path, 'container': kind, 'cs': cs,
                    'cs2': [float(int(v)) for v in rng.integers(-4, 5, int(rng.integers(1, 8)))],
                    'u': [float(v) for v in rng.uniform(0.1, 0.95, 3)], 't': [float(v) for v in rng.uniform(0, 6, 3)],
                    'x': [float(v) for v in rng.uniform(-0.9, 0.9, 3)], 'alpha': a, 'beta': b,
                    'j': 1 + (i // 5) % 4, 'm': 1 + (i // 3) % 4})
    return out



# ------------------------------------------------------------------------------------------------
# argument forms: coordinate dtypes / ranks / scalars, caller-supplied `alphas` buffers
# ------------------------------------------------------------------------------------------------
FORMS = ['i64', 'i32', 'f32', '0d', '2d', '3d', 'f64-strided']
NARROW_FORMS = ('i16', 'i8', 'u8', 'u16', 'bool')
DTYPE_FORMS = ['i64', 'i32', 'i16', 'i8', 'u8', 'u16', 'bool', 'f32']
SCALAR_FORMS = ['pyfloat', 'pyint', 'npfloat']          # only for the routines whose docstring promises scalars (Hermite)
FORM_ROUTINES = ['fam', 'famseq', 'jder', 'qbfsder', 'q2dder', 'zzqbfs', 'zzqcon', 'zzq2d', 'zern', 'zernseq']


def form_points(case):
    """float64 reference coordinates (1-D) for the routine of the case; integer-valued when the form needs it"""
    rt, form = case['routine'], case['form']
    integral = form in ('i64', 'i32', 'pyint') + NARROW_FORMS
    nonneg = form in ('u8', 'u16', 'bool')
    kind = case.get('kind', 'jac')
    if rt in ('fam', 'famseq', 'jder'):
        if integral and nonneg:
            # unsigned / boolean grids: only the non-negative part of the domain is representable
            pts = [0, 1, 1] if form == 'bool' else {'lag': [0, 1, 3], 'he': [0, 1, 2], 'h': [0, 1, 2]}.get(kind, [0, 1, 1])
        elif integral:
            pts = {'lag': [0, 1, 2], 'he': [-1, 0, 2], 'h': [-1, 0, 2]}.get(kind, [-1, 0, 1])
        else:
            pts = case['pts']
    elif integral:
        pts = [0, 1, 1]
    else:
        pts = case['upts']
    return np.array(pts, dtype=float)


def as_form(v, form):
    v = np.asarray(v, dtype=float)
    if form == 'i64':
        return v.astype(np.int64)
    if form == 'i32':
        return v.astype(np.int32)
    if form == 'f32':
        return v.astype(np.float32)
    if form in NARROW_FORMS:
        return v.astype({'i16': np.int16, 'i8': np.int8, 'u8': np.uint8, 'u16': np.uint16, 'bool': bool}[form])
    if form == '0d':
        return np.array(v.ravel()[0])
    if form == '2d':
        return np.stack([v, v[::-1]])
    if form == '3d':
        return np.stack([v, v[::-1]]).reshape(2, 1, v.size)
    if form == 'f64-strided':
        big = np.zeros(2 * v.size)
        big[::2] = v
        return big[::2]
    if form == 'pyfloat':
        return float(v.ravel()[0])
    if form == 'pyint':
        return int(v.ravel()[0])
    if form == 'npfloat':
        return np.float64(v.ravel()[0])
    raise C.ToolError(form)


def ref_form(v, form):
    """the float64 ndarray with the same logical content / shape as as_form(v, form)"""
    v = np.asarray(v, dtype=float)
    if form in ('0d', 'pyfloat', 'pyint', 'npfloat'):
        return np.array(v.ravel()[0])
    if form == '2d':
        return np.stack([v, v[::-1]])
    if form == '3d':
        return np.stack([v, v[::-1]]).reshape(2, 1, v.size)
    return v.copy()


def form_call(case, P, qp, J):
    """fn(coords...) for the routine of the case; coords is (x,) or (r, t)"""
    rt = case['routine']
    cs, cs2, j, m = case['cs'], case['cs2'], case['j'], case['m']
    if rt == 'fam':
        return lambda x: fam_der(P, case['kind'], case['n'], tuple(case['params']), x), 1
    if rt == 'famseq':
        return lambda x: getattr(P, FAM_SEQ[case['kind']])(case['ns'], *case['params'], x), 1
    if rt == 'jder':
        return lambda x: J.jacobi_sum_clenshaw_der(cs, case['alpha'], case['beta'], x, j=j), 1
    if rt == 'qbfsder':
        return lambda u: qp.clenshaw_qbfs_der(cs, u * u, j=j), 1
    if rt == 'q2dder':
        return lambda u: qp.clenshaw_q2d_der(cs, m, u * u, j=j), 1
    if rt == 'zzqbfs':
        return lambda u: np.array(qp.compute_z_zprime_Qbfs(cs, u, u * u)), 1
    if rt == 'zzqcon':
        return lambda u: np.array(qp.compute_z_zprime_Qcon(cs, u, u * u)), 1
    if rt == 'zzq2d':
        pad = [[] for _ in range(m - 1)]
        cm0 = None if case.get('cm0_none') else cs
        return lambda u, t: np.array(qp.compute_z_zprime_Q2d(cm0, pad + [cs2], pad + [cs], u, t)), 2
    if rt == 'zern':
        return lambda r, t: np.array(P.zernike_nm_der(case['zn'], case['zm'], r, t, norm=case['norm'])), 2
    if rt == 'zernseq':
        return lambda r, t: np.array(P.zernike_nm_der_seq([tuple(q) for q in case['nms']], r, t, norm=case['norm'])), 2
    raise C.ToolError(rt)


# ------------------------------------------------------------------------------------------------
# container forms of every sequence argument (helpers shared with harness/c10.py)
# ------------------------------------------------------------------------------------------------
SEQ_KINDS = [('he', ()), ('h', ()), ('lag', (0.5,)), ('jac', (0.5, 1.5)), ('legendre', ()), ('cheby1', ()), ('cheby2', ()),
             ('cheby3', ()), ('cheby4', ())]
SEQ_ARGS = (['jder.s', 'qbfsder.cs', 'q2dder.cns', 'zzqbfs.coefs', 'zzqcon.coefs', 'zzq2d.cm0', 'zzq2d.ams', 'zzq2d.bms',
             'zzq2d.ams-inner', 'zzq2d.bms-inner', 'zzq2d.all', 'zernseq.nms', 'zernseq.rows']
            + [f'derseq.ns/{k}' for k, _ in SEQ_KINDS])
# no known findings: cheby2_der_seq / cheby4_der_seq on one-shot iterables was repaired in cheby.py by its owner (29efa78, listed
# under C08); unsigned coordinate arrays are repaired in the derivative routines (round 5)
KNOWN = {}


def seq_call(case, P, qp, J):
    from harness import c10 as H10
    rt = case['routine']
    cs, j, m = case['cs'], case['j'], case['m']
    x = np.array(case['pts'], dtype=float)
    u = np.array(case['upts'], dtype=float)
    t = np.array(case['tpts'], dtype=float)
    if rt == 'jder.s':
        return lambda W: J.jacobi_sum_clenshaw_der(W(cs), case['alpha'], case['beta'], x, j=j)
    if rt == 'qbfsder.cs':
        return lambda W: qp.clenshaw_qbfs_der(W(cs), u * u, j=j)
    if rt == 'q2dder.cns':
        return lambda W: qp.clenshaw_q2d_der(W(cs), m, u * u, j=j)
    if rt.startswith('derseq.ns/'):
        kind = rt.split('/')[1]
        params = dict(SEQ_KINDS)[kind]
        xx = x + 1.5 if kind == 'lag' else x
        return lambda W: getattr(P, FAM_SEQ[kind])(W(case['ns']), *params, xx)
    if rt == 'zernseq.nms':
        return lambda W: P.zernike_nm_der_seq(W(case['znms']), u, t, norm=case['norm'])
    if rt == 'zernseq.rows':
        return lambda W: P.zernike_nm_der_seq([W(q) for q in case['znms']], u, t, norm=case['norm'])
    return H10.seq_call(case, P, qp, J)         # the sag-and-slope evaluators: all three outputs are compared


def seq_values(case):
    from harness import c10 as H10
    rt = case['routine']
    if rt.startswith('derseq.ns/'):
        return case['ns']
    if rt == 'zernseq.nms':
        return case['znms']
    if rt == 'zernseq.rows':
        return case['znms'][0]
    return H10.seq_values(case)


def seq_extra(rng, i, rt):
    start = int(rng.integers(0, 4))
    consecutive = list(range(start, start + int(rng.integers(1, 6))))
    sparse = sorted(int(v) for v in rng.choice(np.arange(0, 14), size=int(rng.integers(1, 6)), replace=False))
    zn = [(0, 0), (1, 1), (1, -1), (2, 0), (2, 2), (3, -1), (3, 3), (4, 0), (4, -2), (5, 1)]
    pick = sorted(int(v) for v in rng.choice(len(zn), size=int(rng.integers(1, 6)), replace=False))
    return {'j': 1 + i % 3, 'ns': consecutive if i % 2 else sparse, 'znms': [list(zn[q]) for q in pick], 'norm': bool(i % 2)}


def pred_seq(case):
    from harness import c10 as H10
    return H10.pred_seq(case, call=seq_call)


def seq_cases(rng, reps):
    from harness import c10 as H10
    out = H10.seq_cases(rng, reps, args=SEQ_ARGS, values=seq_values, extra=seq_extra)
    # `range` needs consecutive orders: make sure every sequence routine sees one
    for case in out:
        if case['form'] == 'range' and case['routine'].startswith('derseq'):
            break
    else:
        for kind, _ in SEQ_KINDS:
            case = dict(H10.seq_random(rng, 1), item='seqarg', routine=f'derseq.ns/{kind}', form='range')
            case.update(seq_extra(rng, 1, case['routine']))
            out.append(case)
    return out


def pred_forms(case):
    """(coords) the routine on int / float32 / 0-d / 2-D / scalar coordinates must return what it returns on the float64
    array with the same values;  (buffer) with a caller-supplied `alphas` buffer, zeroed or dirty, the routine must return
    the same table as without one and leave it in the buffer"""
    P, qp, J = _impl()
    if case['item'] == 'signedm':
        cs, j, m = case['cs'], case['j'], case['m']
        usq = np.array(case['upts'], dtype=float) ** 2
        exp = np.array(qp.clenshaw_q2d_der(cs, m, usq, j=j), dtype=float)
        got = np.array(qp.clenshaw_q2d_der(cs, -m, usq, j=j), dtype=float)
        sc = float(np.max(np.abs(exp))) if exp.size else 0.0
        return (got.shape == exp.shape and close(got, exp, extra_scale=sc)), (
            f'clenshaw_q2d_der(m=-{m}) table {np.ravel(got)[:4]}; with m=+{m} (the radial polynomials are those of |m|) {np.ravel(exp)[:4]}')
    if case['item'] == 'buffer':
        rt, cs, j, m = case['routine'], case['cs'], case['j'], case['m']
        x = np.array(case['pts'] if rt == 'jder' else case['upts'], dtype=float)
        if case.get('rank2'):
            x = np.stack([x, x[::-1]])
        if rt == 'jder':
            fn = lambda **kw: J.jacobi_sum_clenshaw_der(cs, case['alpha'], case['beta'], x, j=j, **kw)   # noqa: E731
        elif rt == 'qbfsder':
            fn = lambda **kw: qp.clenshaw_qbfs_der(cs, x * x, j=j, **kw)                                  # noqa: E731
        elif rt == 'q2dder':
            fn = lambda **kw: qp.clenshaw_q2d_der(cs, m, x * x, j=j, **kw)                                # noqa: E731
        elif rt == 'jsum':
            fn = lambda **kw: J.jacobi_sum_clenshaw(cs, case['alpha'], case['beta'], x, **kw)             # noqa: E731
        elif rt == 'qbfs':
            fn = lambda **kw: qp.clenshaw_qbfs(cs, x * x, **kw)                                           # noqa: E731
        elif rt == 'q2dalphas':
            fn = lambda **kw: qp.clenshaw_q2d(cs, m, x * x, **kw)                                         # noqa: E731
        else:
            raise C.ToolError(rt)
        exp = np.array(fn(), dtype=float)
        shape = ((j + 1, len(cs), *x.shape) if rt in ('jder', 'qbfsder', 'q2dder') else (len(cs), *x.shape))
        buf = np.full(shape, 7.25 if case['fill'] == 'dirty' else 0.0)
        got = np.array(fn(alphas=buf), dtype=float)
        sc = float(np.max(np.abs(exp))) if exp.size else 0.0
        if got.shape != exp.shape or not close(got, exp, extra_scale=sc):
            return False, (f'{rt} with a {case["fill"]} caller-supplied alphas buffer returns {np.ravel(got)[:4]}; '
                           f'without a buffer {np.ravel(exp)[:4]}')
        if rt in ('jder', 'qbfsder', 'q2dder', 'q2dalphas'):      # these return the table itself
            if not close(buf, exp, extra_scale=sc):
                return False, f'{rt}: the documented alphas buffer was not filled with the table (buffer {np.ravel(buf)[:4]}, table {np.ravel(exp)[:4]})'
        else:                                                      # the value sweeps return alphas[0] / the surface
            al = np.array(buf, dtype=float)
            if rt == 'jsum' and not close(al[0], exp, extra_scale=sc):
                return False, 'jsum: alphas[0] of the supplied buffer is not the returned sum'
        return True, ''
    fn, ncoord = form_call(case, P, qp, J)
    form = case['form']
    v = form_points(case)
    tv = np.array(case['tpts'], dtype=float)[:v.size]
    if form in ('i64', 'i32', 'pyint') + NARROW_FORMS:
        tv = np.round(tv)
    if form in ('u8', 'u16', 'bool'):
        tv = np.clip(tv, 0, 1 if form == 'bool' else 6)
    coords = [v] if ncoord == 1 else [v, tv]
    exp = np.array(fn(*[ref_form(c, form) for c in coords]), dtype=float)
    got = np.array(fn(*[as_form(c, form) for c in coords]), dtype=float)
    tol = 1e-4 if form == 'f32' else TOL
    sc = float(np.max(np.abs(exp))) if exp.size else 0.0
    if got.shape != exp.shape:
        return False, f'{case["routine"]} on {form} coordinates: shape {got.shape}, on the float64 array {exp.shape}'
    if not close(got, exp, tol, extra_scale=sc):
        return False, (f'{case["routine"]} on {form} coordinates {np.ravel(as_form(v, form))[:3] if form not in SCALAR_FORMS else as_form(v, form)}: '
                       f'{np.ravel(got)[:4]}; on the float64 array with the same values: {np.ravel(exp)[:4]}')
    return True, ''


def form_cases(rng, count, thorough=False):
    kinds = [('he', ()), ('h', ()), ('lag', (0.5,)), ('jac', (0.5, 1.5)), ('jac', (0.0, 0.0)), ('legendre', ()), ('cheby1', ()),
             ('cheby2', ()), ('cheby3', ()), ('cheby4', ())]
    out = []
    i = 0
    while len(out) < count:
        rt = FORM_ROUTINES[i % len(FORM_ROUTINES)]
        kind, params = kinds[(i // len(FORM_ROUTINES)) % len(kinds)]
        allowed = FORMS + (SCALAR_FORMS if (rt in ('fam', 'famseq') and kind in ('he', 'h')) else [])
        form = allowed[(i // 3) % len(allowed)]
        n = int(rng.integers(1, 6))
        cs = [float(int(v)) / 2 for v in rng.integers(-6, 7, n)]
        if not any(cs):
            cs[-1] = 1.0
        a, b = AB[i % len(AB)]
        zn = int(rng.integers(0, 7))
        zm = int(rng.choice(range(-zn, zn + 1, 2)))
        case = {'item': 'coords', 'routine': rt, 'form': form, 'kind': kind, 'params': list(params), 'n': int(rng.integers(0, 9)),
                'ns': [[0, 1, 2, 3], [1, 4], [0], [2, 3, 7], [0, 5, 6]][i % 5], 'cs': cs,
                'cs2': [float(int(v)) / 2 for v in rng.integers(-6, 7, int(rng.integers(1, 6)))],
                'alpha': a, 'beta': b, 'j': 1 + (i // 7) % 3, 'm': 1 + (i // 5) % 3, 'zn': zn, 'zm': zm, 'norm': bool(i % 2),
                'nms': [[2, 0], [1, 1], [3, -1], [2, -2]][: 1 + i % 4], 'cm0_none': bool(rt == 'zzq2d' and i % 4 == 0),
                'pts': [float(v) for v in (rng.uniform(0.05, 2.5, 3) if kind == 'lag' else rng.uniform(-0.9, 0.9, 3))],
                'upts': [float(v) for v in rng.uniform(0.05, 0.95, 3)], 'tpts': [float(v) for v in rng.uniform(0, 6, 3)]}
        out.append(case)
        i += 1
    return out


def dtype_cases(rng, thorough=False):
    """EVERY derivative entry point x EVERY coordinate dtype (int64 .. int8, unsigned, bool, float32) x low orders (0, 1, 2, ... :
    the special-cased branches) - systematic, not sampled: the result must be the float64 result on the same points"""
    kinds = [('he', ()), ('h', ()), ('lag', (0.5,)), ('lag', (0.0,)), ('jac', (0.5, 1.5)), ('jac', (-0.5, -0.5)), ('jac', (0.0, 0.0)),
             ('legendre', ()), ('cheby1', ()), ('cheby2', ()), ('cheby3', ()), ('cheby4', ())]
    base = form_cases(rng, 1)[0]
    out = []
    for form in DTYPE_FORMS:
        for kind, params in kinds:
            for n in ((0, 1, 2, 3, 4, 6) if not thorough else range(0, 9)):
                out.append(dict(base, routine='fam', form=form, kind=kind, params=list(params), n=n))
            for ns in ([0, 1, 2, 3], [1], [1, 4], [2, 3, 7]):
                out.append(dict(base, routine='famseq', form=form, kind=kind, params=list(params), ns=ns))
        for i, rt in enumerate(['jder', 'qbfsder', 'q2dder', 'zzqbfs', 'zzqcon', 'zzq2d']):
            for ncs in (1, 2, 4):
                cs = [0.5 + 0.25 * k for k in range(ncs)]
                for j in (1, 2):
                    out.append(dict(base, routine=rt, form=form, cs=cs, cs2=cs[::-1], j=j, m=1 + (ncs + j) % 3, alpha=-0.5, beta=-0.5,
                                    cm0_none=False))
        for zn, zm in ((0, 0), (1, 1), (1, -1), (2, 0), (2, 2), (3, -1), (4, 0)):
            for nrm in (False, True):
                out.append(dict(base, routine='zern', form=form, zn=zn, zm=zm, norm=nrm))
        out.append(dict(base, routine='zernseq', form=form, nms=[[0, 0], [1, 1], [1, -1], [2, 0]], norm=True))
    return out


def buffer_cases(rng, count):
    out = []
    for i in range(count):
        rt = ['jder', 'qbfsder', 'q2dder', 'jsum', 'qbfs', 'q2dalphas'][i % 6]
        n = int(rng.integers(1, 7))
        a, b = AB[i % len(AB)]
        out.append({'item': 'buffer', 'routine': rt, 'fill': ['dirty', 'zero'][(i // 6) % 2], 'cs': [float(v) for v in rng.uniform(-1, 1, n)],
                    'j': 1 + (i // 3) % 4, 'm': 1 + (i // 5) % 3, 'alpha': a, 'beta': b, 'rank2': bool((i // 12) % 2),
                    'pts': [float(v) for v in rng.uniform(-0.9, 0.9, 2)], 'upts': [float(v) for v in rng.uniform(0.05, 0.95, 2)]})
    return out


def pred(case):
    """(ok, detail): is the derivative routine the formal derivative of the value routine on this input?"""
    P, qp, J = _impl()
    it = case['item']
    try:
        if it == 'alias':
            return I(pred_alias, case)
        if it in ('coords', 'buffer', 'signedm'):
            return I(pred_forms, case)
        if it == 'seqarg':
            return I(pred_seq, case)
        if it == 'jder':
            s, a, b, j = case['s'], case['alpha'], case['beta'], case['j']
            x = np.asarray(case['x'], dtype=float)
            al = I(J.jacobi_sum_clenshaw_der, s, a, b, x, j=j)
            tot = QP([0])
            for n, c in enumerate(s):
                if c:
                    tot = tot + value_poly('jac', n, (a, b)) * fr(c)
            for jj in range(j + 1):
                exp = np.array([float(tot.deriv(jj)(v)) for v in x.ravel()])
                got = np.asarray(al[jj][0], dtype=float).ravel()
                if not close(got, exp, extra_scale=float(np.max(np.abs(np.asarray(al[jj], dtype=float))))):
                    return False, f'derivative order {jj}: alphas[{jj}][0]={got[:3]} formal derivative of sum s_n P_n={exp[:3]}'
            return True, ''
        if it == 'qbfsder':
            cs, j = case['cs'], case['j']
            u = np.asarray(case['u'], dtype=float)
            al = I(qp.clenshaw_qbfs_der, cs, u * u, j=j)
            S = qbfs_S_poly(qp, cs)
            for jj in range(j + 1):
                exp = np.array([float(S.deriv(jj)(fr(v) * fr(v))) for v in u.ravel()])
                row = np.asarray(al[jj], dtype=float)
                got = 2 * (row[0] + (row[1] if len(cs) > 1 else 0.0))
                if not close(np.ravel(got), exp, extra_scale=float(np.max(np.abs(row)))):
                    return False, f'derivative order {jj}: 2(alphas[{jj}][0]+alphas[{jj}][1])={np.ravel(got)[:3]} d^{jj}/dx^{jj} sum c_n Q_n={exp[:3]}'
            return True, ''
        if it == 'q2dder':
            cs, m, j = case['cs'], case['m'], case['j']
            u = np.asarray(case['u'], dtype=float)
            al = I(qp.clenshaw_q2d_der, cs, m, u * u, j=j)
            S = q2d_S_poly(cs, m)
            for jj in range(j + 1):
                exp = np.array([float(S.deriv(jj)(fr(v) * fr(v))) for v in u.ravel()])
                row = np.asarray(al[jj], dtype=float)
                got = 0.5 * row[0] - (0.4 * row[3] if (m == 1 and len(cs) > 3) else 0.0)
                if not close(np.ravel(got), exp, extra_scale=float(np.max(np.abs(row)))):
                    return False, f'derivative order {jj}: read-out={np.ravel(got)[:3]} d^{jj}/dx^{jj} sum c_n Q_n^m={exp[:3]}'
            return True, ''
        if it == 'fam':
            kind, n, params = case['kind'], case['n'], tuple(case['params'])
            x = np.asarray(case['x'], dtype=float)
            got = np.asarray(I(fam_der, P, kind, n, params, x), dtype=float)
            dp = value_poly(kind, n, params).deriv()
            exp = np.array([float(dp(v)) for v in x.ravel()]).reshape(x.shape)
            return (got.shape == x.shape and close(got, exp)), f'{FAM_DER[kind]}({n})={got.ravel()[:3]} formal derivative={exp.ravel()[:3]}'
        if it == 'famseq':
            kind, ns, params = case['kind'], case['ns'], tuple(case['params'])
            x = np.asarray(case['x'], dtype=float)
            got = np.asarray(I(getattr(P, FAM_SEQ[kind]), ns, *params, x), dtype=float)
            exp = np.asarray([I(fam_der, P, kind, n, params, x) for n in ns], dtype=float)
            ok = got.shape == (len(ns), *x.shape) and close(got, exp)
            return ok, f'{FAM_SEQ[kind]}({ns}) shape {got.shape} differs from one-at-a-time evaluation'
        if it == 'zern':
            n, m, norm = case['n'], case['m'], case['norm']
            r = np.asarray(case['r'], dtype=float)
            t = np.asarray(case['t'], dtype=float)
            dr, dt = I(P.zernike_nm_der, n, m, r, t, norm=norm)
            edr = np.array([float(value_poly('zern', n, (m, float(tv), norm)).deriv()(rv)) for rv, tv in zip(r.ravel(), t.ravel())])
            if m == 0:
                edt = np.zeros(r.size)
            else:
                edt = (-m) * np.asarray(I(P.zernike_nm, n, -m, r, t, norm=norm), dtype=float).ravel()
            ok = close(np.ravel(dr), edr) and close(np.ravel(dt), edt)
            return ok, f'dr={np.ravel(dr)[:3]} formal={edr[:3]} dt={np.ravel(dt)[:3]} expected={edt[:3]}'
        if it == 'zernseq':
            nms = [tuple(p) for p in case['nms']]
            r = np.asarray(case['r'], dtype=float)
            t = np.asarray(case['t'], dtype=float)
            got = np.asarray(I(P.zernike_nm_der_seq, nms, r, t, norm=case['norm']), dtype=float)
            exp = np.asarray([I(P.zernike_nm_der, n, m, r, t, norm=case['norm']) for n, m in nms], dtype=float)
            return (got.shape == exp.shape and close(got, exp)), 'zernike_nm_der_seq differs from one-at-a-time evaluation'
        if it in ('zzqbfs', 'zzqcon'):
            cs = case['cs']
            u = np.asarray(case['u'], dtype=float)
            fn = qp.compute_z_zprime_Qbfs if it == 'zzqbfs' else qp.compute_z_zprime_Qcon
            S, Sp = I(fn, cs, u, u * u)
            tot = QP([0])
            for n, c in enumerate(cs):
                if c:
                    tot = tot + value_poly('qbfs' if it == 'zzqbfs' else 'qcon', n) * fr(c)
            eS = np.array([float(tot(v)) for v in u.ravel()])
            eSp = np.array([float(tot.deriv()(v)) for v in u.ravel()])
            ok = close(np.ravel(S), eS) and close(np.ravel(Sp), eSp)
            return ok, f'S={np.ravel(S)[:3]} sum={eS[:3]}  Sprime={np.ravel(Sp)[:3]} formal derivative={eSp[:3]}'
        if it == 'zzq2d':
            u = np.asarray(case['u'], dtype=float)
            t = np.asarray(case['t'], dtype=float)
            z, dr, dt = I(qp.compute_z_zprime_Q2d, case['cm0'], case['ams'], case['bms'], u, t)
            ez, edr, edt = [], [], []
            for uv, tv in zip(u.ravel(), t.ravel()):
                zp, dtp = q2d_sag_poly(case['cm0'], case['ams'], case['bms'], float(tv))
                ez.append(float(zp(uv)))
                edr.append(float(zp.deriv()(uv)))
                edt.append(float(dtp(uv)))
            ok = close(np.ravel(z), ez) and close(np.ravel(dr), edr) and close(np.ravel(dt), edt)
            return ok, (f'z={np.ravel(z)[:2]} sum={ez[:2]}  dr={np.ravel(dr)[:2]} d/du={edr[:2]}  '
                        f'dt={np.ravel(dt)[:2]} d/dt={edt[:2]}')
        if it in ('sconic', 'sdircos', 'soac', 'sq2d'):
            return pred_surface(case)
    except C.ToolError:
        raise
    except ImplRaised as ex:
        return False, str(ex)
    except NotApplicable:
        raise
    except Exception as ex:       # raised while forming the exact reference on polynomial / dual-number objects
        raise NotApplicable(f'{it}: {type(ex).__name__}: {ex}')
    raise C.ToolError(f'unknown item {it}')


def _surf():
    return importlib.import_module('prysm.x.raytracing.surfaces')


def q2d_value(qp, cm0, ams, bms, u, t):
    """sum c_nm Q2d(n, m, u, t) with prysm's value routine (u or t may be a Dual)"""
    tot = 0.0
    for n, c in enumerate(cm0):
        if c:
            tot = tot + c * qp.Q2d(n, 0, u, t)
    for k, a in enumerate(ams):
        for n, c in enumerate(a):
            if c:
                tot = tot + c * qp.Q2d(n, k + 1, u, t)
    for k, b in enumerate(bms):
        for n, c in enumerate(b):
            if c:
                tot = tot + c * qp.Q2d(n, -(k + 1), u, t)
    return tot


def pred_surface(case):
    S = _surf()
    P, qp, J = _impl()
    it = case['item']
    c, k = case['c'], case['kappa']
    if it == 'sconic':
        rho = np.asarray(case['rho'], dtype=float)
        if case.get('sphere'):
            got = I(S.sphere_sag_der, c, rho)
            exp = [ad(lambda r: S.sphere_sag(c, r * r), v)[1] for v in rho]
            name = 'sphere_sag_der'
        else:
            got = I(S.conic_sag_der, c, k, rho)
            exp = [ad(lambda r: S.conic_sag(c, k, r * r), v)[1] for v in rho]
            name = 'conic_sag_der'
        return close(got, exp), f'{name}={np.ravel(got)[:3]} derivative of the sag={np.asarray(exp)[:3]}'
    if it == 'sdircos':
        rho = np.asarray(case['rho'], dtype=float)
        got = I(S.der_direction_cosine_spheroid, c, k, rho)
        exp = [ad(lambda r: 1 / S.phi_spheroid(c, k, r * r), v)[1] for v in rho]
        return close(got, exp), f'der_direction_cosine_spheroid={np.ravel(got)[:3]} derivative of 1/phi={np.asarray(exp)[:3]}'
    r = np.asarray(case['r'], dtype=float)
    t = np.asarray(case['t'], dtype=float)
    dx, dy = case['dx'], case['dy']
    if it == 'soac':
        dr, dt = I(S.off_axis_conic_der, c, k, r, t, dx, dy)
        sr, st = I(S.off_axis_conic_sigma_der, c, k, r, t, dx, dy)
        edr = [ad(lambda q: S.off_axis_conic_sag(c, k, q, tv, dx, dy), rv)[1] for rv, tv in zip(r, t)]
        edt = [ad(lambda q: S.off_axis_conic_sag(c, k, rv, q, dx, dy), tv)[1] for rv, tv in zip(r, t)]
        esr = [ad(lambda q: 1 / S.off_axis_conic_sigma(c, k, q, tv, dx, dy), rv)[1] for rv, tv in zip(r, t)]
        est = [ad(lambda q: 1 / S.off_axis_conic_sigma(c, k, rv, q, dx, dy), tv)[1] for rv, tv in zip(r, t)]
        ok = close(dr, edr) and close(dt, edt) and close(sr, esr) and close(st, est)
        return ok, (f'off_axis_conic_der=({np.ravel(dr)[:2]}, {np.ravel(dt)[:2]}) d(sag)=({np.asarray(edr)[:2]}, {np.asarray(edt)[:2]}); '
                    f'off_axis_conic_sigma_der=({np.ravel(sr)[:2]}, {np.ravel(st)[:2]}) d(1/sigma)=({np.asarray(esr)[:2]}, {np.asarray(est)[:2]})')
    if it == 'sq2d':
        Rn = case['R']
        x, y = (r * np.cos(t))[None, :], (r * np.sin(t))[None, :]
        z, zr, zt = I(S.Q2d_and_der, case['cm0'], case['ams'], case['bms'], x, y, Rn, c, k, dx, dy)

        def val(rv, tv):
            return q2d_value(qp, case['cm0'], case['ams'], case['bms'], rv / Rn, tv) / S.off_axis_conic_sigma(c, k, rv, tv, dx, dy) \
                + S.off_axis_conic_sag(c, k, rv, tv, dx, dy)
        ez = [Dual.lift(val(rv, tv)).v for rv, tv in zip(r, t)]
        ezr = [ad(lambda q: val(q, tv), rv)[1] for rv, tv in zip(r, t)]
        ezt = [ad(lambda q: val(rv, q), tv)[1] for rv, tv in zip(r, t)]
        ok = close(np.ravel(z), ez) and close(np.ravel(zr), ezr) and close(np.ravel(zt), ezt)
        return ok, (f'Q2d_and_der=({np.ravel(z)[:2]}, {np.ravel(zr)[:2]}, {np.ravel(zt)[:2]}) sag and its derivatives='
                    f'({np.asarray(ez)[:2]}, {np.asarray(ezr)[:2]}, {np.asarray(ezt)[:2]})')
    raise C.ToolError(it)


def pred_safe(case, ctx=None):
    """pred, with 'the exact reference could not be formed on the harness's exotic objects' turned into a note"""
    try:
        return pred(case)
    except NotApplicable as ex:
        if ctx is not None:
            ctx.filtered_known['exact-reference-not-applicable'] += 1
            if len(ctx.notes) < 5:
                ctx.notes.append(f'exact reference not applicable ({ex}); case covered by the model correspondence only')
        return True, f'not evaluated: {ex}'


# ------------------------------------------------------------------------------------------------
# correspondence
# ------------------------------------------------------------------------------------------------
AB = [(0.0, 0.0), (-0.5, -0.5), (0.5, 0.5), (-0.5, 0.5), (0.5, -0.5), (1.0, 2.3), (2.3, -0.9), (0.0, 4.0), (0.25, -0.25), (0.0, 3.0)]
AB_Q = [(Fraction(1, 2), Fraction(3, 2)), (Fraction(1), Fraction(2)), (Fraction(-1, 3), Fraction(5, 2)), (Fraction(7, 3), Fraction(-2, 5))]


def q2d_content(rng, kind, mmax, nmax):
    def vec(n):
        return [float(v) for v in rng.uniform(-1, 1, n)]
    M = int(rng.integers(1, mmax + 1))
    cm0 = vec(int(rng.integers(1, nmax + 1))) if rng.uniform() < 0.6 else []
    ams, bms = [], []
    for m in range(1, M + 1):
        na, nb = int(rng.integers(1, nmax + 1)), int(rng.integers(1, nmax + 1))
        if kind == 'cos':
            ams.append(vec(na) if rng.uniform() < 0.8 else [])
            bms.append([])
        elif kind == 'sin':
            ams.append([])
            bms.append(vec(nb) if rng.uniform() < 0.8 else [])
        elif kind == 'mixed':
            ams.append(vec(na))
            bms.append(vec(nb))
        else:
            r = rng.uniform()
            ams.append(vec(na) if r < 0.5 else [])
            bms.append(vec(nb) if r >= 0.35 else [])
    if kind == 'ragged':
        Ma, Mb = int(rng.integers(0, mmax + 1)), int(rng.integers(0, mmax + 1))
        if Ma == Mb:
            Mb = (Mb + 1) % (mmax + 1)
        ams = [vec(int(rng.integers(1, nmax + 1))) for _ in range(Ma)]
        bms = [vec(int(rng.integers(1, nmax + 1))) for _ in range(Mb)]
    if kind == 'm1long':
        ams = [vec(int(rng.integers(4, nmax + 4)))]
        bms = [vec(int(rng.integers(1, 4)))]
        if rng.uniform() < 0.5:
            ams, bms = bms, ams
    if kind == 'len1':
        ams = [[float(rng.uniform(0.5, 1))] for _ in range(M)]
        bms = [[float(rng.uniform(0.5, 1))] if rng.uniform() < 0.5 else [] for _ in range(M)]
    return cm0, ams, bms


def q2d_line(qp, op, w, u, t, cm0, ams, bms, mode='f'):
    f, g, h = qbfs_fgh(qp, len(cm0))
    nb = max(len(ams), len(bms))
    toks = [mode, op, w(u), wl(cm0, w), wl(f, w), wl(g, w), wl(h, w), str(nb)]
    for m in range(1, nb + 1):
        a = ams[m - 1] if m <= len(ams) else []
        b = bms[m - 1] if m <= len(bms) else []
        fq, gq = q2d_fg(qp, m, max(len(a), len(b)))
        toks += [w(float(np.cos(m * t))), w(float(np.sin(m * t))), wl(a, w), wl(b, w), wl(fq, w), wl(gq, w)]
    toks += [str(len(ams)), str(len(bms))]
    return ' '.join(toks)



def corpus_cases():
    import glob
    import json
    import os
    return [json.load(open(path)) for path in sorted(glob.glob(os.path.join(C.VERIF, 'corpus', 'C09', '*.json')))]


def correspondence(ctx):
    P, qp, J = _impl()
    rng = ctx.rng
    for case in corpus_cases():     # minimised inputs that failed on the pinned tree: always run first
        ctx.case(case['item'], case, nontrivial=True, tag='corpus')
        ok_, detail_ = pred_safe(case, ctx)
        if not ok_:
            ctx.pred_fail(case['item'], case, detail_)
    nmax = ctx.scale(10, 12)
    if ctx.widen:
        nmax = 12
    lines, todo = [], []

    def add(line, fn):
        lines.append(line)
        todo.append(fn)

    def run_pred(item, case):
        ok, detail = pred_safe(case, ctx)
        if not ok:
            ctx.pred_fail(item, case, detail)

    # ------------------------------------------------ jacobi_sum_clenshaw_der
    cc = coef_cases(rng, nmax)
    for ci, (n, kind, pos) in enumerate(cc * ctx.scale(3, 10)):
        for j in ((1, 2, 3, 4) if ctx.thorough else (1 + ci % 4, 1 + (ci + 2) % 4)):
            s = coef_vector(rng, n, kind, pos)
            a, b = AB[(ci + j) % len(AB)]
            x = rng.uniform(-0.95, 0.95, 3)
            case = {'item': 'jder', 's': s, 'alpha': a, 'beta': b, 'x': x.tolist(), 'j': j}
            ctx.case('jder', case, nontrivial=any(s), tag=f'j{j}/{kind}/{"len1" if n == 1 else "len2" if n == 2 else "j>M" if j > n - 1 else "len3+"}')
            run_pred('jder', case)
            try:
                tab = np.asarray(J.jacobi_sum_clenshaw_der(s, a, b, x, j=j), dtype=float)
            except Exception as ex:
                tab = f'raised {type(ex).__name__}: {ex}'
            for k, xv in enumerate(x):
                exact = (k == 0 and ci % 3 == 0)
                w = fw if exact else C.f2w

                def chk(rep, case=case, tab=tab, k=k, n=n, j=j, exact=exact):
                    rows, formal = rep.split('|')
                    conv = (lambda v: float(Fraction(v))) if exact else C.w2f
                    mt = np.array([conv(v) for v in rows.split()]).reshape(j + 1, n)
                    mf = np.array([conv(v) for v in formal.split()])
                    if isinstance(tab, str):
                        ctx.disagree('jder', case, tab, mt.tolist())
                        return
                    for jj in range(j + 1):
                        sc = float(np.max(np.abs(mt[jj])))
                        if not close(tab[jj, :, k], mt[jj], extra_scale=sc):
                            ctx.disagree('jder', case, tab[jj, :, k].tolist(), mt[jj].tolist(), f'row {jj}')
                        if exact and not close(mt[jj, 0], mf[jj], extra_scale=sc):
                            ctx.disagree('jder', case, 'model table', f'row {jj}: {mt[jj, 0]} != model formal derivative {mf[jj]}', 'model self-check')
                add(f'{"q" if exact else "f"} jder {j} {w(a)} {w(b)} {w(xv)} {wl(s, w)}', chk)

    # exact: Fraction object arrays through prysm's own code
    clear_abc_cache(J)
    for ci, (n, kind, pos) in enumerate(coef_cases(rng, ctx.scale(7, 10))):
        j = 1 + ci % 4
        s = [Fraction(int(round(v * 12)), 12) for v in coef_vector(rng, n, kind, pos)]
        if not any(s):
            s[pos % n] = Fraction(1)
        a, b = AB_Q[ci % len(AB_Q)]
        xs = [Fraction(int(rng.integers(-9, 10)), 10) for _ in range(2)]
        case = {'item': 'jder-exact', 's': [str(v) for v in s], 'alpha': str(a), 'beta': str(b), 'x': [str(v) for v in xs], 'j': j}
        ctx.case('jder-exact', case, nontrivial=True, tag=f'j{j}/{kind}')
        try:
            tab = J.jacobi_sum_clenshaw_der(s, a, b, np.array(xs, dtype=object), j=j)
            if not all(isinstance(v, (Fraction, int)) for v in np.ravel(tab)):
                raise TypeError('the result left exact arithmetic (a float dtype is forced somewhere on the path)')
        except Exception as ex:
            tab = f'raised {type(ex).__name__}: {ex}'
        for k, xv in enumerate(xs):
            def chk(rep, case=case, tab=tab, k=k, n=n, j=j):
                rows, formal = rep.split('|')
                mt = [Fraction(v) for v in rows.split()]
                mf = [Fraction(v) for v in formal.split()]
                if isinstance(tab, str):       # prysm does not run on Fraction object arrays (any more): exact stream not applicable
                    ctx.filtered_known['exact-stream-not-applicable'] += 1
                    if len(ctx.notes) < 5:
                        ctx.notes.append(f'jder-exact not applicable: {tab}')
                    return
                for jj in range(j + 1):
                    for i in range(n):
                        if Fraction(tab[jj][i][k]) != mt[jj * n + i]:
                            ctx.disagree('jder-exact', case, str(tab[jj][i][k]), str(mt[jj * n + i]), f'alphas[{jj}][{i}]')
                            return
                    if Fraction(tab[jj][0][k]) != mf[jj]:
                        ctx.pred_fail('jder-exact', case, f'alphas[{jj}][0] = {tab[jj][0][k]} but the {jj}-th derivative of the sum is {mf[jj]}')
                        return
            add(f'q jder {j} {C.q2w(a)} {C.q2w(b)} {C.q2w(xv)} {wl(s, C.q2w)}', chk)
    clear_abc_cache(J)

    # ------------------------------------------------ clenshaw_qbfs_der / clenshaw_q2d_der
    for ci, (n, kind, pos) in enumerate(cc * ctx.scale(5, 24)):
        j = 1 + ci % 4
        cs = coef_vector(rng, n, kind, pos)
        u = rng.uniform(0.1, 0.95, 2)
        case = {'item': 'qbfsder', 'cs': cs, 'u': u.tolist(), 'j': j}
        ctx.case('qbfsder', case, nontrivial=any(cs), tag=f'j{j}/{kind}/{"len1" if n == 1 else "len2" if n == 2 else "j>M" if j > n - 1 else "len3+"}')
        run_pred('qbfsder', case)
        try:
            tab = np.asarray(qp.clenshaw_qbfs_der(cs, u * u, j=j), dtype=float)
        except Exception as ex:
            tab = f'raised {type(ex).__name__}: {ex}'
        f, g, h = qbfs_fgh(qp, n)
        for k, uv in enumerate(u):
            exact = (k == 0 and ci % 4 == 0)
            w = fw if exact else C.f2w

            def chk(rep, case=case, tab=tab, k=k, n=n, j=j, exact=exact):
                rows, formal = rep.split('|')
                conv = (lambda v: float(Fraction(v))) if exact else C.w2f
                mt = np.array([conv(v) for v in rows.split()]).reshape(j + 1, n)
                mf = np.array([conv(v) for v in formal.split()])
                if isinstance(tab, str):
                    ctx.disagree('qbfsder', case, tab, mt.tolist())
                    return
                for jj in range(j + 1):
                    sc = float(np.max(np.abs(mt[jj])))
                    if not close(tab[jj, :, k], mt[jj], extra_scale=sc):
                        ctx.disagree('qbfsder', case, tab[jj, :, k].tolist(), mt[jj].tolist(), f'row {jj}')
                    read = 2 * (mt[jj, 0] + (mt[jj, 1] if n > 1 else 0.0))
                    if exact and not close(read, mf[jj], 1e-7, extra_scale=sc):
                        ctx.disagree('qbfsder', case, 'model table', f'row {jj}: {read} != model formal derivative {mf[jj]}', 'model self-check')
            xx = float(uv) * float(uv)
            add(f'{"q" if exact else "f"} qbfsder {j} {w(xx)} {wl(cs, w)} {wl(f, w)} {wl(g, w)} {wl(h, w)}', chk)

        m = (1, 1, 2, 3, 4, 6)[ci % 6]
        cs = coef_vector(rng, n, kind, pos)
        case = {'item': 'q2dder', 'cs': cs, 'm': m, 'u': u.tolist(), 'j': j}
        ctx.case('q2dder', case, nontrivial=any(cs), tag=f'm{min(m, 4)}/j{j}/{"len<=3" if n <= 3 else "len>3"}')
        run_pred('q2dder', case)
        try:
            tab = np.asarray(qp.clenshaw_q2d_der(cs, m, u * u, j=j), dtype=float)
        except Exception as ex:
            tab = f'raised {type(ex).__name__}: {ex}'
        fq, gq = q2d_fg(qp, m, n)
        for k, uv in enumerate(u):
            exact = (k == 0 and ci % 4 == 1)
            w = fw if exact else C.f2w

            def chk(rep, case=case, tab=tab, k=k, n=n, j=j, exact=exact):
                rows, reads, formal = rep.split('|')
                conv = (lambda v: float(Fraction(v))) if exact else C.w2f
                mt = np.array([conv(v) for v in rows.split()]).reshape(j + 1, n)
                mr = np.array([conv(v) for v in reads.split()])
                mf = np.array([conv(v) for v in formal.split()])
                if isinstance(tab, str):
                    ctx.disagree('q2dder', case, tab, mt.tolist())
                    return
                for jj in range(j + 1):
                    sc = float(np.max(np.abs(mt[jj])))
                    if not close(tab[jj, :, k], mt[jj], extra_scale=sc):
                        ctx.disagree('q2dder', case, tab[jj, :, k].tolist(), mt[jj].tolist(), f'row {jj}')
                    if exact and not close(mr[jj], mf[jj], 1e-7, extra_scale=sc):
                        ctx.disagree('q2dder', case, 'model table', f'row {jj}: {mr[jj]} != model formal derivative {mf[jj]}', 'model self-check')
            xx = float(uv) * float(uv)
            add(f'{"q" if exact else "f"} q2dder {j} {m} {w(xx)} {wl(cs, w)} {wl(fq, w)} {wl(gq, w)}', chk)

    # ------------------------------------------------ closed forms, all families
    fams = [('he', ()), ('h', ()), ('lag', (0.0,)), ('lag', (1.5,)), ('lag', (-0.5,)), ('jac', (0.0, 0.0)), ('jac', (1.0, 2.3)),
            ('jac', (-0.5, 0.5)), ('jac', (0.0, 3.0)), ('jac', (2.3, -0.9)), ('legendre', ()), ('cheby1', ()), ('cheby2', ()),
            ('cheby3', ()), ('cheby4', ())]
    orders = list(range(0, ctx.scale(17, 31)))
    for fi, (kind, params) in enumerate(fams):
        lo, hi = (0.05, 3.0) if kind == 'lag' else (-1.5, 1.5) if kind in ('he', 'h') else (-0.95, 0.95)
        for n in list(orders) + ([] if ctx.thorough else [20, 25, 30]):
            if not ctx.thorough and 6 < n < 20 and (n + fi) % 3:
                continue
            x = rng.uniform(lo, hi, (2, 2) if n % 2 else 3)
            case = {'item': 'fam', 'kind': kind, 'n': n, 'params': list(params), 'x': x.tolist()}
            ctx.case('fam', case, nontrivial=True, tag=f'{kind}/{"n0" if n == 0 else "n1" if n == 1 else "n2+"}')
            run_pred('fam', case)
            if kind in ('he', 'h', 'lag', 'jac', 'legendre'):
                try:
                    got = np.asarray(fam_der(P, kind, n, params, x), dtype=float).ravel()
                except Exception as ex:
                    got = f'raised {type(ex).__name__}: {ex}'
                mk, mp = ('jac', (0.0, 0.0)) if kind == 'legendre' else (kind, params)
                exact = n <= 12 and fi % 2 == 0
                w = fw if exact else C.f2w
                for k, xv in enumerate(x.ravel()[:2]):
                    def chk(rep, case=case, got=got, k=k, exact=exact):
                        conv = (lambda v: float(Fraction(v))) if exact else C.w2f
                        der, formal, val = (conv(v) for v in rep.split())
                        if isinstance(got, str) or not close(got[k], der, extra_scale=abs(val)):
                            ctx.disagree('fam', case, got if isinstance(got, str) else float(got[k]), der)
                        if exact and not close(der, formal, extra_scale=abs(val)):
                            ctx.disagree('fam', case, 'model closed form', f'{der} != model formal derivative {formal}', 'model self-check')
                    add(f'{"q" if exact else "f"} fam {mk} {n} ' + ' '.join(w(p) for p in mp) + (' ' if mp else '') + w(xv), chk)
        # sequence forms: gapped / not starting at 0 / singleton / contiguous
        for ns in ([0, 1, 2, 3, 4], [0], [1], [2, 5, 9], [0, 3], [1, 2, 7, 8, 12], [4], [0, 1], [3, 4, 5, 6], [0, 13, 20, 25],
                   [14, 15, 16], [2, 3], [3], [11, 22, 30] if ctx.thorough else [17, 24]):
            x = rng.uniform(lo, hi, 5) if kind.startswith('cheby') else rng.uniform(lo, hi, (2, 3))
            case = {'item': 'famseq', 'kind': kind, 'ns': ns, 'params': list(params), 'x': x.tolist()}
            ctx.case('famseq', case, nontrivial=True, tag=f'{kind}/{"start0" if ns[0] == 0 else "start1" if ns[0] == 1 else "start2+"}')
            run_pred('famseq', case)

    # exact Hermite through prysm's own code
    for n in range(0, ctx.scale(9, 15)):
        for kind, fn in (('he', P.hermite_He_der), ('h', P.hermite_H_der)):
            xs = [Fraction(int(rng.integers(-12, 13)), 8) for _ in range(2)]
            case = {'item': 'fam-exact', 'kind': kind, 'n': n, 'x': [str(v) for v in xs]}
            ctx.case('fam-exact', case, nontrivial=True, tag=kind)
            try:
                got = list(np.ravel(fn(n, np.array(xs, dtype=object))))
                if not all(isinstance(v, (Fraction, int)) for v in got):
                    raise TypeError('the result left exact arithmetic (a float dtype is forced somewhere on the path)')
                got = [Fraction(v) for v in got]
            except Exception as ex:
                got = f'raised {type(ex).__name__}: {ex}'
            for k, xv in enumerate(xs):
                def chk(rep, case=case, got=got, k=k):
                    der, formal, _ = (Fraction(v) for v in rep.split())
                    if isinstance(got, str):
                        ctx.filtered_known['exact-stream-not-applicable'] += 1
                        if len(ctx.notes) < 5:
                            ctx.notes.append(f'fam-exact not applicable: {got}')
                        return
                    if got[k] != der:
                        ctx.disagree('fam-exact', case, str(got if isinstance(got, str) else got[k]), str(der))
                    if got[k] != formal:
                        ctx.pred_fail('fam-exact', case, f'{got[k]} is not the derivative {formal}')
                add(f'q fam {kind} {n} {C.q2w(xv)}', chk)

    # ------------------------------------------------ Zernike
    nm = [(n, m) for n in range(0, ctx.scale(8, 11)) for m in range(-n, n + 1, 2)]
    for zi, (n, m) in enumerate(nm):
        for norm in ((True, False) if (ctx.thorough or zi % 3 == 0) else (bool(zi % 2),)):
            r = rng.uniform(0.05, 0.98, 3)
            t = rng.uniform(0.0, 6.2, 3)
            case = {'item': 'zern', 'n': n, 'm': m, 'norm': norm, 'r': r.tolist(), 't': t.tolist()}
            ctx.case('zern', case, nontrivial=True, tag=f'{"m0" if m == 0 else "m<0" if m < 0 else "m>0"}/{"norm" if norm else "raw"}')
            run_pred('zern', case)
            try:
                dr, dt = P.zernike_nm_der(n, m, r, t, norm=norm)
                dr, dt = np.asarray(dr, dtype=float), np.asarray(dt, dtype=float)
            except Exception as ex:
                dr = dt = f'raised {type(ex).__name__}: {ex}'
            zn = float(P.zernike_norm(n, m)) if norm else 1.0
            am = abs(m)
            for k in range(2):
                def chk(rep, case=case, dr=dr, dt=dt, k=k):
                    mdr, mdt, fdr, fdt = (C.w2f(v) for v in rep.split())
                    if isinstance(dr, str):
                        ctx.disagree('zern', case, dr, [mdr, mdt])
                        return
                    if not close(dr[k], mdr) or not close(dt[k], mdt):
                        ctx.disagree('zern', case, [float(dr[k]), float(dt[k])], [mdr, mdt])
                add(f'f zern {n} {m} {C.f2w(r[k])} {C.f2w(np.cos(am * t[k]))} {C.f2w(np.sin(am * t[k]))} {C.f2w(zn)}', chk)
            if zi % 5 == 0:   # model self-check in exact arithmetic
                def chk2(rep, case=case):
                    mdr, mdt, fdr, fdt = (float(Fraction(v)) for v in rep.split())
                    if not close(mdr, fdr, 1e-7) or not close(mdt, fdt, 1e-7):
                        ctx.disagree('zern', case, 'model assembly', f'({mdr},{mdt}) != model formal ({fdr},{fdt})', 'model self-check')
                add(f'q zern {n} {m} {fw(r[0])} {fw(np.cos(am * t[0]))} {fw(np.sin(am * t[0]))} {fw(zn)}', chk2)
    for rep_ in range(ctx.scale(4, 20)):
        k = int(rng.integers(1, 7))
        idx = rng.choice(len(nm), size=k, replace=True)
        nms = [list(nm[i]) for i in idx]
        shp = [(4,), (2, 3), (3, 1)][rep_ % 3]
        case = {'item': 'zernseq', 'nms': nms, 'norm': bool(rep_ % 2), 'r': rng.uniform(0.05, 0.98, shp).tolist(),
                't': rng.uniform(0, 6.2, shp).tolist()}
        ctx.case('zernseq', case, nontrivial=True, tag=f'{len(shp)}d')
        run_pred('zernseq', case)

    # ------------------------------------------------ sag and slope: Qbfs, Qcon
    for ci, (n, kind, pos) in enumerate(coef_cases(rng, ctx.scale(9, 11))):
        for it, fn in (('zzqbfs', qp.compute_z_zprime_Qbfs), ('zzqcon', qp.compute_z_zprime_Qcon)):
            cs = coef_vector(rng, n, kind, pos)
            u = rng.uniform(0.05, 0.97, 3)
            case = {'item': it, 'cs': cs, 'u': u.tolist()}
            ctx.case(it, case, nontrivial=any(cs), tag=f'{kind}/{"len1" if n == 1 else "len2" if n == 2 else "len3+"}')
            run_pred(it, case)
            try:
                S, Sp = fn(cs, u, u * u)
                S, Sp = np.asarray(S, dtype=float), np.asarray(Sp, dtype=float)
            except Exception as ex:
                S = Sp = f'raised {type(ex).__name__}: {ex}'
            f, g, h = qbfs_fgh(qp, n)
            for k in range(2):
                exact = (k == 0 and ci % 3 == 0)
                w = fw if exact else C.f2w

                def chk(rep, case=case, S=S, Sp=Sp, k=k, it=it, exact=exact):
                    conv = (lambda v: float(Fraction(v))) if exact else C.w2f
                    mS, mSp, fS, fSp = (conv(v) for v in rep.split())
                    if isinstance(S, str):
                        ctx.disagree(it, case, S, [mS, mSp])
                        return
                    if not close(S[k], mS) or not close(Sp[k], mSp):
                        ctx.disagree(it, case, [float(S[k]), float(Sp[k])], [mS, mSp])
                    if exact and (not close(mS, fS, 1e-7) or not close(mSp, fSp, 1e-7)):
                        ctx.disagree(it, case, 'model assembly', f'({mS},{mSp}) != model formal ({fS},{fSp})', 'model self-check')
                if it == 'zzqbfs':
                    add(f'{"q" if exact else "f"} zzqbfs {w(u[k])} {wl(cs, w)} {wl(f, w)} {wl(g, w)} {wl(h, w)}', chk)
                else:
                    add(f'{"q" if exact else "f"} zzqcon {w(u[k])} {wl(cs, w)}', chk)

    # ------------------------------------------------ sag and slopes: 2D-Q
    qkinds = ['cos', 'sin', 'mixed', 'holes', 'ragged', 'm1long', 'len1']
    # SYSTEMATIC single-term content first (one-hot radial vectors at every position of every length 1..5 / ..7, cosine-only and
    # sine-only separately, azimuthal orders 1..4 / ..6): every (side, m, length) guard of the slope accumulation, whatever the seed
    onehot = []
    for m in range(1, ctx.scale(5, 7)):
        for n in range(1, ctx.scale(6, 8)):
            for pos in range(n):
                v = [1.0 if i == pos else 0.0 for i in range(n)]
                pad = [[] for _ in range(m - 1)]
                onehot.append(('onehot-cos', [], pad + [v], pad + [[]]))
                onehot.append(('onehot-sin', [], pad + [[]], pad + [v]))
    for ci in range(len(onehot) + ctx.scale(400, 5000)):
        if ci < len(onehot):
            kind, cm0, ams, bms = onehot[ci]
            u, t = (0.3, 0.4) if ci % 2 else (0.8, 2.0)
        else:
            kind = qkinds[ci % len(qkinds)]
            cm0, ams, bms = q2d_content(rng, kind, ctx.scale(3, 5), ctx.scale(5, 7))
            u, t = float(rng.uniform(0.1, 0.95)), float(rng.uniform(0, 6.2))
        case = {'item': 'zzq2d', 'cm0': cm0, 'ams': ams, 'bms': bms, 'u': [u], 't': [t]}
        nz = bool(cm0) or any(len(a) for a in ams) or any(len(b) for b in bms)
        ctx.case('zzq2d', case, nontrivial=nz, tag=kind + ('/m0' if cm0 else '/no-m0'))
        run_pred('zzq2d', case)
        try:
            z, dr, dt = qp.compute_z_zprime_Q2d(cm0, ams, bms, np.asarray([u]), np.asarray([t]))
            got = [float(z[0]), float(dr[0]), float(dt[0])]
        except Exception as ex:
            got = f'raised {type(ex).__name__}: {ex}'
        exact = ci % 10 == 0
        w = fw if exact else C.f2w

        def chk(rep, case=case, got=got, exact=exact):
            conv = (lambda v: float(Fraction(v))) if exact else C.w2f
            vals = [conv(v) for v in rep.split()]
            if isinstance(got, str) or not close(got, vals[:3]):
                ctx.disagree('zzq2d', case, got, vals[:3])
            if exact and not close(vals[:3], vals[3:], 1e-7):
                ctx.disagree('zzq2d', case, 'model assembly', f'{vals[:3]} != model formal {vals[3:]}', 'model self-check')
        add(q2d_line(qp, 'zzq2d', w, u, t, cm0, ams, bms, mode='q' if exact else 'f'), chk)

    # ------------------------------------------------ points ON the axis (r = 0 exactly) and on the edge (r = 1, x = +-1)
    from prysm.coordinates import make_xy_grid, cart_to_polar
    grids = []
    for size in (4, 5):                       # even and odd grids both contain the sample r = 0
        gx, gy = make_xy_grid(size, diameter=2)
        gr, gt = cart_to_polar(gx, gy)
        grids.append((np.asarray(gr, dtype=float), np.asarray(gt, dtype=float)))
    r_list = np.array([0.0, 0.0, 0.0, 0.0, 1.0, 1.0, 0.5])
    t_list = np.array([0.0, 0.3, 2.0, -1.2, 0.7, 4.0, 1.0])
    nm_axis = [(n, m) for n in range(0, ctx.scale(7, 10)) for m in range(-n, n + 1, 2)]
    for zi, (n, m) in enumerate(nm_axis):
        norm = bool(zi % 2)
        sets = [(r_list, t_list)] + ([grids[zi % 2]] if (abs(m) <= 2 or ctx.thorough or zi % 3 == 0) else [])
        for rr, tt in sets:
            case = {'item': 'zern', 'n': n, 'm': m, 'norm': norm, 'r': rr.tolist(), 't': tt.tolist()}
            ctx.case('zern', case, nontrivial=True, tag=f'axis/{"m0" if m == 0 else "|m|=1" if abs(m) == 1 else "|m|>=2"}/{"grid" if rr.ndim == 2 else "list"}')
            run_pred('zern', case)
        try:
            dr, dt = P.zernike_nm_der(n, m, r_list, t_list, norm=norm)
            dr, dt = np.asarray(dr, dtype=float), np.asarray(dt, dtype=float)
        except Exception as ex:
            dr = dt = f'raised {type(ex).__name__}: {ex}'
        zn = float(P.zernike_norm(n, m)) if norm else 1.0
        am = abs(m)
        case = {'item': 'zern', 'n': n, 'm': m, 'norm': norm, 'r': r_list.tolist(), 't': t_list.tolist()}
        for k in (1, 2, 4):
            def chk(rep, case=case, dr=dr, dt=dt, k=k):
                mdr, mdt, fdr, fdt = (C.w2f(v) for v in rep.split())
                if isinstance(dr, str):
                    ctx.disagree('zern', case, dr, [mdr, mdt])
                elif not close(dr[k], mdr) or not close(dt[k], mdt):
                    ctx.disagree('zern', case, [float(dr[k]), float(dt[k])], [mdr, mdt], f'point r={case["r"][k]}')
            add(f'f zern {n} {m} {C.f2w(r_list[k])} {C.f2w(np.cos(am * t_list[k]))} {C.f2w(np.sin(am * t_list[k]))} {C.f2w(zn)}', chk)
    for rep_ in range(ctx.scale(4, 16)):
        idx = rng.choice(len(nm_axis), size=int(rng.integers(1, 6)), replace=True)
        rr, tt = grids[rep_ % 2]
        case = {'item': 'zernseq', 'nms': [list(nm_axis[i]) for i in idx], 'norm': bool(rep_ % 2), 'r': rr.tolist(), 't': tt.tolist()}
        ctx.case('zernseq', case, nontrivial=True, tag='axis/grid')
        run_pred('zernseq', case)
    u_edge = [0.0, 1.0, 0.5]
    for ci, (n, kind, pos) in enumerate(coef_cases(rng, ctx.scale(6, 9))):
        cs = coef_vector(rng, n, kind, pos)
        j = 1 + ci % 3
        for case in ({'item': 'zzqbfs', 'cs': cs, 'u': u_edge}, {'item': 'zzqcon', 'cs': cs, 'u': u_edge},
                     {'item': 'qbfsder', 'cs': cs, 'u': u_edge, 'j': j},
                     {'item': 'q2dder', 'cs': cs, 'm': 1 + ci % 3, 'u': u_edge, 'j': j},
                     {'item': 'jder', 's': cs, 'alpha': AB[ci % len(AB)][0], 'beta': AB[ci % len(AB)][1], 'x': [-1.0, 1.0, 0.0], 'j': j}):
            ctx.case(case['item'], case, nontrivial=any(cs), tag='axis-and-edge')
            run_pred(case['item'], case)
        for it, fn in (('zzqbfs', qp.compute_z_zprime_Qbfs), ('zzqcon', qp.compute_z_zprime_Qcon)):
            case = {'item': it, 'cs': cs, 'u': u_edge}
            try:
                ue = np.array(u_edge)
                S, Sp = fn(cs, ue, ue * ue)
                S, Sp = np.asarray(S, dtype=float), np.asarray(Sp, dtype=float)
            except Exception as ex:
                S = Sp = f'raised {type(ex).__name__}: {ex}'
            f, g, h = qbfs_fgh(qp, n)
            for k in (0, 1):
                def chk(rep, case=case, S=S, Sp=Sp, k=k, it=it):
                    mS, mSp, fS, fSp = (C.w2f(v) for v in rep.split())
                    if isinstance(S, str) or not close(S[k], mS) or not close(Sp[k], mSp):
                        ctx.disagree(it, case, S if isinstance(S, str) else [float(S[k]), float(Sp[k])], [mS, mSp], f'u={case["u"][k]}')
                if it == 'zzqbfs':
                    add(f'f zzqbfs {C.f2w(u_edge[k])} {wl(cs)} {wl(f)} {wl(g)} {wl(h)}', chk)
                else:
                    add(f'f zzqcon {C.f2w(u_edge[k])} {wl(cs)}', chk)
    for fi, (kind, params) in enumerate([('jac', (0.0, 0.0)), ('jac', (1.0, 2.3)), ('jac', (-0.5, 0.5)), ('legendre', ()), ('cheby1', ()),
                                         ('cheby2', ()), ('cheby3', ()), ('cheby4', ()), ('lag', (0.5,)), ('he', ()), ('h', ())]):
        for n in range(0, ctx.scale(7, 13)):
            xs_ = [0.0, 0.5] if kind == 'lag' else [-1.0, 1.0, 0.0]
            case = {'item': 'fam', 'kind': kind, 'n': n, 'params': list(params), 'x': xs_}
            ctx.case('fam', case, nontrivial=True, tag=f'{kind}/edge')
            run_pred('fam', case)
    for ci in range(ctx.scale(42, 300)):
        kind = qkinds[ci % len(qkinds)]
        cm0, ams, bms = q2d_content(rng, kind, 3, ctx.scale(4, 6))
        uu = [0.0, 1.0][ci % 2]
        t = float(rng.uniform(-3, 3))
        case = {'item': 'zzq2d', 'cm0': cm0, 'ams': ams, 'bms': bms, 'u': [uu], 't': [t]}
        ctx.case('zzq2d', case, nontrivial=True, tag=f'{"axis" if uu == 0 else "edge"}/{kind}')
        run_pred('zzq2d', case)
        try:
            z, dr, dt = qp.compute_z_zprime_Q2d(cm0, ams, bms, np.asarray([uu]), np.asarray([t]))
            got = [float(z[0]), float(dr[0]), float(dt[0])]
        except Exception as ex:
            got = f'raised {type(ex).__name__}: {ex}'

        def chk(rep, case=case, got=got):
            vals = [C.w2f(v) for v in rep.split()]
            if isinstance(got, str) or not close(got, vals[:3]):
                ctx.disagree('zzq2d', case, got, vals[:3])
        add(q2d_line(qp, 'zzq2d', C.f2w, uu, t, cm0, ams, bms, mode='f'), chk)

    # ------------------------------------------------ history / aliasing: twice on the caller's own containers
    for case in alias_cases(rng, ctx.scale(240, 2400)):
        ctx.case('alias', case, nontrivial=True, tag=f'{case["path"]}/{case["container"]}')
        run_pred('alias', case)

    # ------------------------------------------------ coordinate dtypes / ranks / scalars; caller-supplied alphas buffers
    for case in form_cases(rng, ctx.scale(500, 5000)):
        ctx.case('coords', case, nontrivial=True, tag=f'{case["routine"]}/{case["form"]}')
        run_pred('coords', case)
    for case in dtype_cases(rng, ctx.thorough):
        ctx.case('coords', case, nontrivial=True, tag=f'{case["routine"]}/{case.get("kind", "")}/{case["form"]}/dtype')
        run_pred('coords', case)
    for case in buffer_cases(rng, ctx.scale(120, 1200)):
        ctx.case('buffer', case, nontrivial=True, tag=f'{case["routine"]}/{case["fill"]}')
        run_pred('buffer', case)
        if case['routine'] == 'q2dder':
            sm = dict(case, item='signedm')
            ctx.case('signedm', sm, nontrivial=True, tag=f'm=-{sm["m"]}')
            run_pred('signedm', sm)

    # ------------------------------------------------ every sequence argument in every container form
    for case in seq_cases(rng, ctx.scale(2, 10)):
        ctx.case('seqarg', case, nontrivial=True, tag=f'{case["routine"]}/{case["form"]}')
        ok, detail = pred_safe(case, ctx)
        if not ok:
            ctx.pred_fail('seqarg', case, detail)

    # ------------------------------------------------ conic base surfaces and Q2d_and_der (x/raytracing/surfaces.py)
    S = _surf()
    kappas = [-2.5, -1.0, -0.7, 0.0, 0.6, 1.3]
    for ci in range(ctx.scale(300, 4000)):
        c = float(rng.choice([-1, 1]) * rng.uniform(0.01, 0.08))
        k = kappas[ci % len(kappas)]
        lim = 0.9 / (max(abs(1 + k), abs(k), 0.2) * c * c)        # keeps both radicands >= 0.1
        rmax = min(6.0, 0.5 * np.sqrt(lim))
        rho = rng.uniform(0.05, 1.0, 3) * rmax
        sphere = ci % 6 == 3
        case = {'item': 'sconic', 'c': c, 'kappa': 0.0 if sphere else k, 'rho': rho.tolist(), 'sphere': sphere}
        ctx.case('sconic', case, nontrivial=True, tag='sphere' if sphere else f'kappa{k}')
        run_pred('sconic', case)
        kk = case['kappa']
        phi = np.sqrt(1 - (1 + kk) * c * c * rho * rho)
        try:
            if sphere:
                got = (np.asarray(S.sphere_sag(c, rho * rho)), np.asarray(S.sphere_sag_der(c, rho)))
            else:
                got = (np.asarray(S.conic_sag(c, kk, rho * rho)), np.asarray(S.conic_sag_der(c, kk, rho)))
        except Exception as ex:
            got = f'raised {type(ex).__name__}: {ex}'

        def chk(rep, case=case, got=got):
            ms, md = (C.w2f(v) for v in rep.split())
            if isinstance(got, str) or not close(got[0][0], ms) or not close(got[1][0], md):
                ctx.disagree('sconic', case, got if isinstance(got, str) else [float(got[0][0]), float(got[1][0])], [ms, md])
        add(f'f surf conic {C.f2w(c)} {C.f2w(kk)} {C.f2w(rho[0])} {C.f2w(phi[0])}', chk)

        case = {'item': 'sdircos', 'c': c, 'kappa': k, 'rho': rho.tolist()}
        ctx.case('sdircos', case, nontrivial=True, tag=f'kappa{k}')
        run_pred('sdircos', case)
        phi = np.sqrt(1 - (1 + k) * c * c * rho * rho)
        try:
            got = np.asarray(S.der_direction_cosine_spheroid(c, k, rho))
        except Exception as ex:
            got = f'raised {type(ex).__name__}: {ex}'

        def chk(rep, case=case, got=got):
            md = C.w2f(rep.split()[0])
            if isinstance(got, str) or not close(got[0], md):
                ctx.disagree('sdircos', case, got if isinstance(got, str) else float(got[0]), md)
        add(f'f surf dircos {C.f2w(c)} {C.f2w(k)} {C.f2w(rho[0])} {C.f2w(phi[0])}', chk)

        # off-axis sections: shift along x, along y, or none
        sh = float(rng.uniform(0.2, 0.5) * rmax)
        dx, dy = [(sh, 0.0), (0.0, sh), (0.0, 0.0), (-sh, 0.0)][ci % 4]
        r = rng.uniform(0.05, 0.45, 3) * rmax
        t = rng.uniform(-3.1, 3.1, 3)
        if ci % 3 == 1:
            r[1] = 0.0          # the vertex of the section; Q2d_and_der gets (x, y) = (0, 0), where cart_to_polar returns t = 0
            t[1] = 0.0
        case = {'item': 'soac', 'c': c, 'kappa': k, 'r': r.tolist(), 't': t.tolist(), 'dx': dx, 'dy': dy}
        ctx.case('soac', case, nontrivial=True, tag=f'kappa{k}/' + ('dx' if dx else 'dy' if dy else 'centred'))
        run_pred('soac', case)
        s_ = dx if dx != 0 else dy
        ct, ctp = (np.cos(t), -np.sin(t)) if dx != 0 else (np.sin(t), np.cos(t))
        A = r * r + 2 * s_ * r * ct + s_ * s_
        phi = np.sqrt(1 - (1 + k) * c * c * A)
        psi = np.sqrt(1 - k * c * c * A)
        try:
            got = [np.asarray(S.off_axis_conic_sag(c, k, r, t, dx, dy)), *map(np.asarray, S.off_axis_conic_der(c, k, r, t, dx, dy)),
                   np.asarray(S.off_axis_conic_sigma(c, k, r, t, dx, dy)), *map(np.asarray, S.off_axis_conic_sigma_der(c, k, r, t, dx, dy))]
        except Exception as ex:
            got = f'raised {type(ex).__name__}: {ex}'

        def chk(rep, case=case, got=got):
            vals = [C.w2f(v) for v in rep.split()]
            if isinstance(got, str) or not close([float(g[0]) for g in got], vals[1:]):
                ctx.disagree('soac', case, got if isinstance(got, str) else [float(g[0]) for g in got], vals[1:])
        add('f surf oac ' + ' '.join(C.f2w(v) for v in (c, k, r[0], s_, ct[0], ctp[0], phi[0], psi[0])), chk)

        # Q-freeform on that base
        cm0, ams, bms = q2d_content(rng, ['cos', 'sin', 'mixed', 'holes', 'ragged'][ci % 5], 3, 4)
        Rn = float(1.05 * 0.45 * rmax)
        case = {'item': 'sq2d', 'c': c, 'kappa': k, 'r': r.tolist(), 't': t.tolist(), 'dx': dx, 'dy': dy, 'R': Rn,
                'cm0': cm0, 'ams': ams, 'bms': bms}
        ctx.case('sq2d', case, nontrivial=True, tag=f'kappa{k}/' + ('dx' if dx else 'dy' if dy else 'centred'))
        run_pred('sq2d', case)
        try:
            x, y = (r * np.cos(t))[None, :], (r * np.sin(t))[None, :]
            Z = [np.ravel(v) for v in S.Q2d_and_der(cm0, ams, bms, x, y, Rn, c, k, dx, dy)]
            zq = [np.ravel(v) for v in qp.compute_z_zprime_Q2d(cm0, ams, bms, r / Rn, t)]
            base = np.ravel(S.off_axis_conic_sag(c, k, r, t, dx, dy))
            bd = [np.ravel(v) for v in S.off_axis_conic_der(c, k, r, t, dx, dy)]
            sd = [np.ravel(v) for v in S.off_axis_conic_sigma_der(c, k, r, t, dx, dy)]
            args = [psi[0] / phi[0], zq[0][0], zq[1][0], zq[2][0], sd[0][0], sd[1][0], base[0], bd[0][0], bd[1][0], Rn]
            got = [float(Z[0][0]), float(Z[1][0]), float(Z[2][0])]
        except Exception as ex:
            got = f'raised {type(ex).__name__}: {ex}'
            args = [0.0] * 10

        def chk(rep, case=case, got=got):
            vals = [C.w2f(v) for v in rep.split()]
            if isinstance(got, str) or not close(got, vals):
                ctx.disagree('sq2d', case, got, vals)
        add('f surf asm ' + ' '.join(C.f2w(v) for v in args), chk)

    replies = C.lean_driver('C09', lines)
    for rep, fn in zip(replies, todo):
        if rep == 'bad-op':
            raise C.ToolError('driver C09 rejected a request')
        fn(rep)


# ------------------------------------------------------------------------------------------------
# search and replay
# ------------------------------------------------------------------------------------------------
def _small_cases():
    xs = [-0.6, 0.35]
    us = [0.3, 0.8]
    for kind, params, lo in (('he', (), 0), ('h', (), 0), ('lag', (0.0,), 1), ('lag', (1.5,), 1), ('jac', (0.0, 0.0), 0),
                             ('jac', (0.5, 1.5), 0), ('legendre', (), 0), ('cheby1', (), 0), ('cheby2', (), 0), ('cheby3', (), 0),
                             ('cheby4', (), 0)):
        for n in range(0, 7):
            x = [0.4, 1.3] if kind == 'lag' else xs
            yield {'item': 'fam', 'kind': kind, 'n': n, 'params': list(params), 'x': x}
        for ns in ([0], [0, 1, 2], [1, 3], [2, 5]):
            yield {'item': 'famseq', 'kind': kind, 'ns': ns, 'params': list(params), 'x': xs}
    for n in range(1, 6):
        vecs = [[1.0 if i == p else 0.0 for i in range(n)] for p in (0, n - 1)] + [[1.0 + 0.25 * i for i in range(n)]]
        for s in vecs:
            for j in (1, 2, 3):
                yield {'item': 'jder', 's': s, 'alpha': 0.5, 'beta': 1.5, 'x': xs, 'j': j}
                yield {'item': 'qbfsder', 'cs': s, 'u': us, 'j': j}
                for m in (1, 2):
                    yield {'item': 'q2dder', 'cs': s, 'm': m, 'u': us, 'j': j}
            yield {'item': 'zzqbfs', 'cs': s, 'u': us}
            yield {'item': 'zzqcon', 'cs': s, 'u': us}
    for n in range(0, 5):
        for m in range(-n, n + 1, 2):
            for norm in (True, False):
                yield {'item': 'zern', 'n': n, 'm': m, 'norm': norm, 'r': [0.3, 0.8], 't': [0.4, 2.5]}
    for n, m in ((1, 1), (1, -1), (3, 1), (2, 2), (2, 0)):
        yield {'item': 'zern', 'n': n, 'm': m, 'norm': False, 'r': [0.0, 0.0, 1.0], 't': [0.0, 1.0, 2.0]}
    yield {'item': 'zernseq', 'nms': [[2, 0], [1, 1], [3, -1]], 'norm': True, 'r': [0.3, 0.8], 't': [0.4, 2.5]}
    yield {'item': 'zernseq', 'nms': [[1, 1], [3, -1]], 'norm': True, 'r': [0.0, 1.0], 't': [0.4, 2.5]}
    for n in range(1, 5):
        v = [1.0 + 0.5 * i for i in range(n)]
        for m in (1, 2):
            pad = [[] for _ in range(m - 1)]
            for ams, bms in ((pad + [v], pad + [[]]), (pad + [[]], pad + [v]), (pad + [v], pad + [v[:1]]), (pad + [v], []), ([], pad + [v])):
                yield {'item': 'zzq2d', 'cm0': [], 'ams': ams, 'bms': bms, 'u': us, 't': [0.4, 2.0]}
        yield {'item': 'zzq2d', 'cm0': v, 'ams': [], 'bms': [], 'u': us, 't': [0.4, 2.0]}


def search(ctx, hints):
    import glob
    import json
    import os
    for path in sorted(glob.glob(os.path.join(C.VERIF, 'corpus', 'C09', '*.json'))):
        case = json.load(open(path))
        ok, detail = pred_safe(case)
        if not ok:
            return {'item': case['item'], 'input': case, 'detail': detail}
    for case in _small_cases():
        ok, detail = pred_safe(case)
        if not ok:
            return {'item': case['item'], 'input': case, 'detail': detail}
    rng = np.random.Generator(np.random.PCG64(ctx.seed + 2000))
    for _ in range(150):
        n = int(rng.integers(1, 9))
        s = [float(v) for v in rng.uniform(-1, 1, n)]
        a, b = AB[int(rng.integers(len(AB)))]
        j = int(rng.integers(1, 5))
        for case in ({'item': 'jder', 's': s, 'alpha': a, 'beta': b, 'x': [-0.5, 0.3], 'j': j},
                     {'item': 'qbfsder', 'cs': s, 'u': [0.4, 0.9], 'j': j},
                     {'item': 'q2dder', 'cs': s, 'm': int(rng.integers(1, 5)), 'u': [0.4, 0.9], 'j': j},
                     {'item': 'zzqbfs', 'cs': s, 'u': [0.4, 0.9]}, {'item': 'zzqcon', 'cs': s, 'u': [0.4, 0.9]}):
            ok, detail = pred_safe(case)
            if not ok:
                return {'item': case['item'], 'input': case, 'detail': detail}
        cm0, ams, bms = q2d_content(rng, ['cos', 'sin', 'mixed', 'holes', 'ragged', 'm1long', 'len1'][int(rng.integers(7))], 3, 5)
        case = {'item': 'zzq2d', 'cm0': cm0, 'ams': ams, 'bms': bms, 'u': [0.45], 't': [1.1]}
        ok, detail = pred_safe(case)
        if not ok:
            return {'item': 'zzq2d', 'input': case, 'detail': detail}
    return None


def replay(inp):
    case = inp['input'] if isinstance(inp.get('input'), dict) and 'item' in inp['input'] else inp
    P, qp, J = _impl()
    if case['item'] == 'jder-exact':
        s = [Fraction(v) for v in case['s']]
        xs = [Fraction(v) for v in case['x']]
        a, b, j = Fraction(case['alpha']), Fraction(case['beta']), case['j']
        clear_abc_cache(J)
        try:
            tab = J.jacobi_sum_clenshaw_der(s, a, b, np.array(xs, dtype=object), j=j)
            tot = QP([0])
            for n, c in enumerate(s):
                tot = tot + QP.lift(P.jacobi(n, a, b, X)) * c
            bad = False
            for jj in range(j + 1):
                exp = [tot.deriv(jj)(v) for v in xs]
                got = [Fraction(v) for v in tab[jj][0]]
                print(f'order {jj}: alphas[{jj}][0] = {got}; exact derivative = {exp}')
                bad = bad or got != exp
            return bad
        except Exception as ex:
            print('raised', ex)
            return True
        finally:
            clear_abc_cache(J)
    if case['item'] == 'fam-exact':
        fn = P.hermite_He_der if case['kind'] == 'he' else P.hermite_H_der
        xs = [Fraction(v) for v in case['x']]
        try:
            got = [Fraction(v) for v in fn(case['n'], np.array(xs, dtype=object))]
            dp = value_poly(case['kind'], case['n']).deriv()
            exp = [dp(v) for v in xs]
            print('derivative routine', got, 'exact derivative', exp)
            return got != exp
        except Exception as ex:
            print('raised', ex)
            return True
    ok, detail = pred_safe(case)
    print('replaying', case['item'], '->', ('property holds' if not detail else detail) if ok else f'VIOLATED: {detail}')
    return not ok


MANIFEST_ENTRY = {
    'technique': 'Lean 4 proofs (derivations on commutative rings, Polynomial.derivative, induction through three-term recurrences, '
                 'HasDerivAt over the reals for the square-root surfaces) over a hand model tied to the source by translator-generated '
                 'seed/step/index/closed-form definitions, plus Float and exact-rational correspondence runs and an exact '
                 'formal-derivative / automatic-differentiation predicate on prysm\'s own value routines',
    'text': ('PROVED for all inputs (Props/C09.lean, standard axioms; "derivative" = Polynomial.derivative of the value routine run on the '
             'indeterminate, evaluated at the point; real HasDerivAt for the surfaces and the trigonometric factors): (1) clenshaw_der_correct / '
             'clenshaw_der_entries - every three-term family over a field, every coefficient list of any length, every derivative order j, '
             'every point: row j of the table consists of the j-th derivatives of the polynomials alpha_n(X) and its read-out is the j-th '
             'derivative of sum s_n p_n(X); instances jacobi_sum_clenshaw_der, clenshaw_qbfs_der, clenshaw_q2d_der (incl. the m = 1 '
             'correction); table_zero_above_degree + seed_is_recurrence justify the seed at index M-jj (the model builds a fresh table; that '
             'the source zeroes the entries above M-jj of a caller buffer is a translated write set + the executed buffer item). '
             '(2) jacobi_der for EVERY order and all alpha+beta not in {-2,-3,...} (contiguous relation proved by induction, then the '
             'differentiated recurrence); instances legendre_der, the Chebyshev parameter pairs, Zernike/Qcon (0,m). (3) hermiteHe_der, '
             'hermiteH_der, laguerre_der: every order (Laguerre: every shape). (4) zernike_nm_der, statements about the model routine '
             'zernikeDer itself: zernike_der_radial_correct (radial output = znorm * d/dr[r^|m| P(2r^2-1)] * trig, every (n,m), every point) '
             'and zernike_der_azimuthal_correct (azimuthal output = d/dt of znorm * R * (cos(mt) | sin(|m|t) | 1), real cos/sin, sign and '
             '|m|-vs-m choice of both branches); zernike_radial / zernike_azimuthal(_real) are generic calculus rules used by these, NOT '
             'statements about the routine. (5) qbfs_sag_slope, qcon_sag_slope: the second output of compute_z_zprime_Qbfs/_Qcon is the '
             'derivative of the polynomial that the first output evaluates (conjunct 1 is only "evaluation commutes with the routine"; the '
             'content is conjunct 2 + the closed form of that polynomial), every coefficient list (length 1 included); over the '
             'changed-basis coefficients - the link to Qbfs/Qcon is C10. (6) 2D-Q: per azimuthal order q2d_radial_slope / '
             'q2d_azimuthal_slope(_real); LIST LEVEL q2d_slopes_list_level (the slopes accumulated over all orders, any combination of '
             'present / absent / empty / unequal cosine and sine lists, are d/du and d/dt of the accumulated sag) and zzQ2d_radial_correct '
             '(whole routine incl. the m = 0 Qbfs part). (7) x/raytracing/surfaces.py: conic_sag_der_correct (sphere, conic), '
             'dir_cos_der_correct, off_axis_conic_der_correct, off_axis_conic_sigma_der_correct (HasDerivAt in r and in t, shift along x or '
             'y, wherever the radicands are positive); q2d_and_der_correct is the bare product rule for arbitrary differentiable parts; '
             'q2d_and_der_composed_radial / _azimuthal plug the four surface theorems into it: the slopes returned by Q2d_and_der are the '
             'derivatives of the returned sag zf * sigma^-1 + z_base for ANY departure zf differentiable in u (that compute_z_zprime_Q2d '
             'supplies such a zf is (6)). TRANSLATED from the current source each run and proved equal to the model (gen_* theorems): seed '
             'expression / position M-jj / factor jj (quantified over the requested order j), step, read-write indices, zeroed write set, '
             'loop-start window, coefficient orders and tuple positions, jj > M guard, row 0 = value sweep for the three derivative '
             'routines; closed forms and order/shape shifts of hermite_*_der, laguerre_der, jacobi_der; Hermite and Laguerre value '
             'recurrences; pieces of zernike_nm_der; straight-line bodies of compute_z_zprime_Qbfs/_Qcon (both branches) and the slope terms '
             'of compute_z_zprime_Q2d; the bodies of sphere/conic_sag(_der), der_direction_cosine_spheroid, phi_spheroid, '
             'off_axis_conic_sag/_der/_sigma/_sigma_der (both shift branches, for every interpretation of np.sqrt) and the Q2d_and_der '
             'assembly (up to renaming of locals). The "...Structure = true" conjuncts of the gen_* theorems are Booleans computed by the '
             'translator from the syntax tree (three-valued: a recognised wrong shape is false and fails the proof; an unrecognised '
             'spelling is reported as untranslatable and printed as TIE-DEGRADED); Lean sees only the Boolean. (8) SEQUENCE FORMS: the '
             'sweeps of hermite_He_der_seq, hermite_H_der_seq and jacobi_der_seq are in the model as the source runs them (explicit low '
             'orders, then one loop carrying two polynomials; Jacobi: shifted shape, recurrence_abc of order 1 before and i-1 inside the '
             'loop) and hermite_der_seq_correct / jacobi_der_seq_correct prove that EVERY row is the derivative of the value routine\'s '
             'polynomial (all orders, all admissible shapes, by induction on the loop state); cheby_legendre_der_correct: for the shape the '
             'SOURCE hands to jacobi_der (read from cheby.py / legendre.py, gen_cheby_shapes) and any normalising constant c, c * jacobi_der '
             'is the derivative of c * P_n (cheby_legendre_der_seq_correct: same for the rows of the jacobi_der_seq sweep). TRANSLATED for these (gen_hermite_der_seq, gen_jacobi_der_seq, gen_delegations): explicit rows, '
             'locals on entry to the loop, one iteration and the emitted row (symbolic execution of the loop body: statement order does not '
             'matter), loop start, recurrence_abc indices and shapes; shape / normaliser shape / numerator of cheby1..4(_der)(_seq) and '
             'legendre(_der)(_seq) (the derivative routine must use those of ITS value routine); order shift, shape, sign and zero rows of '
             'laguerre_der_seq; the row loop of zernike_nm_der_seq. DTYPE OBLIGATIONS (Booleans from the syntax trees): '
             'gen_float_coordinates_at_entry (the twelve routines with arithmetic of their own on the coordinates re-bind each coordinate '
             'to np.asarray(c, dtype=np.result_type(c, 1.0)) before anything else reads it - removed as an identity before the other '
             'recognisers run) and gen_no_coordinate_typed_fill (no full_like / full / zeros / empty typed like unconverted coordinates). '
             'COMPARED ONLY (executed): laguerre_seq behind laguerre_der_seq, the row selection (ns[min_i], early returns) of the sequence '
             'forms (orders up to 25 quick / 30 thorough against one-at-a-time evaluation), '
             'compute_z_zprime_Q2d and Q2d_and_der end to end. EXECUTED INPUT FORMS: SYSTEMATIC product of every derivative entry point x '
             'coordinate dtype int64 / int32 / int16 / int8 / uint8 / uint16 / bool / float32 x orders 0, 1, 2, 3, 4, 6 (0..8 thorough); '
             'one-hot 2D-Q content (every position of every length 1..5, cosine-only and sine-only, m = 1..4; ..7 / ..6 thorough); '
             'float64 / float32 / int64 / int32 / 0-d / 2-D / 3-D / '
             'strided coordinate arrays (Python and NumPy scalars where the docstring allows them), list / tuple / ndarray (int, f32, f64) '
             'coefficients evaluated twice on the same objects, zeroed and dirty caller alphas buffers, signed m, cm0=None, the boundary '
             'points r=0, u=0, u=1, x=+-1, rho=0; every sequence argument (coefficients s / cs / cns / coefs / cm0 / ams / bms and their inner lists, '
             'orders ns of the nine *_der_seq routines, nms of zernike_nm_der_seq and its rows) as list / tuple / ndarray / generator / '
             'iterator / map / zip / chain / reversed / dict views / deque / range, result = result for the same items as a list (item '
             'seqarg); gen_iterable_arguments: translated fact that these arguments are materialised first or read exactly once.'
             ' Before recognition the translator normalises the source soundly (tools/pysym.py): same-module private helpers without '
             'loops are inlined (helpers with branches by forking paths), view aliases of table rows and hoisted index arithmetic are '
             'propagated, locals are expanded by path-wise symbolic execution or renamed by role, conditional expressions are '
             'treated as if/else; a shape that is still not understood degrades the tie (TIE-DEGRADED), it never turns it red.'),
    'note': ('partial: the Python loops / NumPy plumbing around the translated steps are tied to the model by execution, not by proof; '
             'the row selection of the *_der_seq sweeps and laguerre_seq are compared only; the structural facts are opaque '
             'Booleans for Lean; exact Fraction / polynomial-object streams are skipped with a note when the implementation does not '
             'accept such objects (only failures on ordinary float inputs count); the surface theorems assume positive radicands '
             '(inside the domain); field semantics x/0 = 0 where Python raises; rounding is outside every theorem (comparisons at 1e-9 '
             'relative to max(1, |expected|, row max); 1e-4 for float32 inputs).'),
}
