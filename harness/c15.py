"""C15 — image formation obeys the convolution theorem; the MTF is a valid MTF.

correspondence: the Lean model (driver `Drivers/C15.lean`: direct double sums and the same pipelines run
with an O(N^2) DFT on IEEE doubles) vs prysm.convolution / prysm.otf on the same arrays; the property's
own predicates (commutativity, linearity, impulse identity / translation, total product, list = product,
all-ones identity in both conventions, conventions agree, MTF laws) are evaluated on the real outputs.
"""
import itertools
from functools import partial

import numpy as np
from harness import common as C

TOL = 1e-9   # relative to max(1, |expected|_inf); inputs are O(1), sizes <= 13x12, FFT error ~1e-15

RULE = ('shapes: every (m,n) up to the tier bound (all parity pairs, square and not, 1-sample axes included) plus a few '
        'larger non-square ones; objects/PSFs random real (uniform, signed), impulses at every position of the small shapes, '
        'non-negative PSFs (random, gaussian, impulse, constant) as arrays and inside RichData / duck-typed containers; float32, integer, '
        'Fortran-ordered and strided inputs; every entry point on Fortran / transposed-view / strided / negative-stride layouts of '
        'non-uniform data x dtypes float64/float32/int32/int64/uint8/uint16 against the C-contiguous result; large / prime / long-thin shapes (33x37 .. 128x128) for the size-gated paths; transfer-function lists of length 0..4 given as real / '
        'complex arrays and as callables of fx, fy, fr, ft (jitter, smear, pixel, OLPF and asymmetric test functions), in '
        'the shifted and the unshifted convention, on internally built and on caller-supplied (1-D / 2-D, with / without fr, ft) '
        'frequency grids, alone and mixed with pre-evaluated arrays; a case is non-trivial unless the array has a single sample; '
        'distinct = distinct (item, input description) tuples')
ASSUMPTIONS = ['scipy.fft.fft2/ifft2 compute the DFT sums (contract = hypothesis of the theorems, proved from primitive roots)',
               'fftshift/ifftshift are the rotations by +-(n//2) (checked against the model index maps every run)',
               'np.sinc, np.exp, np.cos, np.hypot, np.arctan2 (modelled with Float.sin/exp/cos/sqrt/atan2)',
               f'float64 comparisons at {TOL} relative to max(1, |expected|_inf); float32 inputs at 2e-4']


def _impl():
    from prysm import convolution, otf, degredations, detector, fttools
    return convolution, otf, degredations, detector, fttools


def _close(a, b, tol=TOL):
    a = np.asarray(a)
    b = np.asarray(b)
    if a.shape != b.shape:
        return False
    if a.size == 0:
        return True
    if not (np.isfinite(a).all() and np.isfinite(b).all()):
        return False
    return float(np.max(np.abs(a - b))) <= tol * max(1.0, float(np.max(np.abs(b))))


def _err(a, b):
    a, b = np.asarray(a), np.asarray(b)
    if a.shape != b.shape:
        return f'shape {a.shape} vs {b.shape}'
    return f'max abs diff {float(np.max(np.abs(a - b))):.3e}'


def _obj(shape, k=0):
    """deterministic, well-conditioned, structureless real array (signed, O(1))"""
    m, n = shape
    j, i = np.meshgrid(np.arange(m), np.arange(n), indexing='ij')
    return np.cos(1.3 * j + 0.7 * i * i + 0.9 * k + 0.1) + 0.25 * np.sin(2.1 * i - 0.3 * j * j + k)


def _roll(o, dj, di):
    return np.roll(np.roll(o, dj, axis=0), di, axis=1)


def _direct_conv(o, h):
    m, n = o.shape
    out = np.zeros((m, n))
    for p in range(m):
        for q in range(n):
            s = 0.0
            for j in range(m):
                hj = h[(p - j + m // 2) % m]
                for i in range(n):
                    s += o[j, i] * hj[(q - i + n // 2) % n]
            out[p, q] = s
    return out


# ------------------------------------------------------------------------------------------------
# callables handed to apply_transfer_functions (python side) and their description for the driver
# ------------------------------------------------------------------------------------------------
def _callable(kind, p1, p2):
    cv, ot, dg, dt, ft = _impl()
    if kind == 'jitter':
        return partial(dg.jitter_ft, scale=p1)
    if kind == 'smear':
        return partial(dg.smear_ft, width=p1, height=p2)
    if kind == 'pixel':
        return partial(dt.pixel_ft, width_x=p1, width_y=p2)
    if kind == 'olpf':
        return partial(dt.olpf_ft, width_x=p1, width_y=p2)
    if kind == 'slit':           # objects.slit_ft(width_x, width_y, fx, fy): widths bound POSITIONALLY, frequencies last; 0 = None
        from prysm import objects
        return partial(objects.slit_ft, p1 if p1 else None, p2 if p2 else None)
    if kind == 'pinhole':        # objects.pinhole_ft(radius, fr)
        from prysm import objects

        def pinhole(fr):             # prysm's jinc divides 0/0 at fr = 0 before patching the sample: silence that warning only
            with np.errstate(invalid='ignore', divide='ignore'):
                return objects.pinhole_ft(p1, fr)
        return pinhole
    if kind == 'fx':
        return lambda fx: 1.0 / (1.0 + p1 * fx * fx + p2 * fx)
    if kind == 'fy':
        return lambda fy: 1.0 / (1.0 + p1 * fy * fy + p2 * fy)
    if kind == 'ft':
        return lambda ft: 1.0 + p1 * np.cos(ft) + p2 * np.sin(ft)
    if kind == 'phase':          # complex: linear phase = sub-sample translation by (p2, p1) samples*dx
        return lambda fx, fy: np.exp(-2j * np.pi * (p1 * fx + p2 * fy))
    if kind == 'const':          # returns a Python scalar, not an array
        return lambda fr: float(p1)
    if kind == 'noarg':          # takes none of fx, fy, fr, ft
        return lambda: float(p1)
    raise ValueError(kind)


def _grids(shape, dx, shift):
    """the frequency grids of the given convention (reference: fftfreq, shifted or not)"""
    m, n = shape
    fy = np.fft.fftfreq(m, dx)
    fx = np.fft.fftfreq(n, dx)
    if shift:
        fy, fx = np.fft.fftshift(fy), np.fft.fftshift(fx)
    fx2, fy2 = fx[np.newaxis, :], fy[:, np.newaxis]
    return fx2, fy2, np.hypot(fx2, fy2), np.arctan2(fy2, fx2)


def _eval_callable(kind, p1, p2, shape, dx, shift):
    """the callable evaluated to a full array on the grid of the convention"""
    fx, fy, fr, ft = _grids(shape, dx, shift)
    f = _callable(kind, p1, p2)
    import inspect
    params = inspect.signature(f).parameters
    kw = {}
    for k, v in (('fx', fx), ('fy', fy), ('fr', fr), ('ft', ft)):
        if k in params:
            kw[k] = v
    v = np.asarray(f(**kw))
    return np.broadcast_to(v.astype(complex if np.iscomplexobj(v) else float), shape).copy()


# ------------------------------------------------------------------------------------------------
# property predicates on the real code.  each takes a JSON-able input and returns (ok, detail)
# ------------------------------------------------------------------------------------------------
def _arr(x):
    return np.array(x, dtype=float)


def _carr(x):
    a = np.array(x, dtype=float)
    return a[..., 0] + 1j * a[..., 1]


def pred_conv_delta(inp):
    cv = _impl()[0]
    o = _arr(inp['o'])
    m, n = o.shape
    j0, i0 = inp['pos']
    d = np.zeros((m, n))
    d[j0, i0] = 1.0
    got = cv.conv(o, d)
    exp = _roll(o, j0 - m // 2, i0 - n // 2)
    return _close(got, exp), f'conv(o, impulse at {j0, i0}) vs o rolled by {(j0 - m // 2, i0 - n // 2)}: {_err(got, exp)}'


def pred_conv_comm(inp):
    cv = _impl()[0]
    o, h = _arr(inp['o']), _arr(inp['h'])
    a, b = cv.conv(o, h), cv.conv(h, o)
    return _close(a, b), f'conv(o,h) vs conv(h,o): {_err(a, b)}'


def pred_conv_linear(inp):
    cv = _impl()[0]
    o1, o2, h = _arr(inp['o']), _arr(inp['o2']), _arr(inp['h'])
    a, b = inp['a'], inp['b']
    lhs = cv.conv(a * o1 + b * o2, h)
    rhs = a * cv.conv(o1, h) + b * cv.conv(o2, h)
    lhs2 = cv.conv(h, a * o1 + b * o2)
    ok = _close(lhs, rhs) and _close(lhs2, rhs)
    return ok, f'conv(a o1 + b o2, h) vs a conv(o1,h) + b conv(o2,h): {_err(lhs, rhs)}; in the PSF slot: {_err(lhs2, rhs)}'


def pred_conv_sum(inp):
    cv = _impl()[0]
    o, h = _arr(inp['o']), _arr(inp['h'])
    got = float(cv.conv(o, h).sum())
    exp = float(o.sum() * h.sum())
    return abs(got - exp) <= TOL * max(1.0, abs(exp)) * o.size, f'sum(conv) = {got!r}, sum(o) sum(h) = {exp!r}'


def pred_conv_direct(inp):
    cv = _impl()[0]
    o, h = _arr(inp['o']), _arr(inp['h'])
    got = cv.conv(o, h)
    exp = _direct_conv(o, h)
    return _close(got, exp) and got.dtype == o.dtype, f'conv vs centred circular convolution (direct sum): {_err(got, exp)}, dtype {got.dtype}'


def pred_tf_ones(inp):
    cv = _impl()[0]
    o = _arr(inp['o'])
    shift = bool(inp['shift'])
    outs = [cv.apply_transfer_functions(o, 1.0, [np.ones(o.shape)], shift=shift),
            cv.apply_transfer_functions(o, 1.0, [], shift=shift),
            cv.apply_transfer_functions(o, 1.0, [lambda fr: np.ones_like(fr)], shift=shift)]
    bad = [k for k, g in enumerate(outs) if not _close(g, o)]
    return not bad, f'all-ones transfer function (array / empty list / callable) with shift={shift}: ' + \
        '; '.join(_err(g, o) for g in outs)


def pred_tf_list(inp):
    cv = _impl()[0]
    o = _arr(inp['o'])
    tfs = [_carr(t) for t in inp['tfs']]
    shift = bool(inp['shift'])
    a = cv.apply_transfer_functions(o, 1.0, tfs, shift=shift)
    prod = np.ones(o.shape, dtype=complex)
    for t in tfs:
        prod = prod * t
    b = cv.apply_transfer_functions(o, 1.0, [prod], shift=shift)
    return _close(a, b), f'list of {len(tfs)} transfer functions vs their product (shift={shift}): {_err(a, b)}'


def pred_tf_conventions(inp):
    """the unshifted convention with T and the shifted convention with fftshift(T) give the same image"""
    cv = _impl()[0]
    o = _arr(inp['o'])
    tfs = [_carr(t) for t in inp['tfs']]
    a = cv.apply_transfer_functions(o, 1.0, tfs, shift=False)
    b = cv.apply_transfer_functions(o, 1.0, [np.fft.fftshift(t) for t in tfs], shift=True)
    return _close(b, a), f'shift=True with fftshift(T) vs shift=False with T: {_err(b, a)}'


def pred_tf_callable(inp):
    """a callable transfer function = the array it evaluates to on the frequency grid of the convention,
    and both conventions give the same image"""
    cv = _impl()[0]
    o = _arr(inp['o'])
    dx = inp['dx']
    calls = inp['calls']
    res = {}
    for shift in (True, False):
        arrs = [_eval_callable(c[0], c[1], c[2], o.shape, dx, shift) for c in calls]
        exp = cv.apply_transfer_functions(o, dx, arrs, shift=shift)
        # entries flagged in `as_array` are passed pre-evaluated: arrays before / between / after callables
        flags = list(inp.get('as_array') or [False] * len(calls))
        fs = [a if fl else _callable(*c) for c, a, fl in zip(calls, arrs, flags)]
        got = cv.apply_transfer_functions(o, dx, fs, shift=shift)
        if not _close(got, exp):
            kinds = [('array:' if fl else '') + c[0] for c, fl in zip(calls, flags)]
            return False, (f'transfer functions {kinds} with shift={shift} differ from the arrays they evaluate to on '
                           f'the frequency grid of that convention: {_err(got, exp)}')
        res[shift] = got
    return _close(res[True], res[False]), f'callables {[c[0] for c in calls]}: shift=True vs shift=False image: {_err(res[True], res[False])}'


def pred_tf_psf(inp):
    """shifted convention with transform_psf(h) is conv(o, h)"""
    cv, ot = _impl()[:2]
    o, h = _arr(inp['o']), _arr(inp['h'])
    T, _ = ot.transform_psf(h, 1.0)
    a = cv.apply_transfer_functions(o, 1.0, [T], shift=True)
    b = cv.conv(o, h)
    return _close(a, b), f'apply_transfer_functions(o, [transform_psf(h)], shift=True) vs conv(o, h): {_err(a, b)}'


def pred_mtf(inp):
    ot = _impl()[1]
    p = _arr(inp['psf'])
    m, n = p.shape
    dx = inp.get('dx', 1.0)
    mtf = ot.mtf_from_psf(p.copy(), dx).data
    ptf = ot.ptf_from_psf(p.copy(), dx).data
    otf = ot.otf_from_psf(p.copy(), dx).data
    cy, cx = m // 2, n // 2
    if mtf.shape != p.shape:
        return False, f'MTF shape {mtf.shape}'
    if abs(mtf[cy, cx] - 1) > 1e-12:
        return False, f'MTF at zero frequency [{cy},{cx}] = {mtf[cy, cx]!r}'
    if mtf.max() > 1 + 1e-12 or mtf.min() < 0:
        k = np.unravel_index(np.argmax(mtf), mtf.shape)
        return False, f'MTF range [{mtf.min()!r}, {mtf.max()!r}], max at {k}'
    j, i = np.meshgrid(np.arange(m), np.arange(n), indexing='ij')
    mirror = mtf[(2 * cy - j) % m, (2 * cx - i) % n]
    if not _close(mtf, mirror, 1e-10):
        return False, f'MTF not point-symmetric about [{cy},{cx}]: {_err(mtf, mirror)}'
    if not _close(np.abs(otf), mtf, 1e-10):
        return False, f'|OTF| != MTF: {_err(np.abs(otf), mtf)}'
    rec = mtf * np.exp(1j * ptf)
    if not _close(rec, otf, 1e-10):
        return False, f'MTF exp(i PTF) != OTF: {_err(rec, otf)}'
    return True, 'ok'


def _supplied(shape, dx, shift, grid, polar):
    """caller-supplied frequency grids in the given convention: 1-D vectors or 2-D meshgrids (+ fr, ft)"""
    m, n = shape
    fy = np.fft.fftfreq(m, dx)
    fx = np.fft.fftfreq(n, dx)
    if shift:
        fy, fx = np.fft.fftshift(fy), np.fft.fftshift(fx)
    kw = {}
    if grid == '2d':
        fxx, fyy = np.meshgrid(fx, fy)
        kw['fx'], kw['fy'] = fxx, fyy
    else:
        kw['fx'], kw['fy'] = fx, fy
    if polar:
        fxx, fyy = np.meshgrid(fx, fy)
        kw['fr'], kw['ft'] = np.hypot(fxx, fyy), np.arctan2(fyy, fxx)
    return kw


def pred_tf_callable_grids(inp):
    """callables evaluated on CALLER-SUPPLIED grids (fx, fy, optionally fr, ft; 1-D or 2-D) in the convention
    of the call = the arrays they evaluate to on those grids; both conventions give the same image"""
    cv = _impl()[0]
    o = _arr(inp['o'])
    dx = inp['dx']
    calls = inp['calls']
    res = {}
    for shift in (True, False):
        kw = _supplied(o.shape, dx, shift, inp.get('grid', '1d'), inp.get('polar', False))
        arrs = [_eval_callable(c[0], c[1], c[2], o.shape, dx, shift) for c in calls]
        exp = cv.apply_transfer_functions(o, dx, arrs, shift=shift)
        fs = [_callable(*c) for c in calls]
        if inp.get('mixed') and len(fs) > 1:
            fs[-1] = arrs[-1]                   # callable(s) followed by a pre-evaluated array
        got = cv.apply_transfer_functions(o, None, fs, shift=shift, **kw)
        if not _close(got, exp):
            return False, (f'callables {[c[0] for c in calls]} on caller-supplied {inp.get("grid", "1d")} grids'
                           f'{" (+fr, ft)" if inp.get("polar") else ""} with shift={shift} differ from the arrays they evaluate to '
                           f'on those grids: {_err(got, exp)}')
        res[shift] = got
    return _close(res[True], res[False]), f'supplied grids: shift=True vs shift=False image: {_err(res[True], res[False])}'


class _Duck:
    """any object with .data / .dx is accepted by transform_psf"""
    def __init__(self, data, dx):
        self.data, self.dx = data, dx


def pred_otf_container(inp):
    """RichData / duck-typed containers give what their .data array gives (values, and the frequency spacing of the
    returned RichData), for transform_psf, mtf, ptf, otf; the caller's PSF is not modified"""
    ot = _impl()[1]
    from prysm._richdata import RichData
    p = _arr(inp['psf'])
    dx = inp.get('dx', 1.0)
    keep = p.copy()
    for kind in ('richdata', 'duck'):
        box = RichData(p, dx, 0.5) if kind == 'richdata' else _Duck(p, dx)
        d_arr, df_arr = ot.transform_psf(p, dx)
        d_box, df_box = ot.transform_psf(box)
        if not _close(d_box, d_arr) or df_box != df_arr:
            return False, f'transform_psf({kind}) differs from transform_psf(array, dx): {_err(d_box, d_arr)}; df {df_box!r} vs {df_arr!r}'
        for name in ('mtf_from_psf', 'ptf_from_psf', 'otf_from_psf'):
            f = getattr(ot, name)
            a, b = f(p, dx), f(box)
            if name == 'ptf_from_psf':
                w = np.abs(ot.otf_from_psf(p, dx).data) > 1e-6
                ok = a.data.shape == b.data.shape and _close(np.exp(1j * b.data[w]), np.exp(1j * a.data[w]), 1e-8)
            else:
                ok = _close(b.data, a.data)
            if not ok:
                return False, f'{name}({kind}) differs from {name}(array, dx): {_err(b.data, a.data)}'
            if b.dx != a.dx or abs(a.dx - 1000 / (p.shape[0] * dx)) > 1e-12 * abs(a.dx):
                return False, f'{name}({kind}).dx = {b.dx!r}, array path {a.dx!r}, documented 1000/(rows*dx) = {1000 / (p.shape[0] * dx)!r}'
        if not np.array_equal(p, keep):
            return False, f'the caller\'s PSF array was modified in place ({kind})'
    return True, 'ok'


def _variant(a, variant):
    """the same values in another container: dtype / memory layout"""
    a = np.asarray(a, dtype=float)
    if variant == 'float32':
        return a.astype(np.float32), 2e-4
    if variant == 'int':
        return np.rint(a * 40).astype(np.int32), None      # integer-valued: compare with the float array of those integers
    if variant == 'fortran':
        return np.asfortranarray(a), TOL
    if variant == 'strided':
        big = np.zeros((2 * a.shape[0], 3 * a.shape[1]))
        big[::2, ::3] = a
        return big[::2, ::3], TOL
    if variant == 'reversed':
        return a[::-1, ::-1][::-1, ::-1], TOL
    raise ValueError(variant)


def pred_input_variants(inp):
    """conv / apply_transfer_functions / mtf, ptf, otf on float32, integer, Fortran-ordered and strided inputs give what
    the contiguous float64 arrays of the same values give"""
    cv, ot = _impl()[:2]
    variant = inp['variant']
    o, h = _arr(inp['o']), np.abs(_arr(inp['h'])) + 0.05
    ov, tol = _variant(o, variant)
    hv, _ = _variant(h, variant)
    if tol is None:
        o, h, tol = ov.astype(float), hv.astype(float), TOL
    T = 0.5 + np.cos(np.arange(o.size).reshape(o.shape)) ** 2
    pairs = [('conv', cv.conv(ov, hv), cv.conv(o, h)),
             ('apply_transfer_functions[arrays]', cv.apply_transfer_functions(ov, 1.0, [T, T], shift=True),
              cv.apply_transfer_functions(o, 1.0, [T, T], shift=True)),
             ('apply_transfer_functions[callable]', cv.apply_transfer_functions(ov, 0.5, [_callable('pixel', 1.5, 0.9)]),
              cv.apply_transfer_functions(o, 0.5, [_callable('pixel', 1.5, 0.9)])),
             ('mtf_from_psf', ot.mtf_from_psf(hv, 1.0).data, ot.mtf_from_psf(h, 1.0).data),
             ('otf_from_psf', ot.otf_from_psf(hv, 1.0).data, ot.otf_from_psf(h, 1.0).data)]
    for name, got, exp in pairs:
        if not _close(np.asarray(got, dtype=complex if np.iscomplexobj(got) else float), exp, tol):
            return False, f'{name} on a {variant} input differs from the float64 contiguous result: {_err(got, exp)}'
    return True, 'ok'


# ------------------------------------------------------------------------------------------------
# memory layouts: every entry point on Fortran-ordered arrays, transposed views, strided and negative-stride views of
# the same (spatially non-uniform) values must give what it gives on the C-contiguous array
# ------------------------------------------------------------------------------------------------
LAYOUTS = ('F', 'T', 'strided', 'negative', 'mixed')


def _layout(a, kind):
    a = np.ascontiguousarray(a)
    if kind == 'C':
        return a
    if kind == 'F':
        return np.asfortranarray(a)
    if kind == 'T':
        return np.ascontiguousarray(a.T).T
    if kind == 'strided':
        big = np.zeros(tuple(2 * n + 1 for n in a.shape), dtype=a.dtype)
        sl = tuple(slice(1, None, 2) for _ in a.shape)
        big[sl] = a
        return big[sl]
    rev = tuple(slice(None, None, -1) for _ in a.shape)
    if kind == 'negative':
        return np.ascontiguousarray(a[rev])[rev]
    if kind == 'mixed':
        last = (slice(None),) * (a.ndim - 1) + (slice(None, None, -1),)
        return np.asfortranarray(a[last])[last]
    raise ValueError(kind)


def _layout_call(fn, o, h, kind, inp):
    cv, ot = _impl()[:2]
    from prysm._richdata import RichData
    L = lambda x: _layout(x, kind)       # noqa: E731
    dx = inp.get('dx', 0.5)
    if fn == 'conv':
        return cv.conv(L(o), L(h))
    if fn == 'atf_arrays':
        T1 = 0.5 + np.cos(0.7 * np.arange(o.size).reshape(o.shape)) ** 2
        T2 = np.exp(1j * np.sin(np.arange(o.size).reshape(o.shape)))
        return tuple(cv.apply_transfer_functions(L(o), 1.0, [L(T1), L(T2)], shift=sh) for sh in (False, True))
    if fn == 'atf_callable':
        calls = [('pixel', 3.0 * dx, 1.1 * dx), ('phase', 0.5 * dx, -0.25 * dx), ('jitter', 0.6 * dx, 0.0)]
        outs = []
        for sh in (False, True):
            outs.append(cv.apply_transfer_functions(L(o), dx, [_callable(*c) for c in calls], shift=sh))
            kw = _supplied(o.shape, dx, sh, '2d', True)
            outs.append(cv.apply_transfer_functions(L(o), None, [_callable(*c) for c in calls], shift=sh, **{k: L(v) for k, v in kw.items()}))
        return tuple(outs)
    p = np.abs(h) + 0.05
    if fn == 'otf_array':
        return (ot.transform_psf(L(p), dx)[0], ot.mtf_from_psf(L(p), dx).data, ot.otf_from_psf(L(p), dx).data,
                np.exp(1j * ot.ptf_from_psf(L(p), dx).data))
    if fn == 'otf_container':
        box = RichData(L(p), dx, 0.5)
        return (ot.transform_psf(box)[0], ot.mtf_from_psf(box).data, ot.otf_from_psf(box).data, np.exp(1j * ot.ptf_from_psf(box).data))
    raise ValueError(fn)


LAYOUT_FNS = ('conv', 'atf_arrays', 'atf_callable', 'otf_array', 'otf_container')


def pred_layouts(inp):
    """every memory layout of the same spatially non-uniform arrays gives what the C-contiguous arrays give"""
    fn = inp['fn']
    dt = np.dtype(inp.get('dtype', 'float64'))
    o = np.asarray(inp['o']).astype(dt)
    h = np.asarray(inp['h']).astype(dt)
    tol = 2e-4 if dt == np.float32 else TOL
    ref = _layout_call(fn, o, h, 'C', inp)
    for kind in inp.get('layouts', LAYOUTS):
        try:
            got = _layout_call(fn, o, h, kind, inp)
        except Exception as ex:
            return False, f'{fn} on {dt} arrays in layout {kind!r} raised {type(ex).__name__}: {ex}'
        gs = got if isinstance(got, tuple) else (got,)
        rs = ref if isinstance(ref, tuple) else (ref,)
        for k, (g, r) in enumerate(zip(gs, rs)):
            w = np.ones(np.shape(r), dtype=bool)
            if fn.startswith('otf') and k == 3:          # phase factor: away from OTF zeros only
                w = np.abs(rs[2]) > 1e-6
            if np.shape(g) != np.shape(r) or not _close(np.asarray(g)[w], np.asarray(r)[w], tol):
                return False, (f'{fn} (output {k}) on {dt} arrays of shape {o.shape} in layout {kind!r} differs from the C-contiguous '
                               f'result: {_err(np.asarray(g), np.asarray(r))}')
    return True, 'ok'


def _difflim_freqs(fno, wvl, k=9):
    """frequencies [cy/mm] of both signs: 0, inside the band, at and around the cut-off 1000/(wvl*fno), far beyond it"""
    cut = 1000.0 / (wvl * fno)
    f = [0.0, cut, -cut, cut * (1 - 1e-9), cut * (1 + 1e-9), 2.5 * cut, -40.0 * cut, 0.5 * cut, -0.5 * cut, 1e-6 * cut]
    return f + [cut * (j + 1) / (k + 1) * (-1) ** j for j in range(k)]


def pred_difflim(inp):
    """theorem difflim_valid_mtf on the real code: 1 at zero frequency, within [0, 1], even, 0 at and beyond the cut-off; plus: never
    increasing with |f|, scalar frequency = one-element array, frequencies=None gives the band [0, cut-off] itself, argument untouched"""
    ot = _impl()[1]
    fno, wvl = inp['fno'], inp['wavelength']
    f = np.asarray(inp['freqs'], dtype=float)
    keep = f.copy()
    cut = 1000.0 / (wvl * fno)
    mtf = np.asarray(ot.diffraction_limited_mtf(fno, wvl, frequencies=f))
    if not np.array_equal(f, keep):
        return False, 'diffraction_limited_mtf modified the caller\'s frequencies'
    if mtf.shape != f.shape or not np.isfinite(mtf).all():
        return False, f'shape {mtf.shape} / non-finite values for {f.shape} frequencies'
    z = np.asarray(ot.diffraction_limited_mtf(fno, wvl, frequencies=np.zeros(1)))
    if abs(float(z[0]) - 1.0) > 1e-12:
        return False, f'MTF(0) = {float(z[0])!r}, not 1'
    if mtf.min() < -1e-12 or mtf.max() > 1 + 1e-12:
        return False, f'MTF outside [0, 1]: min {mtf.min()!r} max {mtf.max()!r}'
    neg = np.asarray(ot.diffraction_limited_mtf(fno, wvl, frequencies=-f))
    if not np.allclose(neg, mtf, rtol=0, atol=1e-12):
        k = int(np.argmax(np.abs(neg - mtf)))
        return False, f'not even: MTF({-f[k]!r}) = {neg[k]!r}, MTF({f[k]!r}) = {mtf[k]!r}'
    beyond = np.abs(f) >= cut * (1 + 1e-12)
    if beyond.any() and np.abs(mtf[beyond]).max() > 1e-12:
        k = int(np.argmax(np.where(beyond, np.abs(mtf), 0)))
        return False, f'MTF({f[k]!r}) = {mtf[k]!r} beyond the cut-off {cut!r} cy/mm'
    order = np.argsort(np.abs(f), kind='stable')
    if (np.diff(mtf[order]) > 1e-12).any():
        k = int(np.argmax(np.diff(mtf[order]) > 1e-12))
        return False, f'MTF increases with |f|: MTF({f[order][k]!r}) = {mtf[order][k]!r} < MTF({f[order][k + 1]!r}) = {mtf[order][k + 1]!r}'
    for k in range(len(f)):
        one = ot.diffraction_limited_mtf(fno, wvl, frequencies=float(f[k]))
        if abs(float(one) - float(mtf[k])) > 1e-12:
            return False, f'scalar frequency {f[k]!r}: {float(one)!r}, as an array element {mtf[k]!r}'
    n = inp.get('samples', 16)
    fr, mt = ot.diffraction_limited_mtf(fno, wvl, samples=n)
    ref = np.asarray(ot.diffraction_limited_mtf(fno, wvl, frequencies=np.asarray(fr)))
    if len(fr) != n or abs(fr[0]) > 0 or abs(fr[-1] - cut) > 1e-9 * cut or not np.allclose(mt, ref, rtol=0, atol=1e-12):
        return False, f'frequencies=None: band [{fr[0]!r}, {fr[-1]!r}] (cut-off {cut!r}), {len(fr)} samples, values vs explicit call differ by {np.abs(mt - ref).max()!r}'
    return True, 'ok'


def pred_longexp(inp):
    """theorem longexposure_otf_valid on the real code: 1 at zero frequency, within (0, 1] (underflow to 0 allowed), never increasing"""
    ot = _impl()[1]
    nu = np.sort(np.abs(np.asarray(inp['nu'], dtype=float)))
    keep = nu.copy()
    v = np.asarray(ot.longexposure_otf(nu, inp['Cn'], inp['z'], inp['f'], inp['lambdabar']))
    if not np.array_equal(nu, keep):
        return False, 'longexposure_otf modified the caller\'s frequencies'
    v0 = float(ot.longexposure_otf(np.zeros(1), inp['Cn'], inp['z'], inp['f'], inp['lambdabar'])[0])
    if v0 != 1.0:
        return False, f'OTF(0) = {v0!r}, not 1'
    if v.shape != nu.shape or not np.isfinite(v).all() or v.min() < 0 or v.max() > 1:
        return False, f'OTF outside [0, 1]: min {v.min()!r} max {v.max()!r}'
    if (np.diff(v) > 0).any():
        k = int(np.argmax(np.diff(v) > 0))
        return False, f'OTF increases with frequency: OTF({nu[k]!r}) = {v[k]!r} < OTF({nu[k + 1]!r}) = {v[k + 1]!r}'
    return True, 'ok'


PREDS = {'longexp': pred_longexp, 'difflim': pred_difflim, 'conv_delta': pred_conv_delta, 'conv_comm': pred_conv_comm, 'conv_linear': pred_conv_linear,
         'conv_sum': pred_conv_sum, 'conv_direct': pred_conv_direct, 'tf_ones': pred_tf_ones, 'tf_list': pred_tf_list,
         'tf_conventions': pred_tf_conventions, 'tf_callable': pred_tf_callable, 'tf_callable_grids': pred_tf_callable_grids, 'tf_psf': pred_tf_psf, 'mtf': pred_mtf,
         'otf_container': pred_otf_container, 'input_variants': pred_input_variants, 'layouts': pred_layouts}


def _run_pred(name, inp):
    try:
        return PREDS[name](inp)
    except Exception as ex:   # the property says a value is returned
        return False, f'raised {type(ex).__name__}: {ex}'


def _check(ctx, name, inp, desc, nontrivial=True, tag=None):
    ctx.case(name, desc, nontrivial=nontrivial, tag=tag)
    ok, detail = _run_pred(name, inp)
    if not ok:
        ctx.pred_fail(name, dict(inp, item=name), detail)
    return ok


def _l(a):
    return np.asarray(a, dtype=float).tolist()


def _cl(a):
    a = np.asarray(a, dtype=complex)
    return np.stack([a.real, a.imag], axis=-1).tolist()


# ------------------------------------------------------------------------------------------------
# case generation
# ------------------------------------------------------------------------------------------------
def _shapes(ctx):
    B = ctx.scale(6, 10)
    if ctx.widen:
        B += 2
    small = [(m, n) for m in range(1, B + 1) for n in range(1, B + 1)]
    big = [(7, 10), (9, 8), (12, 5), (11, 13), (6, 9), (10, 10)] if not ctx.thorough else \
        [(7, 10), (9, 8), (12, 5), (11, 13), (6, 9), (10, 10), (13, 12), (16, 9), (9, 16), (15, 15), (14, 11),
         (17, 24), (24, 17), (20, 20), (32, 5), (3, 31), (1, 29), (30, 1)]
    return small, big


def _psfs(rng, shape):
    m, n = shape
    j, i = np.meshgrid(np.arange(m) - m // 2, np.arange(n) - n // 2, indexing='ij')
    out = [('random', rng.random(shape) + 0.01),
           ('gaussian', np.exp(-((j - 0.3) ** 2 / 3.0 + (i + 0.4) ** 2 / 1.5))),
           ('constant', np.full(shape, 0.37))]
    d = np.zeros(shape)
    d[rng.integers(m), rng.integers(n)] = 2.5
    out.append(('impulse', d))
    sp = rng.random(shape) * (rng.random(shape) < 0.3)
    sp[m // 2, n // 2] += 0.5
    out.append(('sparse', sp))
    return out


def _tf_lists(rng, shape, k):
    """k transfer functions: real, complex, and Hermitian (FFT of a real kernel) arrays, moduli O(1)"""
    out = []
    for r in range(k):
        kind = (r + int(rng.integers(3))) % 3
        if kind == 0:
            t = 0.5 + rng.random(shape)
        elif kind == 1:
            t = (0.5 + rng.random(shape)) * np.exp(2j * np.pi * rng.random(shape))
        else:
            t = np.fft.fft2(rng.standard_normal(shape) / np.sqrt(shape[0] * shape[1]))
        out.append(np.asarray(t, dtype=complex))
    return out


CALL_KINDS = ['jitter', 'smear', 'pixel', 'olpf', 'fx', 'fy', 'ft', 'phase', 'pixel', 'smear', 'olpf', 'const', 'noarg', 'slit', 'pinhole',
              'slit/x', 'slit/y']


_DECK = {}


def _calls(rng, dx, k):
    """callables of fx / fy / fr / ft.  Widths up to 4 dx (sinc and cos change sign inside the band), a complex linear
    phase, asymmetric functions of fx / fy / ft, a scalar-returning and a zero-parameter callable"""
    out = []
    for _ in range(k):
        # dealt from a shuffled deck (refilled when empty), so that every kind is executed once per len(CALL_KINDS) draws
        deck = _DECK.setdefault(id(rng), [])
        if not deck:
            deck.extend(CALL_KINDS[int(i)] for i in rng.permutation(len(CALL_KINDS)))
        kind = deck.pop()
        if kind == 'jitter':
            c = (kind, float(np.round(rng.uniform(0.2, 1.2) * dx, 3)), 0.0)
        elif kind == 'smear':
            w = float(np.round(rng.uniform(0.3, 4.0) * dx, 3))
            h = float(np.round(rng.uniform(0.3, 4.0) * dx, 3))
            z = int(rng.integers(4))
            c = (kind, 0.0 if z == 1 else w, 0.0 if z == 2 else h)
        elif kind == 'pixel':
            c = (kind, float(np.round(rng.uniform(0.2, 4.0) * dx, 3)), float(np.round(rng.uniform(0.2, 4.0) * dx, 3)))
        elif kind.startswith('slit'):  # crossed (both widths), x only, y only: each variant is in the deck
            w = float(np.round(rng.uniform(0.3, 4.0) * dx, 3))
            h = float(np.round(rng.uniform(0.3, 4.0) * dx, 3))
            c = ('slit', 0.0 if kind == 'slit/y' else w, 0.0 if kind == 'slit/x' else h)
        elif kind == 'pinhole':      # radius <= 0.9 dx: argument of jinc below 2 pi 0.9 / sqrt 2 ~ 4 (the driver's series is exact there)
            c = (kind, float(np.round(rng.uniform(0.2, 0.9) * dx, 3)), 0.0)
        elif kind == 'olpf':
            c = (kind, float(np.round(rng.uniform(0.2, 3.0) * dx, 3)), float(np.round(rng.uniform(0.2, 3.0) * dx, 3)))
        elif kind in ('fx', 'fy'):
            c = (kind, float(np.round(rng.uniform(0, 2) * dx * dx, 3)), float(np.round(rng.uniform(-1, 1) * dx, 3)))
        elif kind == 'phase':
            c = (kind, float(np.round(rng.uniform(-2, 2) * dx, 3)), float(np.round(rng.uniform(-2, 2) * dx, 3)))
        elif kind in ('const', 'noarg'):
            c = (kind, float(np.round(rng.uniform(-1.5, 1.5), 3)), 0.0)
        else:
            c = (kind, float(np.round(rng.uniform(-0.4, 0.4), 3)), float(np.round(rng.uniform(-0.4, 0.4), 3)))
        out.append(c)
    return out


def _fl(a):
    return ' '.join(C.f2w(x) for x in np.asarray(a, dtype=float).ravel())


def _cfl(a):
    a = np.asarray(a, dtype=complex).ravel()
    return ' '.join(C.f2w(z.real) + ' ' + C.f2w(z.imag) for z in a)


def _parse(row, *counts):
    """split a reply of floats into arrays of the given sizes"""
    vals = [C.w2f(t) for t in row.split()]
    if len(vals) != sum(counts):
        raise C.ToolError(f'driver reply has {len(vals)} numbers, expected {sum(counts)}: {row[:80]}')
    out, k = [], 0
    for c in counts:
        out.append(np.array(vals[k:k + c]))
        k += c
    return out


def correspondence(ctx):
    _DECK.clear()
    for name, inp, fname in _corpus():
        _check(ctx, name, inp, {'corpus': fname}, True, 'corpus')
    cv, ot, dg, dt, ft = _impl()
    rng = ctx.rng
    small, big = _shapes(ctx)
    lines, todo = [], []

    def ask(line, fn):
        lines.append(line)
        todo.append(fn)

    # ---------------- index maps: rotations, origin, frequency numerators
    for n in range(1, ctx.scale(40, 200)):
        def chk(row, n=n):
            parts = [p.split() for p in row.split('|')]
            org = int(parts[0][0])
            isrc, fsrc, fu1, fu0 = ([int(t) for t in p] for p in parts[1:])
            a = np.arange(n)
            ctx.case('index_maps', {'n': n}, nontrivial=n > 1, tag=f'par{n % 2}')
            got = [n // 2, list(np.fft.ifftshift(a)), list(np.fft.fftshift(a)),
                   list(np.rint(ft.forward_ft_unit(0.5, n) * n * 0.5).astype(int)),
                   list(np.rint(ft.forward_ft_unit(0.5, n, shift=False) * n * 0.5).astype(int))]
            if got != [org, isrc, fsrc, fu1, fu0]:
                ctx.disagree('index_maps', {'n': n}, str(got)[:200], str([org, isrc, fsrc, fu1, fu0])[:200])
        ask(f'idx {n}', chk)

    # ---------------- conv: model (direct sum and pipeline) vs implementation, and the algebraic laws
    for shape in small + big:
        m, n = shape
        nt = m * n > 1
        tag = f'par{m % 2}{n % 2}{"sq" if m == n else ""}'
        o = rng.uniform(-1, 1, shape)
        h = rng.uniform(-1, 1, shape)
        o2 = _obj(shape, 1)
        a, b = float(np.round(rng.uniform(-2, 2), 3)), float(np.round(rng.uniform(-2, 2), 3))
        desc = {'shape': list(shape)}

        def chk(row, o=o, h=h, shape=shape, desc=desc, nt=nt, tag=tag):
            direct, route = (x.reshape(shape) for x in _parse(row, o.size, o.size))
            ctx.case('conv', desc, nontrivial=nt, tag=tag)
            try:
                got = cv.conv(o, h)
            except Exception as ex:
                ctx.disagree('conv', desc, f'raised {type(ex).__name__}: {ex}', 'value')
                return
            if not _close(got, direct):
                ctx.disagree('conv', desc, _err(got, direct), 'centred circular convolution (direct double sum)')
            if not _close(route, direct):
                ctx.disagree('conv.model_route', desc, _err(route, direct), 'model pipeline vs model direct sum')
        ask(f'conv {m} {n} {_fl(o)} {_fl(h)}', chk)
        if (m + n) % 3 == 0:
            # single precision: same laws at the float32 tolerance of DESIGN 2.3, and the dtype is kept
            o32, h32 = o.astype(np.float32), h.astype(np.float32)

            def chk32(row, o32=o32, h32=h32, shape=shape, desc=desc, nt=nt, tag=tag):
                direct, _ = (x.reshape(shape) for x in _parse(row, o32.size, o32.size))
                d32 = dict(desc, dtype='float32')
                ctx.case('conv', d32, nontrivial=nt, tag=tag + '/f32')
                try:
                    got = cv.conv(o32, h32)
                except Exception as ex:
                    ctx.disagree('conv', d32, f'raised {type(ex).__name__}: {ex}', 'value')
                    return
                if got.dtype != np.float32 or not _close(got.astype(float), direct, 2e-4):
                    ctx.disagree('conv', d32, f'{_err(got.astype(float), direct)}, dtype {got.dtype}',
                                 'centred circular convolution (direct double sum), float32')
            ask(f'conv {m} {n} {_fl(o32)} {_fl(h32)}', chk32)
        base = {'o': _l(o), 'h': _l(h)}
        _check(ctx, 'conv_comm', base, desc, nt, tag)
        _check(ctx, 'conv_sum', base, desc, nt, tag)
        _check(ctx, 'conv_linear', dict(base, o2=_l(o2), a=a, b=b), dict(desc, a=a, b=b), nt, tag)
        if m * n <= 64:
            _check(ctx, 'conv_direct', base, desc, nt, tag)
        # impulses: every position on small arrays, a few on large ones
        pos = list(itertools.product(range(m), range(n)))
        if m * n > ctx.scale(30, 81):
            pos = [pos[int(k)] for k in rng.choice(len(pos), size=6, replace=False)] + [(m // 2, n // 2), (0, 0), (m - 1, n - 1)]
        oo = _obj(shape)
        for (j0, i0) in pos:
            _check(ctx, 'conv_delta', {'o': _l(oo), 'pos': [j0, i0]}, {'shape': list(shape), 'pos': [j0, i0]},
                   nt, tag + ('origin' if (j0, i0) == (m // 2, n // 2) else ''))
        _check(ctx, 'tf_psf', base, desc, nt, tag)
        variant = ('float32', 'int', 'fortran', 'strided', 'reversed')[(m * 3 + n) % 5]
        _check(ctx, 'input_variants', dict(base, variant=variant), dict(desc, variant=variant), nt, variant)
        # purity: no caller-owned array is modified, a second call gives the same answer
        C.pure_call(ctx, 'conv', dict(base, item='conv_comm'), cv.conv, o.copy(), h.copy())

    # ---------------- transfer-function lists given as arrays
    reps = ctx.scale(1, 4)
    for shape in small + big:
        m, n = shape
        nt = m * n > 1
        for shift in (False, True):
            _check(ctx, 'tf_ones', {'o': _l(_obj(shape, 2)), 'shift': shift}, {'shape': list(shape), 'shift': shift}, nt,
                   f'shift{int(shift)}/par{m % 2}{n % 2}')
        for rep in range(reps):
            for shift in (False, True):
                k = int(rng.integers(0, 5))
                o = rng.uniform(-1, 1, shape)
                tfs = _tf_lists(rng, shape, k)
                desc = {'shape': list(shape), 'k': k, 'shift': shift, 'rep': rep}
                tag = f'k{k}/shift{int(shift)}/par{m % 2}{n % 2}'

                def chk(row, o=o, tfs=tfs, shape=shape, shift=shift, desc=desc, nt=nt, tag=tag):
                    route, direct = (x.reshape(shape) for x in _parse(row, o.size, o.size))
                    ctx.case('tf_arrays', desc, nontrivial=nt, tag=tag)
                    try:
                        got = cv.apply_transfer_functions(o, 1.0, tfs, shift=shift)
                    except Exception as ex:
                        ctx.disagree('tf_arrays', desc, f'raised {type(ex).__name__}: {ex}', 'value')
                        return
                    if not _close(got, direct):
                        ctx.disagree('tf_arrays', desc, _err(got, direct), 'circular convolution with ifft2 of the product')
                    if not _close(route, direct):
                        ctx.disagree('tf_arrays.model_route', desc, _err(route, direct), 'model pipeline vs model direct sum')
                ask(f'tf {int(shift)} {m} {n} {k} {_fl(o)} ' + ' '.join(_cfl(t) for t in tfs), chk)
                inp = {'o': _l(o), 'tfs': [_cl(t) for t in tfs], 'shift': shift}
                _check(ctx, 'tf_list', inp, desc, nt, tag)
                if k >= 1:
                    C.pure_call(ctx, 'tf_arrays', dict(inp, item='tf_list'), cv.apply_transfer_functions, o.copy(), 1.0, [t.copy() for t in tfs], shift=shift)
                if not shift:
                    _check(ctx, 'tf_conventions', inp, desc, nt, tag)

    # ---------------- transfer-function lists given as callables of fx, fy, fr, ft
    for shape in small + big:
        m, n = shape
        nt = m * n > 1
        for rep in range(reps):
            dx = [1.0, 0.5, 2.0][int(rng.integers(3))]
            k = int(rng.integers(1, 5))
            calls = _calls(rng, dx, k)
            o = rng.uniform(-1, 1, shape)
            desc = {'shape': list(shape), 'dx': dx, 'calls': [list(c) for c in calls]}
            for shift in (False, True):
                def chk(row, o=o, calls=calls, shape=shape, shift=shift, dx=dx, desc=desc, nt=nt):
                    (model,) = (x.reshape(shape) for x in _parse(row, o.size))
                    d2 = dict(desc, shift=shift)
                    ctx.case('tf_callables', d2, nontrivial=nt, tag=f'shift{int(shift)}/' + '+'.join(c[0] for c in calls))
                    try:
                        got = cv.apply_transfer_functions(o, dx, [_callable(*c) for c in calls], shift=shift)
                    except Exception as ex:
                        ctx.disagree('tf_callables', d2, f'raised {type(ex).__name__}: {ex}', 'value')
                        return
                    if not _close(got, model):
                        ctx.disagree('tf_callables', d2, _err(got, model),
                                     'model: callables evaluated on the frequency grid of the convention')
                    # the same callables on caller-supplied grids of that convention (1-D / 2-D, with / without fr, ft)
                    gk = ('1d', '2d')[(shape[0] + shape[1] + int(shift)) % 2]
                    pol = (shape[0] * shape[1]) % 3 == 0
                    d3 = dict(d2, grid=gk, polar=pol)
                    ctx.case('tf_callables_supplied', d3, nontrivial=nt, tag=f'shift{int(shift)}/{gk}{"/polar" if pol else ""}')
                    try:
                        got2 = cv.apply_transfer_functions(o, None, [_callable(*c) for c in calls], shift=shift,
                                                           **_supplied(shape, dx, shift, gk, pol))
                    except Exception as ex:
                        ctx.disagree('tf_callables_supplied', d3, f'raised {type(ex).__name__}: {ex}', 'value')
                        return
                    if not _close(got2, model):
                        ctx.disagree('tf_callables_supplied', d3, _err(got2, model),
                                     'model: callables evaluated on the (caller-supplied) frequency grid of the convention')
                ask(f'tfcall {int(shift)} {m} {n} {C.f2w(dx)} {k} ' + ' '.join(f'{c[0]} {C.f2w(c[1])} {C.f2w(c[2])}' for c in calls)
                    + ' ' + _fl(o), chk)
            _check(ctx, 'tf_callable', {'o': _l(o), 'dx': dx, 'calls': [list(c) for c in calls]}, desc, nt,
                   '+'.join(c[0] for c in calls))
            if k >= 2:      # array first / array in the middle / array last, on the internally built grids
                flags = [bool((j + rep) % 2 == 0) for j in range(k)]
                _check(ctx, 'tf_callable', {'o': _l(o), 'dx': dx, 'calls': [list(c) for c in calls], 'as_array': flags},
                       dict(desc, as_array=flags), nt, 'mixed/' + ''.join('A' if f else 'c' for f in flags))
            for gk, pol, mixed in (('1d', False, False), ('2d', False, True), ('2d', True, False), ('1d', True, True))[rep % 2::2]:
                _check(ctx, 'tf_callable_grids', {'o': _l(o), 'dx': dx, 'calls': [list(c) for c in calls], 'grid': gk,
                                                  'polar': pol, 'mixed': mixed},
                       dict(desc, grid=gk, polar=pol, mixed=mixed), nt, f'{gk}{"/polar" if pol else ""}{"/mixed" if mixed else ""}')

    # ---------------- MTF / PTF / OTF of non-negative PSFs
    for shape in small + big:
        m, n = shape
        nt = m * n > 1
        for (kind, p) in _psfs(rng, shape):
            dx = [1.0, 0.25][int(rng.integers(2))]
            desc = {'shape': list(shape), 'psf': kind, 'dx': dx}

            def chk(row, p=p, shape=shape, dx=dx, desc=desc, nt=nt, kind=kind):
                N = p.size
                mm, mp, mo, md = _parse(row, N, N, 2 * N, 2 * N)
                mm = mm.reshape(shape)
                mo = (mo[0::2] + 1j * mo[1::2]).reshape(shape)
                md = (md[0::2] + 1j * md[1::2]).reshape(shape)
                mp = mp.reshape(shape)
                ctx.case('mtf', desc, nontrivial=nt, tag=f'{kind}/par{shape[0] % 2}{shape[1] % 2}')
                try:
                    g_m = ot.mtf_from_psf(p.copy(), dx).data
                    g_p = ot.ptf_from_psf(p.copy(), dx).data
                    g_o = ot.otf_from_psf(p.copy(), dx).data
                except Exception as ex:
                    ctx.disagree('mtf', desc, f'raised {type(ex).__name__}: {ex}', 'value')
                    return
                if not _close(g_o, md):
                    ctx.disagree('otf', desc, _err(g_o, md), 'centred DFT sum / total (direct)')
                if not _close(g_m, np.abs(md)):
                    ctx.disagree('mtf', desc, _err(g_m, np.abs(md)), '|centred DFT sum| / total (direct)')
                # PTF: compared as a phase factor, away from OTF zeros (the argument of 0 is arbitrary)
                w = np.abs(md) > 1e-6
                if g_p.shape != md.shape or not _close(np.exp(1j * g_p[w]), md[w] / np.abs(md[w]), 1e-8):
                    ctx.disagree('ptf', desc, 'phase factor differs', 'arg of the direct OTF')
                if not (_close(mo, md) and _close(mm, np.abs(md)) and _close(np.exp(1j * mp[w]), md[w] / np.abs(md[w]), 1e-8)):
                    ctx.disagree('mtf.model_route', desc, _err(mo, md), 'model pipeline vs model direct sum')
            ask(f'mtf {m} {n} {_fl(p)}', chk)
            _check(ctx, 'mtf', {'psf': _l(p), 'dx': dx}, desc, nt, f'{kind}/par{m % 2}{n % 2}')
            if kind in ('random', 'gaussian'):
                _check(ctx, 'otf_container', {'psf': _l(p), 'dx': dx}, desc, nt, f'{kind}/par{m % 2}{n % 2}')

    # ---------------- memory layouts x dtypes, every entry point, spatially non-uniform data
    lshapes = [(3, 4), (4, 6), (5, 5), (1, 6), (7, 2)] + ([(8, 9), (6, 6), (12, 5)] if ctx.thorough else [])
    ldt = ('float64', 'float32', 'int32', 'uint8', 'int64', 'uint16')
    for si, shape in enumerate(lshapes):
        o = np.rint(rng.uniform(-40, 40, shape))
        h = np.rint(rng.uniform(0, 60, shape))
        for fi, fn in enumerate(LAYOUT_FNS):
            for dtn in (ldt if ctx.thorough else ('float64', ldt[(si + fi) % len(ldt)])):
                oo = np.abs(o) if dtn.startswith('u') else o
                inp = {'fn': fn, 'o': _l(oo), 'h': _l(h), 'dtype': dtn, 'dx': [0.5, 1.0, 2.0][si % 3]}
                _check(ctx, 'layouts', inp, {'fn': fn, 'shape': list(shape), 'dtype': dtn}, shape[0] * shape[1] > 1, f'{fn}/{dtn}')

    # ---------------- large / prime / long-thin shapes (size-gated code paths): property predicates only
    large = [(33, 37), (64, 64), (128, 9), (41, 41), (3, 353)] + ([(97, 101), (256, 5), (128, 128)] if ctx.thorough else [])
    for shape in large:
        m, n = shape
        tag = f'large/par{m % 2}{n % 2}'
        o, h, o2 = rng.uniform(-1, 1, shape), rng.uniform(-1, 1, shape), _obj(shape, 1)
        desc = {'shape': list(shape), 'large': True}
        base = {'o': _l(o), 'h': _l(h)}
        _check(ctx, 'conv_comm', base, desc, True, tag)
        _check(ctx, 'conv_sum', base, desc, True, tag)
        _check(ctx, 'conv_linear', dict(base, o2=_l(o2), a=1.25, b=-0.5), desc, True, tag)
        for (j0, i0) in [(m // 2, n // 2), (0, 0), (m - 1, n - 1), (int(rng.integers(m)), int(rng.integers(n)))]:
            _check(ctx, 'conv_delta', {'o': _l(o), 'pos': [j0, i0]}, dict(desc, pos=[j0, i0]), True, tag)
        _check(ctx, 'tf_psf', base, desc, True, tag)
        for shift in (False, True):
            _check(ctx, 'tf_ones', {'o': _l(o), 'shift': shift}, dict(desc, shift=shift), True, tag)
            _check(ctx, 'tf_list', {'o': _l(o), 'tfs': [_cl(t) for t in _tf_lists(rng, shape, 3)], 'shift': shift}, dict(desc, shift=shift), True, tag)
        _check(ctx, 'tf_conventions', {'o': _l(o), 'tfs': [_cl(t) for t in _tf_lists(rng, shape, 2)]}, desc, True, tag)
        calls = _calls(rng, 1.0, 3)
        _check(ctx, 'tf_callable', {'o': _l(o), 'dx': 1.0, 'calls': [list(c) for c in calls], 'as_array': [True, False, False]},
               dict(desc, calls=[list(c) for c in calls]), True, tag)
        _check(ctx, 'tf_callable_grids', {'o': _l(o), 'dx': 1.0, 'calls': [list(c) for c in calls], 'grid': '2d', 'polar': True},
               dict(desc, calls=[list(c) for c in calls], grid='2d'), True, tag)
        for (kind, p) in _psfs(rng, shape)[:2]:
            _check(ctx, 'mtf', {'psf': _l(p), 'dx': 1.0}, dict(desc, psf=kind), True, tag)
            _check(ctx, 'otf_container', {'psf': _l(p), 'dx': 0.5}, dict(desc, psf=kind), True, tag)

    # ---------------- diffraction_limited_mtf: the translated formula (driver) against the real function, and the MTF predicate
    for rep in range(ctx.scale(12, 60) * (2 if ctx.widen else 1)):
        fno = float(np.round(rng.choice([1.0, 2.8, 4.0, 8.0, 22.0, rng.uniform(0.7, 40.0)]), 3))
        wvl = float(np.round(rng.choice([0.4, 0.55, 0.6328, 1.55, 10.6, rng.uniform(0.2, 12.0)]), 4))
        cut = 1000.0 / (wvl * fno)
        f = _difflim_freqs(fno, wvl) + [float(x) for x in rng.uniform(-1.6 * cut, 1.6 * cut, size=6)]
        desc = {'fno': fno, 'wavelength': wvl, 'nfreq': len(f)}
        _check(ctx, 'difflim', {'fno': fno, 'wavelength': wvl, 'freqs': f, 'samples': int(rng.integers(2, 40))}, desc, True,
               f'cutoff1e{int(np.floor(np.log10(cut)))}')

        def chk(row, fno=fno, wvl=wvl, f=f, desc=desc):
            (model,) = _parse(row, len(f))
            ctx.case('difflim.model', desc, nontrivial=True, tag='formula')
            try:
                got = np.asarray(ot.diffraction_limited_mtf(fno, wvl, frequencies=np.asarray(f)), dtype=float)
            except Exception as ex:
                ctx.disagree('difflim', desc, f'raised {type(ex).__name__}: {ex}', 'values')
                return
            # arccos near the cut-off: |d arccos| ~ sqrt(2 eps) for an eps change of its argument -> absolute 1e-7 there, 1e-12 elsewhere
            tol = np.where(np.abs(np.abs(np.asarray(f)) / (1000.0 / (wvl * fno)) - 1) < 1e-6, 1e-7, 1e-12)
            if got.shape != model.shape or not (np.abs(got - model) <= tol).all():    # (a NaN is a disagreement)
                k = int(np.argmax(~(np.abs(got - model) <= tol))) if got.shape == model.shape else 0
                ctx.disagree('difflim', dict(desc, f=f[k]), f'{got[k] if got.shape == model.shape else got.shape!r}', f'{model[k]!r}')
        ask('difflim ' + _fl([fno, wvl] + f), chk)

    # ---------------- atmospheric helpers of otf.py: translated formulas (driver) against the real functions
    for rep in range(ctx.scale(8, 40) * (2 if ctx.widen else 1)):
        Cn = float(10.0 ** rng.uniform(-17, -13))
        z = float(np.round(rng.uniform(10, 20000), 1))
        f = float(np.round(rng.uniform(50, 4000), 1))
        lam = float(np.round(rng.uniform(0.4, 2.0), 3))
        nu = [0.0] + [float(x) for x in np.round(rng.uniform(0, 400, 8), 3)]
        desc = {'Cn': Cn, 'z': z, 'f': f, 'lambdabar': lam}
        _check(ctx, 'longexp', dict(desc, nu=nu), desc, True, f'Cn1e{int(np.floor(np.log10(Cn)))}')

        def chk(row, desc=desc, nu=nu, Cn=Cn, z=z, f=f, lam=lam):
            (model,) = _parse(row, len(nu))
            ctx.case('longexp.model', desc, nontrivial=True, tag='formula')
            got = np.asarray(ot.longexposure_otf(np.asarray(nu), Cn, z, f, lam), dtype=float)
            if got.shape != model.shape or not (np.abs(got - model) <= 1e-12).all():
                ctx.disagree('longexp', desc, f'{got.tolist()}', f'{model.tolist()}')
        ask('longexp ' + _fl([Cn, z, f, lam, 2.91] + nu), chk)
        r0 = float(np.round(rng.uniform(0.02, 0.4), 4))
        rr = [float(x) for x in np.round(rng.uniform(0, 3, 5), 4)]

        def chk(row, r0=r0, rr=rr):
            (model,) = _parse(row, len(rr))
            ctx.case('komogorov.model', {'r0': r0}, nontrivial=True, tag='formula')
            got = np.asarray(ot.komogorov(np.asarray(rr), r0), dtype=float)
            if not np.allclose(got, model, rtol=1e-12, atol=0):
                ctx.disagree('komogorov', {'r0': r0, 'r': rr}, f'{got.tolist()}', f'{model.tolist()}')
        ask('komogorov ' + _fl([r0] + rr), chk)
        P, T, Ct = float(np.round(rng.uniform(600, 1050), 1)), float(np.round(rng.uniform(230, 320), 2)), float(10.0 ** rng.uniform(-5, -2))

        def chk(row, P=P, T=T, Ct=Ct):
            (model,) = _parse(row, 1)
            ctx.case('estimate_Cn.model', {'P': P, 'T': T, 'Ct': Ct}, nontrivial=True, tag='formula')
            got = float(ot.estimate_Cn(P, T, Ct))
            if abs(got - model[0]) > 1e-12 * abs(model[0]):
                ctx.disagree('estimate_Cn', {'P': P, 'T': T, 'Ct': Ct}, f'{got!r}', f'{model[0]!r}')
        ask('estcn ' + _fl([P, T, Ct]), chk)

    rows = C.lean_driver('C15', lines)
    for row, fn in zip(rows, todo):
        if row.strip() == 'bad-op':
            raise C.ToolError('driver C15 answered bad-op')
        fn(row)


def _corpus():
    """minimised past failures (corpus/C15/*.json), always evaluated first"""
    import glob
    import json
    import os
    out = []
    for path in sorted(glob.glob(os.path.join(C.VERIF, 'corpus', 'C15', '*.json'))):
        rec = json.load(open(path))
        out.append((rec['item'], rec['input'], os.path.basename(path)))
    return out


# ------------------------------------------------------------------------------------------------
# failing-input search on the real code: small scope first
# ------------------------------------------------------------------------------------------------
def search(ctx, hints):
    rng = np.random.Generator(np.random.PCG64(ctx.seed + 1))
    shapes = sorted(((m, n) for m in range(1, 7) for n in range(1, 7)), key=lambda s: (s[0] * s[1], s))

    def found(name, inp, detail):
        return {'item': name, 'input': dict(inp, item=name), 'detail': detail}

    for name, inp, fname in _corpus():
        ok, detail = _run_pred(name, inp)
        if not ok:
            return found(name, inp, f'[corpus/{fname}] {detail}')
    inp = {'Cn': 1e-14, 'z': 1000.0, 'f': 500.0, 'lambdabar': 0.55, 'nu': [0.0, 1.0, 5.0, 20.0, 100.0]}
    ok, detail = _run_pred('longexp', inp)
    if not ok:
        return found('longexp', inp, detail)
    for fno, wvl in ((1.0, 1.0), (4.0, 0.5), (8.0, 0.6328)):
        inp = {'fno': fno, 'wavelength': wvl, 'freqs': _difflim_freqs(fno, wvl, 5), 'samples': 8}
        ok, detail = _run_pred('difflim', inp)
        if not ok:
            return found('difflim', inp, detail)
    for shape in shapes:
        m, n = shape
        o, h, o2 = _obj(shape), _obj(shape, 3), _obj(shape, 5)
        tests = []
        for shift in (False, True):
            tests.append(('tf_ones', {'o': _l(o), 'shift': shift}))
        tests.append(('conv_delta', {'o': _l(o), 'pos': [m // 2, n // 2]}))
        for (j0, i0) in itertools.product(range(m), range(n)):
            if (j0, i0) != (m // 2, n // 2):
                tests.append(('conv_delta', {'o': _l(o), 'pos': [j0, i0]}))
        tests.append(('conv_comm', {'o': _l(o), 'h': _l(h)}))
        tests.append(('conv_sum', {'o': _l(o), 'h': _l(h)}))
        tests.append(('conv_linear', {'o': _l(o), 'o2': _l(o2), 'h': _l(h), 'a': 1.5, 'b': -0.75}))
        tests.append(('conv_direct', {'o': _l(o), 'h': _l(h)}))
        tests.append(('tf_psf', {'o': _l(o), 'h': _l(h)}))
        for shift in (False, True):
            for k in (2, 3):
                tests.append(('tf_list', {'o': _l(o), 'tfs': [_cl(t) for t in _tf_lists(rng, shape, k)], 'shift': shift}))
        tests.append(('tf_conventions', {'o': _l(o), 'tfs': [_cl(t) for t in _tf_lists(rng, shape, 2)]}))
        for c in (('jitter', 0.7, 0.0), ('smear', 1.3, 0.0), ('pixel', 0.9, 1.1), ('fx', 0.5, 0.5), ('fy', 0.5, -0.5), ('ft', 0.3, 0.2),
                  ('pixel', 3.0, 2.5), ('olpf', 2.2, 1.9), ('slit', 2.5, 1.5), ('slit', 0.0, 1.5), ('slit', 2.5, 0.0), ('pinhole', 0.8, 0.0), ('phase', 1.25, -0.5), ('const', -0.75, 0.0), ('noarg', 0.5, 0.0)):
            tests.append(('tf_callable', {'o': _l(o), 'dx': 1.0, 'calls': [list(c)]}))
            for gk, pol in (('1d', False), ('2d', True)):
                tests.append(('tf_callable_grids', {'o': _l(o), 'dx': 1.0, 'calls': [list(c)], 'grid': gk, 'polar': pol}))
        for flags in ([True, False], [False, True], [True, False, True]):
            cl = [['pixel', 3.0, 2.5], ['jitter', 0.7, 0.0], ['phase', 0.5, 0.25]][:len(flags)]
            tests.append(('tf_callable', {'o': _l(o), 'dx': 1.0, 'calls': cl, 'as_array': flags}))
        tests.append(('tf_callable_grids', {'o': _l(o), 'dx': 0.5, 'calls': [['jitter', 0.4, 0.0], ['pixel', 0.45, 0.55]],
                                            'grid': '2d', 'polar': False, 'mixed': True}))
        for kind, p in _psfs(rng, shape):
            tests.append(('mtf', {'psf': _l(p), 'dx': 1.0}))
            tests.append(('otf_container', {'psf': _l(p), 'dx': 1.0}))
        for variant in ('float32', 'int', 'fortran', 'strided'):
            tests.append(('input_variants', {'o': _l(o), 'h': _l(h), 'variant': variant}))
        for name, inp in tests:
            ok, detail = _run_pred(name, inp)
            if not ok:
                return found(name, inp, detail)
    for shape in ((2, 3), (3, 4), (4, 6)):
        o, h = np.rint(20 * _obj(shape)), np.rint(np.abs(30 * _obj(shape, 3)))
        for fn in LAYOUT_FNS:
            for dtn in ('float64', 'float32', 'int32'):
                inp = {'fn': fn, 'o': _l(o), 'h': _l(h), 'dtype': dtn, 'dx': 0.5}
                ok, detail = _run_pred('layouts', inp)
                if not ok:
                    for kind in LAYOUTS:
                        ok1, d1 = _run_pred('layouts', dict(inp, layouts=[kind]))
                        if not ok1:
                            return found('layouts', dict(inp, layouts=[kind]), d1)
                    return found('layouts', inp, detail)
    for shape in ((33, 37), (64, 64)):
        o, h = _obj(shape), _obj(shape, 3)
        for name, inp in (('conv_delta', {'o': _l(o), 'pos': [shape[0] // 2, shape[1] // 2]}), ('conv_delta', {'o': _l(o), 'pos': [1, 2]}),
                          ('conv_comm', {'o': _l(o), 'h': _l(h)}), ('tf_psf', {'o': _l(o), 'h': _l(h)}),
                          ('tf_ones', {'o': _l(o), 'shift': False}), ('tf_ones', {'o': _l(o), 'shift': True}),
                          ('tf_callable', {'o': _l(o), 'dx': 1.0, 'calls': [['pixel', 3.0, 2.5], ['jitter', 0.7, 0.0]]})):
            ok, detail = _run_pred(name, inp)
            if not ok:
                return found(name, inp, detail)
    return None


def replay(inp):
    inp = dict(inp.get('input', inp))
    name = inp.get('item')
    if name not in PREDS:
        print('no replay routine for item', name)
        return False
    shape = np.asarray(inp.get('o', inp.get('psf', [[0]]))).shape
    print(f'replaying {name} on shape {shape}: ' + ', '.join(f'{k}={v}' for k, v in inp.items() if k in ('pos', 'shift', 'dx', 'calls', 'a', 'b', 'grid', 'polar', 'mixed', 'as_array', 'container', 'variant', 'fn', 'dtype', 'layouts', 'fno', 'wavelength', 'samples', 'Cn', 'z', 'f', 'lambdabar')))
    ok, detail = _run_pred(name, inp)
    print(detail)
    return not ok


MANIFEST_ENTRY = {
    'technique': 'Lean 4 proof (finite Fourier analysis on ZMod m x ZMod n from root-of-unity orthogonality) over '
                 'translator-generated pipelines + correspondence of an executable model with the real functions',
    'text': ('PROVED for every finite abelian index group G and every DFT kernel satisfying root-of-unity orthogonality (itself '
             'proved from primitive roots; instance exp(-2 pi i/n)); the instance describing prysm is G = ZMod m x ZMod n, every '
             'm, n >= 1 (the source is 2-D: stacks of images are not covered): conv is the centred circular convolution '
             'sum_q o[q] h[p-q+c]; commutativity, linearity, impulse at the origin = identity, impulse at c+k = cyclic translation '
             'by k, total(image) = total(o) total(h); a list of transfer functions = their product, all-ones and the empty list = '
             'identity in both conventions, the two conventions agree (fftshift T vs T, whole lists); CALLABLES: arbitrary '
             'functions of the frequency coordinates evaluated on the grids that apply_transfer_functions builds (forward_ft_unit '
             'and its call site are translated from fttools.py / convolution.py) give the same image in both conventions; '
             'transform_psf fed to the shifted convention = conv; image total = object total x DC gain; MTF(0)=1, 0<=MTF<=1 for '
             'non-negative PSFs, MTF point-symmetric (mod shape), OTF Hermitian, MTF=|OTF|, OTF=MTF exp(i PTF) (real '
             'Complex.arg/exp), also when the source takes the angle without normalising; a container goes through the same '
             'transform as its .data; unit DC gain and evenness of jitter/smear/pixel/OLPF; objects.slit_ft (1 at DC, 2 for crossed slits) and '
             'pinhole_ft (jinc 0) even; diffraction_limited_mtf with the real arccos / sqrt / abs / pi, for every frequency, '
             'wavelength and f-number: 1 at zero frequency, within [0, 1], even, 0 at and beyond the cut-off 1/(lambda/1000 F#) '
             'and never increasing with |f| (clamp included); longexposure_otf with the real exp / real power: 1 at zero frequency, in '
             '(0, 1], never increasing, for every Cn and non-negative z, f, lambda, h. On the m x n grid the proved sums equal, '
             'sample for sample, the executable model double sums and roll index maps (bridge theorems). TRANSLATED each run (every '
             'statement of apply_transfer_functions must be recognised, else the item is reported as TIE-DEGRADED): conv, '
             'apply_transfer_functions (both conventions, loop step, `tf = tf(**kwargs)`, return leg), forward_ft_unit, the grid '
             'call site (axis, shift), transform_psf incl. the container branch, mtf/ptf/otf, the reference index, analytic '
             'transfer functions (jitter, smear, pixel, OLPF, slit_ft, pinhole_ft), _difflim_mtf_core and diffraction_limited_mtf '
             '(extinction, normalised frequency, array and scalar clamp), longexposure_otf (unit conversions, exponent 5/3), komogorov, '
             'estimate_Cn. RECOGNISER FACTS only (no Lean content): polar grids from cartesian, keyword table. MODELLED AND '
             'COMPARED (the driver runs the HAND model; the generated terms are tied to it by the gen_* theorems): pipelines with '
             'an O(N^2) DFT on doubles and direct sums vs prysm on all shapes up to the tier bound, impulses at every position, TF '
             'lists as real/complex arrays, as callables (sign-changing, complex, scalar-returning, zero-parameter, positionally '
             'curried slit_ft with None widths, pinhole_ft through jinc; kinds dealt from a deck so each runs every time) on built and on '
             'caller-supplied grids, mixed array/callable lists; predicates only on large/prime shapes (to 128x128), float32 / '
             'integer / Fortran / strided inputs, RichData and duck-typed containers, repeated calls (no aliasing); '
             'diffraction_limited_mtf vs the model formula at / around / beyond the cut-off, scalar and frequencies=None paths; '
             'longexposure_otf / komogorov / estimate_Cn vs the model formulas.'),
    'note': ('Trusted: scipy.fft computes the DFT sum (the contract the theorems assume, proved satisfiable); fftshift/ifftshift '
             'and fftfreq semantics (compared with the model index maps every run); floating point (1e-9 relative; float32 2e-4). '
             'Not covered: rounding error growth; the rasterisers of prysm.objects (slit, pinhole, siemensstar, ...); the '
             'frequency spacing reported by the returned RichData for non-square PSFs (single dx from axis 0).'),
}
