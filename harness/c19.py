"""C19 — ray tracing obeys Snell's law and keeps rays on surfaces  (partial).

correspondence: the Lean model (Drivers/C19.lean, Float instantiation) and prysm.x.raytracing trace the same
rays through the same prescriptions; positions and direction cosines are compared after every surface.  On the
REAL outputs the property's own predicates are evaluated with an oracle that shares no formula with the code:
the hit point must satisfy the conic's IMPLICIT equation, the true normal is the gradient of that implicit
equation, the mirror law / Snell's law are checked in vector form against it, |S'| = 1, nothing is NaN.
"""
import math
import numpy as np
from harness import common as C

TOL = 1e-9
EPS = 2.220446049250313e-16
# TOLERANCE RULE (stated once, used everywhere below)
#  * on-surface residual of the hit point: 2e-12 * (size of the LOCAL coordinates of the hit point), whatever the distance the
#    ray has travelled: Newton works in the surface frame from the vertex plane, so the residual must not grow with |Z0|;
#  * hit point on the incident ray, and model vs implementation positions / directions: 1e-9 (relative to max(1, |value|)) plus
#    16 eps * (distance from the ray origin to the hit point) when the ray is skew to the local axis or the frame is tilted --
#    a ray given by (origin, direction) is itself only defined to an ulp of that distance; a ray exactly along the local axis
#    of an untilted surface (the documented "from infinity" form P = [x, y, -1e99], S = [0, 0, 1]) gets NO allowance;
#    for directions the allowance is multiplied by (1 + 4|c|) / max(0.05, cos of the larger angle to the normal): a position
#    uncertainty dp becomes a direction uncertainty ~ dp * curvature / cos.
def _far_allowance(Pin, Pout, Sin, Rm):
    exact_axis = Rm is None and Sin[0] == 0 and Sin[1] == 0
    return 0.0 if exact_axis else 16 * EPS * float(np.linalg.norm(np.asarray(Pout) - np.asarray(Pin)))

RULE = ('seeded random prescriptions: single surfaces (plane, sphere, conic kappa in {-2,-1,-0.5,0,1}, off-axis conic '
        'shifted in x or y) reflecting and refracting (n<n\' and n>n\' below the critical angle), decentred and tilted '
        '(tilts up to 12 deg about all three axes) or untilted; two- and three-surface systems (singlet + mirror, two-mirror '
        'telescope, evaluation plane; a stop/dummy plane or a mirror with n=None INSIDE the glass followed by the glass exit, with '
        'n_ambient in {1, 1.33}: Snell is checked at every refracting surface against the true indices on both sides); each traced with a batch of rays aimed at chosen points of the first surface: the ray '
        'along the axis of symmetry (exactly r = 0 when untilted), paraxial, skew and steep (up to 50 deg) rays; every '
        'prescription is also traced through the documented single-ray (3,) call form.  Plus unit streams: reflect/refract '
        'with normals of random length, make_rotation_matrix, frame transforms, sag/gradient closures at random points and at '
        'the exact vertex, the polar->Cartesian gradient at r=0; glass->air refraction at strongly sloped surface points (gradient '
        'length up to 1.8) at 50%..99.9% of the critical angle about the true normal (unit stream and "nearcrit" rays of the '
        'traces); ray origins far and very far from the first surface (1e3, 1e5, 1e7, 1e9 length units, either side, tilted and '
        'decentred frames) and the documented "from infinity" form P = [x, y, -+1e99], S = [0, 0, +-1]; hits 1e-6..1e-12 of the '
        'aperture away from the vertex; tiny (0.02) and large (300) apertures; intersect() called directly with far origins, a '
        'non-zero initial guess s1 and a user eps; batches that mix hitting rays with rays that miss (parallel to the vertex plane, far '
        'outside the domain, NaN origin) with the batch-independence predicate trace(batch)[i] == trace([ray_i]); histories on Surface '
        'objects (build, trace, modify params / P / R / n / typ in place, trace again == freshly built surface); off_axis_conic_sag/der in both shift branches against the model and against Richardson derivatives of the same '
        'sag; Q-type freeform surfaces (FFp assembled from Q2d_and_der, base conic unshifted / shifted in x / shifted in y) traced '
        'in reflection and refraction, checked against the numerical gradient of their own sag (1e-7).  A case is non-trivial unless the ray is on-axis through an '
        'untilted plane; distinct = distinct (item, input) tuples')
ASSUMPTIONS = ['np.einsum / matmul / hypot / arctan2 / cos / sin / sqrt semantics (modelled; compared at 1e-9)',
               'Newton-Raphson convergence is NOT proved: the model runs the same iteration in Float; only the '
               'post-condition |F| < eps|F\'| is a theorem',
               'tolerance 1e-9 (absolute on direction cosines, relative to max(1,|P|) on positions): inputs are '
               'generated well away from grazing incidence, the critical angle and phi = 0']


def _impl():
    from prysm.x.raytracing import surfaces, spencer_and_murty
    from prysm import coordinates
    return surfaces, spencer_and_murty, coordinates


# ------------------------------------------------------------------------------------------------
# prescriptions
# ------------------------------------------------------------------------------------------------
def build_surface(spec):
    sf = _impl()[0]
    n = spec.get('n', 1.0)
    sfm = _impl()[0]
    base = {'refl': 'refl', 'reflect': 'refl', 'refr': 'refr', 'refract': 'refr', 'eval': 'eval'}[spec['kind']]
    form = spec.get('form', 0)
    # every documented way of naming the surface type: short / long spelling (any case) / the STYPE integer
    typ = {'refl': ['refl', 'Reflect', sfm.STYPE_REFLECT], 'refr': ['refr', 'REFRACT', sfm.STYPE_REFRACT],
           'eval': ['eval', 'Eval', sfm.STYPE_EVAL]}[base][form % 3]
    P = list(spec['P'])
    if form >= 3 and P[0] == 0 and P[1] == 0:
        P = [P[2], [P[2]], [0.0, P[2]], np.array([0.0, 0.0, P[2]])][form % 4]   # documented: scalar z, or the trailing coordinates
    kw = dict(typ=typ, P=P, R=(tuple(spec['R']) if spec.get('R') is not None else None))
    # mirrors and evaluation planes have no index of their own (n=None), exactly as users build them
    nfun = (lambda wvl, n=n: n) if spec['kind'] in ('refr', 'refract') else None
    sh = spec['shape']
    if sh[0] == 'plane':
        return sf.Surface.plane(n=nfun, **kw)
    if sh[0] == 'sphere':
        return sf.Surface.sphere(c=sh[1], n=nfun, **kw)
    if sh[0] == 'conic':
        return sf.Surface.conic(c=sh[1], k=sh[2], n=nfun, **kw)
    if sh[0] == 'offaxis':
        return sf.Surface.off_axis_conic(c=sh[1], k=sh[2], dx=sh[3], dy=sh[4], n=nfun, **kw)
    raise ValueError(sh)


def _rot_deg(zyx):
    """independent reading of make_rotation_matrix: angles (z, y, x) in degrees, missing ones zero, R = Rx Ry Rz"""
    a = np.zeros(3)
    a[:len(zyx)] = zyx
    g, b, al = np.radians(a)
    Rx = np.array([[1, 0, 0], [0, math.cos(al), -math.sin(al)], [0, math.sin(al), math.cos(al)]])
    Ry = np.array([[math.cos(b), 0, math.sin(b)], [0, 1, 0], [-math.sin(b), 0, math.cos(b)]])
    Rz = np.array([[math.cos(g), -math.sin(g), 0], [math.sin(g), math.cos(g), 0], [0, 0, 1]])
    return Rx @ Ry @ Rz


def _shape_tokens(sh):
    if sh[0] == 'plane':
        return ['plane']
    if sh[0] == 'sphere':
        return ['conic', C.f2w(sh[1]), C.f2w(0.0)]
    if sh[0] == 'conic':
        return ['conic', C.f2w(sh[1]), C.f2w(sh[2])]
    return ['offaxis'] + [C.f2w(v) for v in sh[1:5]]


def _rot_tokens(Rm):
    if Rm is None:
        return ['R0']
    return ['R1'] + [C.f2w(v) for v in np.asarray(Rm, dtype=float).reshape(-1)]


def trace_line(specs, mats, P, S, n0):
    t = ['trace', str(len(specs))]
    for sp, Rm in zip(specs, mats):
        t += [{'refl': 'refl', 'reflect': 'refl', 'refr': 'refr', 'refract': 'refr', 'eval': 'eval'}[sp['kind']]]
        t += [C.f2w(v) for v in _pvec(sp['P'])] + _rot_tokens(Rm) + _shape_tokens(sp['shape']) + [C.f2w(sp.get('n', 1.0))]
    t += [C.f2w(v) for v in P] + [C.f2w(v) for v in S] + [C.f2w(n0)]
    return ' '.join(t)


def _pvec(P):
    out = np.zeros(3)
    P = list(P) if hasattr(P, '__iter__') else [P]
    out[-len(P):] = P
    return out


def parse_trace(reply, k):
    """-> list of dicts per surface, or None for `fail`"""
    if reply.strip() == 'fail':
        return None
    v = [C.w2f(t) for t in reply.split()]
    if len(v) != 18 * k:
        raise C.ToolError(f'driver C19: bad trace reply ({len(v)} numbers for {k} surfaces)')
    out = []
    for j in range(k):
        w = v[18 * j: 18 * j + 18]
        out.append({'Pg': np.array(w[0:3]), 'Sg': np.array(w[3:6]), 'Ploc': np.array(w[6:9]), 'Sloc': np.array(w[9:12]),
                    'r': np.array(w[12:15]), 'Sout': np.array(w[15:18])})
    return out


# ------------------------------------------------------------------------------------------------
# independent oracle: implicit equation of the surface and its gradient, in the local frame
# ------------------------------------------------------------------------------------------------
def implicit(sh, X):
    """(G, N) with G = 0 on the surface and N = a vector along the surface normal with N_z > 0"""
    x, y, z = X
    if sh[0] == 'plane':
        return z, np.array([0., 0., 1.])
    c = sh[1]
    k = 0.0 if sh[0] == 'sphere' else sh[2]
    if sh[0] == 'offaxis':
        x, y = x + sh[3], y + sh[4]
    G = c * (x * x + y * y) - 2 * z + (1 + k) * c * z * z
    N = np.array([-c * x, -c * y, 1 - (1 + k) * c * z])
    return G / 2, N


def _in_domain(sh, X):
    """the hit point lies on the well-conditioned part of the surface (phi^2 >= 0.5, |c| rho <= 0.7)"""
    if sh[0] == 'plane':
        return True
    c = sh[1]
    k = 0.0 if sh[0] == 'sphere' else sh[2]
    x, y = X[0], X[1]
    if sh[0] == 'offaxis':
        x, y = x + sh[3], y + sh[4]
    r2 = x * x + y * y
    return (1 + k) * c * c * r2 <= 0.5 and abs(c) * math.sqrt(r2) <= 0.7


def check_physics(specs, mats, P_hist, S_hist, n0):
    """property predicates on one traced ray; returns list of violation strings (empty = fine)"""
    bad = []
    n = n0
    for j, (sp, Rm) in enumerate(zip(specs, mats)):
        Pin, Sin = P_hist[j], S_hist[j]
        Pout, Sout = P_hist[j + 1], S_hist[j + 1]
        Rm_ = np.eye(3) if Rm is None else np.asarray(Rm, dtype=float)
        if np.isfinite(Pout).all() and not np.isfinite(Sout).all() and sp['kind'] in ('refr', 'refract'):
            # beyond the critical angle (total internal reflection) the property makes no claim: NaN is acceptable there
            _, N0 = implicit(sp['shape'], Rm_ @ (Pout - _pvec(sp['P'])))
            if n * np.linalg.norm(np.cross(Rm_ @ Sin, N0 / np.linalg.norm(N0))) >= sp.get('n', 1.0) * (1 - 1e-9):
                return bad
        if not (np.isfinite(Pout).all() and np.isfinite(Sout).all()):
            bad.append(f'surface {j}: ray lost (non-finite output {Pout.tolist()} {Sout.tolist()})')
            return bad
        X = Rm_ @ (Pout - _pvec(sp['P']))
        si = Rm_ @ Sin
        so = Rm_ @ Sout
        G, N = implicit(sp['shape'], X)
        scale = max(1.0, float(np.abs(X).max()))
        # Newton stops at |ds| < 100 eps and returns the point before that last step: the residual is ~1e-14; 2e-12 leaves room
        # for rounding in the frame change and still sees a loosened stopping rule
        if abs(G) > 2e-12 * scale * max(1.0, float(np.linalg.norm(N))):
            bad.append(f'surface {j}: hit point off the surface, implicit-equation residual {G:.3e}')
        # the hit point must be on the incoming ray
        d = Pout - Pin
        if np.isfinite(d).all() and np.linalg.norm(np.cross(d / max(1.0, float(np.abs(d).max())), Sin)) * max(1.0, float(np.abs(d).max())) \
                > TOL * max(1.0, float(np.linalg.norm(d))):
            bad.append(f'surface {j}: hit point is not on the incident ray')
        if abs(np.linalg.norm(Sout) - 1) > TOL:
            bad.append(f'surface {j}: |S\'| = {np.linalg.norm(Sout):.12f} != 1')
        Nh = N / np.linalg.norm(N)
        kind = sp['kind']
        if kind in ('refl', 'reflect'):
            exp = si - 2 * (si @ Nh) * Nh
            if np.abs(so - exp).max() > TOL:
                bad.append(f'surface {j}: reflection is not the mirror image about the true normal (max dev {np.abs(so - exp).max():.3e})')
        elif kind in ('refr', 'refract'):
            n1 = sp.get('n', 1.0)
            lhs = n1 * np.cross(so, Nh)
            rhs = n * np.cross(si, Nh)
            if np.abs(lhs - rhs).max() > TOL * max(n, n1):
                bad.append(f'surface {j}: Snell violated: n\' S\'xN - n SxN = {(lhs - rhs).tolist()} '
                           f'(n sin i = {n * np.linalg.norm(np.cross(si, Nh)):.9f}, n\' sin i\' = {n1 * np.linalg.norm(np.cross(so, Nh)):.9f})')
            if (so @ Nh) * (si @ Nh) <= 0:
                bad.append(f'surface {j}: refracted ray does not continue through the surface')
            n = n1
        else:
            if np.abs(so - si).max() > TOL:
                bad.append(f'surface {j}: evaluation surface bent the ray')
    return bad


def run_impl(specs, P, S, n0, single=False):
    """real prysm: returns (P_hist, S_hist, mats) with P_hist of shape (k+1, N, 3)"""
    sm = _impl()[1]
    surfs = [build_surface(sp) for sp in specs]
    mats = [None if s.R is None else np.asarray(s.R, dtype=float) for s in surfs]
    P = np.asarray(P, dtype=float)
    S = np.asarray(S, dtype=float)
    with np.errstate(all='ignore'):
        if single:
            ph = []
            sh = []
            for p, s in zip(P, S):
                a, b = sm.raytrace(surfs, p.copy(), s.copy(), 0.6328, n_ambient=n0)
                ph.append(np.asarray(a).reshape(len(specs) + 1, 3))
                sh.append(np.asarray(b).reshape(len(specs) + 1, 3))
            P_hist = np.stack(ph, axis=1)
            S_hist = np.stack(sh, axis=1)
        else:
            P_hist, S_hist = sm.raytrace(surfs, P.copy(), S.copy(), 0.6328, n_ambient=n0)
    return np.asarray(P_hist), np.asarray(S_hist), mats


# ------------------------------------------------------------------------------------------------
# generators
# ------------------------------------------------------------------------------------------------
KAPPAS = [-2.0, -1.0, -0.5, 0.0, 1.0]


def _rand_shape(rng, a):
    """a = semi-aperture; curvature limited so that phi stays well away from 0"""
    u = rng.integers(0, 8)
    cmax = 0.45 / a
    c = float(rng.uniform(0.15, 1.0) * cmax * rng.choice([-1, 1]))
    k = float(KAPPAS[rng.integers(0, len(KAPPAS))])
    if k > 0:
        c *= 0.6
    if u == 0:
        return ('plane',)
    if u == 1:
        return ('sphere', c)
    if u in (2, 3, 4, 5):
        return ('conic', c, k)
    off = float(rng.uniform(0.3, 1.2) * a * rng.choice([-1, 1]))
    c *= 0.45
    return ('offaxis', c, k, off, 0.0) if u == 6 else ('offaxis', c, k, 0.0, off)


def _local_sag(sh, x, y):
    if sh[0] == 'plane':
        return 0.0
    c = sh[1]
    k = 0.0 if sh[0] == 'sphere' else sh[2]
    if sh[0] == 'offaxis':
        x, y = x + sh[3], y + sh[4]
    r2 = x * x + y * y
    return c * r2 / (1 + math.sqrt(1 - (1 + k) * c * c * r2))


def _unit(theta, az):
    return np.array([math.sin(theta) * math.cos(az), math.sin(theta) * math.sin(az), math.cos(theta)])


def _rays_for(rng, spec, Rm, a, nrays, n_in, backward=False, maxang=None, far=None):
    """rays aimed at chosen points of the surface `spec`, in global coordinates"""
    Rm_ = np.eye(3) if Rm is None else np.asarray(Rm)
    P0 = _pvec(spec['P'])
    sh = spec['shape']
    n1 = spec.get('n', 1.0)
    Ps, Ss, tags = [], [], []
    kinds = ['axis', 'parax', 'skew', 'nearcrit', 'steep', 'skew', 'parallel', 'nearvertex']
    if far == 'infinity':
        kinds = ['axis', 'parallel', 'nearvertex', 'parallel']      # only rays exactly along the local axis exist "at infinity"
    dense_to_rare = spec['kind'] in ('refr', 'refract') and n_in > n1
    zs = np.array([1.0, 1.0, -1.0]) if backward else np.ones(3)     # backward: the ray travels against the local normal (towards -z)
    for i in range(nrays):
        kind = kinds[i % len(kinds)]
        if kind == 'nearcrit' and not (dense_to_rare and sh[0] != 'plane' and maxang is None and not backward):
            kind = 'skew'
        if kind == 'nearcrit':
            Sl = None
            for _ in range(30):
                # a strongly sloped surface point, incidence at 50% .. 99.9% of the critical angle about the TRUE normal
                rad, az = rng.uniform(0.6, 0.9) * a, rng.uniform(0, 2 * math.pi)
                xl, yl = float(rad * math.cos(az)), float(rad * math.sin(az))
                _, N = implicit(sh, np.array([xl, yl, _local_sag(sh, xl, yl)]))
                Nh = N / np.linalg.norm(N)
                f = 1 - 10 ** (-rng.uniform(0.3, 3.0))
                th = f * math.asin(n1 / n_in)
                T = np.cross(Nh, _unit(rng.uniform(0, math.pi), rng.uniform(0, 2 * math.pi)))
                if np.linalg.norm(T) < 0.2:
                    continue
                T /= np.linalg.norm(T)
                cand = math.cos(th) * Nh + math.sin(th) * T
                if cand[2] > 0.3:
                    Sl = cand
                    break
            if Sl is None:
                kind = 'skew'
        if kind == 'nearcrit':
            pass
        elif kind == 'axis':
            xl, yl, th, az = 0.0, 0.0, 0.0, 0.0
        elif kind == 'parax':
            xl, yl = rng.uniform(-1e-3, 1e-3, 2) * a
            th, az = rng.uniform(0, 2e-3), rng.uniform(0, 2 * math.pi)
        elif kind == 'parallel':
            xl, yl = rng.uniform(-0.8, 0.8, 2) * a
            th, az = 0.0, 0.0
        elif kind == 'nearvertex':
            # a hit extremely close to (not on) the vertex: 1e-6 .. 1e-12 of the aperture
            xl, yl = (rng.uniform(-1, 1, 2) * a * 10.0 ** (-rng.uniform(6, 12)))
            th, az = (0.0, 0.0) if far == 'infinity' else (rng.uniform(0, 0.3), rng.uniform(0, 2 * math.pi))
        else:
            xl, yl = rng.uniform(-0.8, 0.8, 2) * a
            th = rng.uniform(0.05, 0.5) if kind == 'skew' else rng.uniform(0.5, 0.87)
            az = rng.uniform(0, 2 * math.pi)
        if maxang is not None:
            th = min(th, maxang * (0.2 + 0.8 * rng.uniform()))
        xl, yl = float(xl), float(yl)
        if kind != 'nearcrit':
            Sl = _unit(th, az) * zs
        if dense_to_rare and kind != 'nearcrit':
            # stay below the critical angle with margin: n sin i <= 0.8 n'
            for _ in range(40):
                _, N = implicit(sh, np.array([xl, yl, _local_sag(sh, xl, yl)]))
                Nh = N / np.linalg.norm(N)
                if n_in * np.linalg.norm(np.cross(Sl, Nh)) <= 0.8 * n1:
                    break
                th *= 0.6                  # less oblique ...
                xl, yl = 0.8 * xl, 0.8 * yl  # ... and closer to the vertex, where the surface is less steep
                Sl = _unit(th, az) * zs
        Xl = np.array([xl, yl, _local_sag(sh, xl, yl)])
        Xg = Rm_.T @ Xl + P0
        Sg = Rm_.T @ Sl
        if Rm is None:
            Sg = Sl.copy()
            Xg = Xl + P0
        if far == 'infinity':
            t = 1e99                           # the docstring's P = [Px, Py, -1e99], S = [0, 0, 1]
        elif far is not None:
            t = float(far * rng.uniform(0.5, 1.5))
        else:
            t = float(rng.uniform(3, 40))
        Ps.append(Xg - t * Sg)
        Ss.append(Sg)
        tags.append(kind)
    return np.array(Ps), np.array(Ss), tags


def _miss_rays(rng, spec, Rm, a):
    """rays that do not hit: parallel to the local vertex plane, aimed far outside the surface's domain, NaN origin"""
    Rm_ = np.eye(3) if Rm is None else np.asarray(Rm)
    P0 = _pvec(spec['P'])
    rows = []
    Sl = np.array([1.0, 0.0, 0.0])                                   # m = 0 in the surface frame: s0 = -Z0/0
    rows.append((Rm_.T @ np.array([0.0, 0.3 * a, -5.0]) + P0, Rm_.T @ Sl))
    far = np.array([1e6 * a, -2e6 * a, 0.0])                          # (1+k) c^2 rho^2 >> 1: no surface there
    rows.append((Rm_.T @ far + P0 - 10.0 * (Rm_.T @ np.array([0.0, 0.0, 1.0])), Rm_.T @ np.array([0.0, 0.0, 1.0])))
    rows.append((np.array([np.nan, 0.0, -10.0]), np.array([0.0, 0.0, 1.0])))
    k = int(rng.integers(0, 3))
    rows = rows[k:] + rows[:k]
    return np.array([r[0] for r in rows]), np.array([r[1] for r in rows])


def _rand_frame(rng, tilted, z=0.0):
    P = [float(rng.uniform(-2, 2)), float(rng.uniform(-2, 2)), float(z + rng.uniform(-1, 1))]
    R = None
    if tilted:
        R = [float(v) for v in rng.uniform(-12, 12, 3)]
        if rng.integers(0, 3) == 0:
            R = R[:int(rng.integers(1, 3))]       # make_rotation_matrix pads short angle lists
    return P, R


def gen_prescription(rng, idx):
    pr = _gen_prescription(rng, idx)
    blk = (idx // 8) % 5
    if blk == 1 or blk == 3:
        # ray origins far and very far from the first surface (1e3 .. 1e9 length units), either side
        pr['far'] = float(10.0 ** rng.choice([3, 5, 7, 9]))
    elif blk == 4 and len(pr['specs']) == 1 and pr['specs'][0].get('R') is None:
        pr['far'] = 'infinity'
    for j, sp in enumerate(pr['specs']):
        sp['form'] = int((idx // 8 + j) % 6)
    return pr


def _gen_prescription(rng, idx):
    """-> dict(specs=[...], a=semi-aperture, n0=...)"""
    a = float(rng.choice([2.0, 5.0, 12.5, 0.02, 300.0], p=[0.3, 0.3, 0.3, 0.05, 0.05]))   # incl. tiny and large apertures
    mode = idx % 8
    n0 = 1.0
    if mode == 6:                           # a stop / dummy plane INSIDE the glass (n=None), then the glass ends
        n0 = float(rng.choice([1.0, 1.33]))
        ng = float(rng.choice([1.5168, 1.7, 2.0]))
        P1, R1 = _rand_frame(rng, tilted=bool(rng.integers(0, 2)))
        s1 = {'kind': 'refr', 'P': P1, 'R': R1, 'shape': ('conic', float(rng.uniform(0.2, 0.8) * 0.4 / a * rng.choice([-1, 1])), float(rng.choice(KAPPAS[:4]))), 'n': ng}
        s2 = {'kind': 'eval', 'P': [P1[0], P1[1], P1[2] + 0.3 * a], 'R': None if rng.integers(0, 2) else [0.0, float(rng.uniform(-4, 4))],
              'shape': ('plane',)}
        s3 = {'kind': 'refr', 'P': [P1[0], P1[1], P1[2] + 0.6 * a], 'R': None,
              'shape': ('sphere', float(rng.uniform(0.2, 0.8) * 0.4 / a * rng.choice([-1, 1]))), 'n': float(rng.choice([1.0, 1.33, 1.45]))}
        specs = [s1, s2, s3]
        if rng.integers(0, 2):
            specs.append({'kind': 'eval', 'P': [0.0, 0.0, P1[2] + 2 * a], 'R': None, 'shape': ('plane',)})
        return {'specs': specs, 'a': 0.5 * a, 'n0': n0, 'maxang': 0.2}
    if mode == 7:                           # a mirror INSIDE the glass (n=None): in, reflect, out through a surface facing -z
        n0 = float(rng.choice([1.0, 1.33]))
        ng = float(rng.choice([1.5168, 1.7]))
        z0 = float(rng.uniform(-1, 1))
        s1 = {'kind': 'refr', 'P': [0.0, 0.0, z0], 'R': None, 'shape': ('conic', float(rng.uniform(0.2, 0.8) * 0.3 / a * rng.choice([-1, 1])), float(rng.choice(KAPPAS[:4]))), 'n': ng}
        s2 = {'kind': 'refl', 'P': [0.0, 0.0, z0 + 0.5 * a], 'R': [0.0, float(rng.uniform(-2, 2))], 'shape': ('plane',) if rng.integers(0, 2) else ('sphere', float(rng.uniform(-0.2, 0.2) / a))}
        # the exit surface is met travelling towards -z: its frame is turned by 180 deg about y so that the ray runs along local +z
        s3 = {'kind': 'refr', 'P': [0.0, 0.0, z0 - 0.2 * a], 'R': [0.0, 180.0] if rng.integers(0, 2) else None,
              'shape': ('conic', float(rng.uniform(0.2, 0.8) * 0.3 / a * rng.choice([-1, 1])), float(rng.choice(KAPPAS[:4]))), 'n': n0}
        return {'specs': [s1, s2, s3], 'a': 0.4 * a, 'n0': n0, 'maxang': 0.12}
    if mode in (0, 1, 2, 3):               # single surface
        kind = 'refl' if mode in (0, 2) else 'refr'
        P, R = _rand_frame(rng, tilted=mode in (2, 3))
        if idx % 16 >= 8 and R is None:
            P = [0.0, 0.0, P[2]]           # the surface vertex on the global axis, plus plain API forms of P
        spec = {'kind': kind, 'P': P, 'R': R, 'shape': _rand_shape(rng, a)}
        if kind == 'refr':
            if rng.integers(0, 2):
                n0, spec['n'] = 1.0, float(rng.choice([1.33, 1.5168, 1.7, 2.4]))
            else:
                n0, spec['n'] = float(rng.choice([1.5168, 1.7, 2.4])), float(rng.choice([1.0, 1.33]))
        # every third single surface is met by rays travelling AGAINST its normal (local m < 0), as after a fold mirror
        return {'specs': [spec], 'a': a, 'n0': n0, 'backward': bool((idx // 8) % 3 == 2)}
    if mode == 4:                           # singlet (+ mirror or evaluation plane)
        n = float(rng.choice([1.5168, 1.7]))
        P1, R1 = _rand_frame(rng, tilted=bool(rng.integers(0, 2)))
        s1 = {'kind': 'refr', 'P': P1, 'R': R1, 'shape': ('conic', float(rng.uniform(0.2, 0.8) * 0.4 / a), float(rng.choice(KAPPAS[:4]))), 'n': n}
        s2 = {'kind': 'refr', 'P': [P1[0], P1[1], P1[2] + 0.4 * a], 'R': None,
              'shape': ('sphere', float(-rng.uniform(0.2, 0.8) * 0.4 / a)), 'n': 1.0}
        last = {'kind': 'refl', 'P': [0.0, 0.0, P1[2] + 3 * a], 'R': [0.0, float(rng.uniform(-5, 5))], 'shape': ('plane',)} \
            if rng.integers(0, 2) else {'kind': 'eval', 'P': [0.0, 0.0, P1[2] + 3 * a], 'R': None, 'shape': ('plane',)}
        return {'specs': [s1, s2, last], 'a': 0.5 * a, 'n0': 1.0, 'maxang': 0.2}
    # two-mirror telescope: concave primary, convex secondary hit by rays travelling towards -z
    zp = float(rng.uniform(8, 12) * a)
    cp = -1 / (4 * zp) * float(rng.uniform(0.8, 1.2))
    prim = {'kind': 'refl', 'P': [0.0, 0.0, zp], 'R': None, 'shape': ('conic', cp, -1.0)}
    sec = {'kind': 'refl', 'P': [0.0, 0.0, zp * 0.45], 'R': None if rng.integers(0, 2) else [0.0, float(rng.uniform(-1, 1))],
           'shape': ('conic', float(cp * rng.uniform(1.5, 2.5)), float(rng.choice([-2.0, -1.0, 0.0])))}
    return {'specs': [prim, sec], 'a': 0.35 * a, 'n0': 1.0, 'maxang': 0.01}



# ------------------------------------------------------------------------------------------------
# Q-type freeform surfaces (no Surface constructor in prysm: FFp assembled from Q2d_and_der, as users must) and the public
# polar off-axis routines: checked against the numerical gradient of their OWN sag (Richardson, 1e-7)
# ------------------------------------------------------------------------------------------------
GTOL = 1e-7


def _richardson(f, h):
    d = lambda hh: (f(hh) - f(-hh)) / (2 * hh)          # noqa: E731
    return (4 * d(h / 2) - d(h)) / 3


def q_ffp(cfg):
    sf = _impl()[0]
    from prysm.coordinates import cart_to_polar

    def FFp(x, y):
        x2, y2 = np.asarray(x, dtype=float)[np.newaxis, :], np.asarray(y, dtype=float)[np.newaxis, :]
        z, dr, dt = sf.Q2d_and_der(cfg['cm0'], cfg['ams'], cfg['bms'], x2, y2, cfg['nr'], cfg['c'], cfg['k'], dx=cfg['dx'], dy=cfg['dy'])
        r, t = cart_to_polar(x2, y2)
        fx, fy = sf.surface_normal_from_cylindrical_derivatives(dr, dt, r, t)
        return z[0], fx[0], fy[0]
    return FFp


def q_config(rng, i):
    nr = float(rng.choice([8.0, 12.0, 20.0]))
    amp = 2e-3 * nr / 10
    shift = [(0.0, 0.0), (float(rng.uniform(0.2, 0.6) * nr * rng.choice([-1, 1])), 0.0),
             (0.0, float(rng.uniform(0.2, 0.6) * nr * rng.choice([-1, 1])))][i % 3]
    return {'cm0': [float(v) for v in rng.uniform(-1, 1, 3) * amp],
            'ams': [[float(v) for v in rng.uniform(-1, 1, 2) * amp], [float(rng.uniform(-1, 1) * amp)]],
            'bms': [[float(v) for v in rng.uniform(-1, 1, 2) * amp], [float(rng.uniform(-1, 1) * amp)]],
            'nr': nr, 'c': float(rng.uniform(0.1, 0.3) / nr * rng.choice([-1, 1])), 'k': float(rng.choice(KAPPAS)),
            'dx': shift[0], 'dy': shift[1], 'kind': 'refl' if (i // 3) % 2 == 0 else 'refr',
            'n0': 1.0 if (i // 6) % 2 == 0 else 1.6, 'n': 1.5168 if (i // 6) % 2 == 0 else 1.0, 'zP': float(rng.uniform(5, 30))}


def q_rays(rng, cfg, N):
    FFp = q_ffp(cfg)
    xl = rng.uniform(-0.6, 0.6, N) * cfg['nr']
    yl = rng.uniform(-0.6, 0.6, N) * cfg['nr']
    xl[0], yl[0] = 0.31 * cfg['nr'], 0.0          # on the y = 0 meridian and well off it
    with np.errstate(all='ignore'):
        z = FFp(xl, yl)[0]
    S = np.array([_unit(rng.uniform(0, 0.15), rng.uniform(0, 2 * math.pi)) for _ in range(N)])
    X = np.stack([xl, yl, z + cfg['zP']], axis=1)
    t = rng.uniform(3, 20, N)[:, None]
    return X - t * S, S


def q_eval(cfg, P, S):
    """trace rays through the Q-type surface on the REAL code; predicates against the numerical gradient of the same sag"""
    sf, sm, co = _impl()
    FFp = q_ffp(cfg)
    P, S = np.atleast_2d(np.asarray(P, dtype=float)), np.atleast_2d(np.asarray(S, dtype=float))
    surf = sf.Surface(typ=cfg['kind'], P=[0.0, 0.0, cfg['zP']], n=(lambda w: cfg['n']) if cfg['kind'] == 'refr' else None, FFp=FFp)
    with np.errstate(all='ignore'):
        ph, sh = sm.raytrace([surf], P.copy(), S.copy(), 0.6328, n_ambient=cfg['n0'])
    bad = []
    h = 1e-3 * cfg['nr']
    for i in range(len(P)):
        Pout, Sout = ph[1, i], sh[1, i]
        if not (np.isfinite(Pout).all() and np.isfinite(Sout).all()):
            bad.append((i, f'ray lost on the Q-type surface (non-finite output {Pout.tolist()} {Sout.tolist()})'))
            continue
        X = Pout - np.array([0.0, 0.0, cfg['zP']])
        x0, y0 = np.array([X[0]]), np.array([X[1]])
        with np.errstate(all='ignore'):
            z0 = float(FFp(x0, y0)[0][0])
            gx = float(_richardson(lambda e: FFp(x0 + e, y0)[0][0], h))
            gy = float(_richardson(lambda e: FFp(x0, y0 + e)[0][0], h))
        if abs(X[2] - z0) > TOL * max(1.0, float(np.abs(X).max())):
            bad.append((i, f'hit point off the Q-type surface by {X[2] - z0:.3e}'))
            continue
        if abs(np.linalg.norm(Sout) - 1) > TOL:
            bad.append((i, f'|S\'| = {np.linalg.norm(Sout):.12f} != 1'))
            continue
        N = np.array([-gx, -gy, 1.0])
        Nh = N / np.linalg.norm(N)
        si = S[i]
        if cfg['kind'] == 'refl':
            dev = np.abs(Sout - (si - 2 * (si @ Nh) * Nh)).max()
            if dev > GTOL:
                bad.append((i, f'Q-type surface (base conic shifted by dx={cfg["dx"]:.3g}, dy={cfg["dy"]:.3g}): reflection is not the mirror '
                               f'image about the true normal (numerical gradient of the same sag), max dev {dev:.3e}'))
        else:
            dev = np.abs(cfg['n'] * np.cross(Sout, Nh) - cfg['n0'] * np.cross(si, Nh)).max()
            if dev > GTOL * max(cfg['n'], cfg['n0']):
                bad.append((i, f'Q-type surface (dx={cfg["dx"]:.3g}, dy={cfg["dy"]:.3g}): Snell violated about the true normal, residual {dev:.3e}'))
    return bad


def polar_eval(c):
    """off_axis_conic_sag / off_axis_conic_der on the REAL code vs the numerical derivatives of the same sag"""
    sf = _impl()[0]
    r, t = np.array([c['r']]), np.array([c['t']])
    kw = dict(dx=c['dx'], dy=c['dy'])
    with np.errstate(all='ignore'):
        z = float(sf.off_axis_conic_sag(c['c'], c['k'], r, t, **kw)[0])
        dr, dt = sf.off_axis_conic_der(c['c'], c['k'], r, t, **kw)
        nr_ = float(_richardson(lambda e: sf.off_axis_conic_sag(c['c'], c['k'], r + e, t, **kw)[0], 1e-3 * c['r']))
        nt_ = float(_richardson(lambda e: sf.off_axis_conic_sag(c['c'], c['k'], r, t + e, **kw)[0], 1e-3))
    dr, dt = float(dr[0]), float(dt[0])
    bad = []
    scale = max(1.0, abs(nr_), abs(nt_))
    if not (np.isfinite([z, dr, dt]).all()) or abs(dr - nr_) > GTOL * scale or abs(dt - nt_) > GTOL * scale:
        bad.append(f'off_axis_conic_der (dx={c["dx"]:.3g}, dy={c["dy"]:.3g}) returns (d/dr, d/dt) = ({dr:.9g}, {dt:.9g}); the numerical '
                   f'derivatives of off_axis_conic_sag are ({nr_:.9g}, {nt_:.9g})')
    return bad, (z, dr, dt)

# ------------------------------------------------------------------------------------------------
# correspondence
# ------------------------------------------------------------------------------------------------
def _cmp(a, b, scale=1.0):
    a = np.asarray(a, dtype=float)
    b = np.asarray(b, dtype=float)
    if a.shape != b.shape:
        return False
    if not (np.isfinite(a).all() and np.isfinite(b).all()):
        return False
    return bool(np.abs(a - b).max() <= TOL * max(1.0, scale))


def _case_of(specs, P, S, n0, single):
    return {'surfaces': specs, 'P': [float(v) for v in P], 'S': [float(v) for v in S], 'n0': n0,
            'api': 'single' if single else 'batch'}


def correspondence(ctx):
    sf, sm, co = _impl()
    rng = ctx.rng
    npres = ctx.scale(150, 8000)
    nrays = ctx.scale(8, 16)
    if ctx.widen:
        npres *= 2

    lines = []
    jobs = []

    # ---------------- corpus of minimised past failures, first
    for it, c in _corpus():
        if it == 'trace':
            ctx.case('corpus', c, tag='trace')
            bad, _ = eval_case(c)
            for b in bad[:1]:
                ctx.pred_fail('trace', c, b)

    # ---------------- full traces
    for idx in range(npres):
        pr = gen_prescription(rng, idx)
        specs = pr['specs']
        try:
            surfs = [build_surface(sp) for sp in specs]
        except Exception as ex:
            ctx.disagree('trace', {'surfaces': specs}, f'constructor raised {type(ex).__name__}: {ex}', 'surface exists')
            continue
        mats = [None if s.R is None else np.asarray(s.R, dtype=float) for s in surfs]
        for sp, Rm in zip(specs, mats):
            if sp.get('R') is not None and not _cmp(Rm, _rot_deg(sp['R'])):
                ctx.pred_fail('surface_frame', {'kind': 'refl', 'P': [0.0, 0.0, 0.0], 'R': sp['R'], 'shape': ['plane'], 'form': 0},
                              'Surface.R is not Rx.Ry.Rz of the documented (z, y, x) angles in degrees')
        for sp, sf_ in zip(specs, surfs):
            if not _cmp(sf_.P, _pvec(sp['P'])):
                ctx.pred_fail('surface_frame', {'kind': 'refl', 'P': list(sp['P']), 'R': None, 'shape': ['plane'], 'form': sp.get('form', 0)},
                              f'Surface.P = {np.asarray(sf_.P).tolist()} for the documented position form')
        P, S, tags = _rays_for(rng, specs[0], mats[0], pr['a'], nrays, pr['n0'], maxang=pr.get('maxang'), backward=pr.get('backward', False), far=pr.get('far'))
        # BATCH INDEPENDENCE: the batch call also carries rays that do NOT hit (parallel to the vertex plane, far outside the surface's
        # domain, NaN origin); every hitting ray must come out as if it were traced alone (the model and the single-ray calls are per ray)
        Pm, Sm = _miss_rays(rng, specs[0], mats[0], pr['a'])
        kept = {}
        for single in ((False, True) if (idx // 8) % 2 == 0 else (False,)):
            try:
                if single:
                    P_hist, S_hist, _ = run_impl(specs, P, S, pr['n0'], single=True)
                else:
                    P_hist, S_hist, _ = run_impl(specs, np.vstack([P, Pm]), np.vstack([S, Sm]), pr['n0'], single=False)
                    P_hist, S_hist = P_hist[:, :len(P)], S_hist[:, :len(P)]
                    ctx.hist['trace:batches-with-missing-rays'] += 1
                err = None
                kept[single] = (P_hist, S_hist)
            except Exception as ex:
                err = f'raised {type(ex).__name__}: {ex}'
            jobs.append(('trace', specs, mats, P, S, pr['n0'], tags, single, None if err else (P_hist, S_hist), err,
                         None if single else {'P': Pm.tolist(), 'S': Sm.tolist()}))
            for p, s in zip(P, S):
                lines.append(trace_line(specs, mats, p, s, pr['n0']))
        if len(kept) == 2:
            (pb, sb), (p1, s1) = kept[False], kept[True]
            for i in range(len(P)):
                same = np.array_equal(np.isfinite(pb[:, i]), np.isfinite(p1[:, i])) and np.array_equal(np.isfinite(sb[:, i]), np.isfinite(s1[:, i])) \
                    and np.allclose(pb[:, i], p1[:, i], rtol=1e-12, atol=1e-12, equal_nan=True) and np.allclose(sb[:, i], s1[:, i], rtol=0, atol=1e-12, equal_nan=True)
                ctx.case('batch_independence', {'n': len(P)}, nontrivial=False)
                if not same:
                    ctx.pred_fail('trace', {**_case_of(specs, P[i], S[i], pr['n0'], False), 'with': {'P': Pm.tolist(), 'S': Sm.tolist()}},
                                  f'ray {i} traced in a batch together with rays that miss the surface differs from the same ray traced alone: '
                                  f'{pb[-1, i].tolist()} {sb[-1, i].tolist()} vs {p1[-1, i].tolist()} {s1[-1, i].tolist()}')
                    break

    # ---------------- unit streams
    nunit = ctx.scale(200, 3000)
    for i in range(nunit):
        S = _unit(rng.uniform(0, 1.2), rng.uniform(0, 2 * math.pi))
        g = np.array([rng.uniform(-0.8, 0.8), rng.uniform(-0.8, 0.8), 1.0]) * (1.0 if i % 4 else rng.uniform(0.3, 3.0))
        if i % 5 == 0:
            g = g / np.linalg.norm(g)
        n, n1 = (1.0, float(rng.uniform(1.2, 2.5))) if i % 2 else (float(rng.uniform(1.2, 2.5)), 1.0)
        gh = g / np.linalg.norm(g)
        if n * np.linalg.norm(np.cross(S, gh)) > 0.85 * n1 or S @ gh < 0.15:
            S = _unit(rng.uniform(0, 0.3), rng.uniform(0, 2 * math.pi))
            S = S if S @ gh > 0.15 else gh
            if n * np.linalg.norm(np.cross(S, gh)) > 0.85 * n1:
                S = gh
        if i % 6 == 3:
            S = -S                         # travelling against the normal vector
        jobs.append(('reflect', S, g))
        lines.append('reflect ' + ' '.join(C.f2w(v) for v in list(S) + list(g)))
        jobs.append(('refract', n, n1, S, g))
        lines.append('refract ' + ' '.join(C.f2w(v) for v in [n, n1] + list(S) + list(g)))
    # glass -> air at strongly sloped surface points (un-normalised gradient of length up to ~1.8), incidence at
    # 50% .. 99.9% of the critical angle measured from the TRUE normal: must come out finite, unit, obeying Snell
    for i in range(ctx.scale(150, 3000)):
        slope, az = rng.uniform(0.4, 1.5), rng.uniform(0, 2 * math.pi)
        g = np.array([-slope * math.cos(az), -slope * math.sin(az), 1.0])
        n1 = float(rng.choice([1.0, 1.33]))
        n = float(n1 * rng.uniform(1.1, 2.4))
        gh = g / np.linalg.norm(g)
        T = np.cross(gh, _unit(rng.uniform(0.2, math.pi - 0.2), rng.uniform(0, 2 * math.pi)))
        if np.linalg.norm(T) < 0.1:
            T = np.cross(gh, np.array([1.0, 0.0, 0.0]))
        T /= np.linalg.norm(T)
        th = (1 - 10 ** (-rng.uniform(0.3, 3.0))) * math.asin(n1 / n)
        S = math.cos(th) * gh + math.sin(th) * T
        S /= np.linalg.norm(S)
        ctx.hist['refract:near-critical-sloped'] += 1
        jobs.append(('refract', n, n1, S, g))
        lines.append('refract ' + ' '.join(C.f2w(v) for v in [n, n1] + list(S) + list(g)))
    for i in range(ctx.scale(60, 600)):
        ang = rng.uniform(-math.pi, math.pi, 3)
        if i % 7 == 0:
            ang[int(rng.integers(0, 3))] = 0.0
        jobs.append(('rot', ang))
        lines.append('rot ' + ' '.join(C.f2w(v) for v in ang))
    for i in range(ctx.scale(120, 1500)):
        a = float(rng.choice([2.0, 5.0, 12.5]))
        sh = _rand_shape(rng, a)
        if sh[0] == 'plane':
            sh = ('conic', 0.3 / a, -1.0)
        pts = rng.uniform(-0.9, 0.9, (6, 2)) * a
        pts[0] = 0.0                       # the vertex / the centre of the off-axis section, exactly
        pts[1, 1] = 0.0
        pts[2, 0] = 0.0
        jobs.append(('sag', sh, pts))
        for (x, y) in pts:
            lines.append('sag ' + ' '.join(_shape_tokens(sh)) + ' ' + C.f2w(x) + ' ' + C.f2w(y))
    for i in range(ctx.scale(100, 1000)):
        fp, ft = rng.uniform(-1, 1, 2)
        x, y = rng.uniform(-3, 3, 2)
        if i % 3 == 0:
            x, y, ft = 0.0, 0.0, 0.0
        elif i % 3 == 1:
            ft = 0.0
        r, t = math.hypot(x, y), math.atan2(y, x)
        jobs.append(('cyl', fp, ft, r, t))
        lines.append('cyl ' + ' '.join(C.f2w(v) for v in (fp, ft, r, t)))
    for i in range(ctx.scale(90, 1200)):
        a = float(rng.choice([2.0, 5.0, 12.5]))
        s_ = float(rng.uniform(0.3, 1.2) * a * rng.choice([-1, 1]))
        pc = {'c': float(rng.uniform(0.1, 0.4) / a * rng.choice([-1, 1])), 'k': float(rng.choice(KAPPAS)),
              'r': float(rng.uniform(0.05, 0.9) * a), 't': float(rng.uniform(-math.pi, math.pi)),
              'dx': s_ if i % 2 == 0 else 0.0, 'dy': 0.0 if i % 2 == 0 else s_}
        if i % 10 == 9:
            pc['t'] = float(rng.choice([0.0, math.pi / 2, math.pi, -math.pi / 2]))
        amax = (pc['r'] + abs(s_)) ** 2            # stay on the surface: (1+k) c^2 rho^2 <= 0.5 for every azimuth
        if (1 + pc['k']) * pc['c'] ** 2 * amax > 0.5:
            pc['c'] = float(math.copysign(math.sqrt(0.5 / ((1 + pc['k']) * amax)), pc['c']))
        jobs.append(('polar', pc))
        lines.append('offpolar ' + ' '.join(C.f2w(v) for v in (pc['c'], pc['k'], pc['r'], pc['t'], s_)) + (' 0' if i % 2 == 0 else ' 1'))
    for i in range(ctx.scale(80, 800)):
        P0 = rng.uniform(-5, 5, 3)
        X = rng.uniform(-20, 20, 3)
        S = _unit(rng.uniform(0, 1.0), rng.uniform(0, 2 * math.pi))
        Rm = None if i % 4 == 0 else co.make_rotation_matrix(tuple(rng.uniform(-40, 40, 3)))
        jobs.append(('frames', P0, Rm, X, S))
        tok = [C.f2w(v) for v in P0] + _rot_tokens(Rm) + [C.f2w(v) for v in list(X) + list(S)]
        lines.append('local ' + ' '.join(tok))
        lines.append('global ' + ' '.join(tok))

    rep = iter(C.lean_driver('C19', lines))
    cf2_lines, cf2_jobs = [], []

    # ---------------- evaluate
    for job in jobs:
        kind = job[0]
        if kind == 'trace':
            _, specs, mats, P, S, n0, tags, single, out, err, withrays = job
            k = len(specs)
            for i, (p, s) in enumerate(zip(P, S)):
                model = parse_trace(next(rep), k)
                case = _case_of(specs, p, s, n0, single)
                if withrays is not None:
                    case['with'] = withrays          # the other (missing) rays of the batch: needed to replay a batch effect
                trivial = tags[i] == 'axis' and k == 1 and specs[0]['shape'][0] == 'plane' and specs[0].get('R') is None
                sh0 = specs[0]['shape'][0]
                ctx.case('trace', case, nontrivial=not trivial,
                         tag=f'{k}surf/{specs[0]["kind"]}/{sh0}/{"tilt" if specs[0].get("R") is not None else "flat"}/{tags[i]}/{"single" if single else "batch"}')
                if err is not None:
                    ctx.disagree('trace', case, err, 'model traces the ray' if model else 'model: no intersection')
                    ctx.pred_fail('trace', case, f'raytrace {err}')
                    continue
                ph, sh = out[0][:, i, :], out[1][:, i, :]
                if model is None:
                    if np.isfinite(ph).all():
                        ctx.disagree('trace', case, 'traced', 'model: Newton did not converge')
                    else:
                        ctx.hist['trace:both-miss'] += 1
                    continue
                if not all(np.isfinite(h['Sg']).all() and np.isfinite(h['Pg']).all() for h in model):
                    # total internal reflection in the model (sqrt of a negative radicand): outside the property's scope
                    if np.isfinite(sh).all():
                        ctx.disagree('trace', case, {'S': sh[-1].tolist()}, 'model: beyond the critical angle')
                    ctx.hist['trace:beyond-critical-angle'] += 1
                    continue
                if not all(_in_domain(sp['shape'], h['Ploc']) for sp, h in zip(specs, model)):
                    ctx.hist['trace:outside-domain'] += 1     # the ray leaves the part of a later surface the generator aims at
                    continue
                bad = check_physics(specs, mats, ph, sh, n0)
                ctx.hist['trace:checked'] += 1
                dist0 = float(np.linalg.norm(ph[1] - ph[0]))
                if dist0 > 1e50:
                    ctx.hist['trace:checked/origin-at-1e99'] += 1
                elif dist0 > 500:
                    ctx.hist[f'trace:checked/origin-far-1e{int(round(math.log10(dist0)))}'] += 1
                if tags[i] == 'nearvertex':
                    ctx.hist['trace:checked/nearvertex'] += 1
                ctx.hist[f'trace:checked/{k}surf'] += 1
                if tags[i] == 'nearcrit':
                    ctx.hist['trace:checked/nearcrit'] += 1
                if any(sp['kind'] in ('refr', 'refract') and (np.asarray(h['Sloc']) @ np.asarray(h['r'])) < 0 for sp, h in zip(specs, model)):
                    ctx.hist['trace:checked/refraction-against-the-normal'] += 1
                for b in bad[:1]:
                    ctx.pred_fail('trace', case, b)
                # every surface of the trace: the hit point the code found (local frame) against the PROVED closed-form intersection
                # of the incident ray with the plane / conic / parent conic -- the SAME point, not just some point of the surface
                for j in range(k):
                    if float(np.linalg.norm(ph[j + 1] - ph[j])) > 1e4 or bad:
                        ctx.hist['trace_closed_form:skipped-far-origin'] += 1
                        continue
                    Rm_ = np.eye(3) if mats[j] is None else np.asarray(mats[j], dtype=float)
                    pv_ = _pvec(specs[j]['P'])
                    cf = _closed_form_line(specs[j]['shape'], Rm_ @ (ph[j] - pv_), Rm_ @ sh[j])
                    if cf is not None:
                        cf2_lines.append(cf[0])
                        cf2_jobs.append((case, j, specs[j]['shape'][0], Rm_ @ (ph[j + 1] - pv_), cf[1], tags[i]))
                allow = 0.0
                for j in range(k):
                    # far origins: see the tolerance rule at the top of this file; the allowance of an earlier leg carries on
                    allow += _far_allowance(ph[j], ph[j + 1], sh[j], mats[j]) / TOL
                    # a position uncertainty dp turns into a direction uncertainty ~ dp * curvature / cos(angle to the normal)
                    rh = model[j]['r'] / np.linalg.norm(model[j]['r'])
                    cosmin = max(0.05, min(abs(float(model[j]['Sloc'] @ rh)), abs(float(model[j]['Sout'] @ rh))))
                    shp = specs[j]['shape']
                    allow_dir = allow * (1 + 4 * abs(shp[1] if len(shp) > 1 else 0.0)) / cosmin
                    if not (_cmp(ph[j + 1], model[j]['Pg'], float(np.abs(model[j]['Pg']).max()) + allow)
                            and _cmp(sh[j + 1], model[j]['Sg'], 1.0 + allow_dir)):
                        ctx.disagree('trace', case, {'surface': j, 'P': ph[j + 1].tolist(), 'S': sh[j + 1].tolist()},
                                     {'P': model[j]['Pg'].tolist(), 'S': model[j]['Sg'].tolist()})
                        break
        elif kind == 'reflect':
            _, S, g = job
            m = np.array([C.w2f(t) for t in next(rep).split()])
            case = {'S': S.tolist(), 'r': g.tolist()}
            ctx.case('reflect', case, tag='unitnormal' if abs(g @ g - 1) < 1e-12 else 'anynormal')
            with np.errstate(all='ignore'):
                out = np.asarray(sm.reflect(S.copy(), g.copy())).reshape(3)
                out2 = np.asarray(sm.reflect(np.stack([S, S]), np.stack([g, 2 * g])))
            if not _cmp(out, m) or not _cmp(out2[0], m) or not _cmp(out2[1], m):
                ctx.disagree('reflect', case, out.tolist(), m.tolist())
            gh = g / np.linalg.norm(g)
            if not _cmp(out, S - 2 * (S @ gh) * gh):
                ctx.pred_fail('reflect', case, 'not the mirror image about the normal direction')
        elif kind == 'refract':
            _, n, n1, S, g = job
            m = np.array([C.w2f(t) for t in next(rep).split()])
            case = {'n': n, 'nprime': n1, 'S': S.tolist(), 'r': g.tolist()}
            ctx.case('refract', case, tag=('unitnormal' if abs(g @ g - 1) < 1e-12 else 'anynormal') + ('/n<n\'' if n < n1 else '/n>n\''))
            try:
                with np.errstate(all='ignore'):
                    out = np.asarray(sm.refract(n, n1, np.stack([S, S]), np.stack([g, g])))[1]
            except Exception as ex:
                ctx.disagree('refract', case, f'raised {type(ex).__name__}: {ex}', m.tolist())
                ctx.pred_fail('refract', case, f'refract raised {type(ex).__name__}')
                continue
            if not _cmp(out, m):
                ctx.disagree('refract', case, out.tolist(), m.tolist())
            gh = g / np.linalg.norm(g)
            if not np.isfinite(out).all():
                ctx.pred_fail('refract', case, f'below the critical angle (n sin i / n\' = {n * np.linalg.norm(np.cross(S, gh)) / n1:.6f}) '
                              f'refract returns {out.tolist()} for a normal vector of length {np.linalg.norm(g):.6f}')
            elif abs(np.linalg.norm(out) - 1) > TOL:
                ctx.pred_fail('refract', case, f'|S\'| = {np.linalg.norm(out):.12f} with a normal vector of length {np.linalg.norm(g):.6f}')
            elif np.abs(n1 * np.cross(out, gh) - n * np.cross(S, gh)).max() > TOL * max(n, n1):
                ctx.pred_fail('refract', case, 'n sin i != n\' sin i\' about the direction of the normal vector')
            elif (out @ gh) * (S @ gh) <= 0:
                ctx.pred_fail('refract', case, f'the refracted ray does not continue through the surface: S.r = {S @ g:.6f}, S\'.r = {out @ g:.6f}')
        elif kind == 'rot':
            _, ang = job
            m = np.array([C.w2f(t) for t in next(rep).split()]).reshape(3, 3)
            case = {'zyx_rad': ang.tolist()}
            ctx.case('rotation', case, nontrivial=bool(np.any(ang != 0)))
            Rm = co.make_rotation_matrix(tuple(ang), radians=True)
            if not _cmp(Rm, m):
                ctx.disagree('rotation', case, np.asarray(Rm).tolist(), m.tolist())
            if not _cmp(Rm @ Rm.T, np.eye(3)) or not _cmp(np.linalg.det(Rm), 1.0):
                ctx.pred_fail('rotation', case, 'make_rotation_matrix is not a rotation')
        elif kind == 'sag':
            _, sh, pts = job
            surf = build_surface({'kind': 'refl', 'P': [0, 0, 0], 'R': None, 'shape': sh})
            with np.errstate(all='ignore'):
                z, der = surf.sag_normal(pts[:, 0].copy(), pts[:, 1].copy())
            for i, (x, y) in enumerate(pts):
                m = [C.w2f(t) for t in next(rep).split()]
                case = {'shape': list(sh), 'x': float(x), 'y': float(y)}
                ctx.case('sag_normal', case, tag=sh[0] + ('/vertex' if x == 0 and y == 0 else ''))
                got = [float(z[i]), float(-der[i, 0]), float(-der[i, 1])]
                if not _cmp(got, m) or der[i, 2] != 1:
                    ctx.disagree('sag_normal', case, got, m)
                if not np.isfinite(got).all():
                    ctx.pred_fail('sag_normal', case, f'sag/normal not finite at ({x}, {y}): {got}')
                    continue
                G, N = implicit(sh, np.array([x, y, got[0]]))
                n_code = np.array([-got[1], -got[2], 1.0])
                if abs(G) > TOL * max(1.0, abs(got[0])) or np.abs(np.cross(N, n_code)).max() > TOL * max(1.0, float(np.linalg.norm(N))):
                    ctx.pred_fail('sag_normal', case, 'point not on the surface or (-Fx,-Fy,1) not parallel to the true normal')
        elif kind == 'cyl':
            _, fp, ft, r, t = job
            m = [C.w2f(v) for v in next(rep).split()]
            case = {'fp': fp, 'ft': ft, 'r': r, 't': t}
            ctx.case('cyl_normal', case, tag='axis' if r == 0 else ('ft0' if ft == 0 else 'general'))
            with np.errstate(all='ignore'):
                gx, gy = sf.surface_normal_from_cylindrical_derivatives(np.array([fp, fp]), np.array([ft, ft]), np.array([r, 1.0]), np.array([t, t]))
                hx, hy = sf.surface_normal_from_cylindrical_derivatives(np.array([fp]), 0 if ft == 0 else np.array([ft]), np.array([r]), np.array([t]))
            got = [float(gx[0]), float(gy[0])]
            if not _cmp(got, m) or not _cmp([float(hx[0]), float(hy[0])], m):
                ctx.disagree('cyl_normal', case, got, m)
            if not np.isfinite(got).all():
                ctx.pred_fail('cyl_normal', case, f'gradient not finite: {got}')
        elif kind == 'polar':
            pc = job[1]
            m = [C.w2f(v) for v in next(rep).split()]
            ctx.case('off_axis_polar', pc, tag='dx' if pc['dx'] != 0 else 'dy')
            try:
                bad, got = polar_eval(pc)
            except Exception as ex:
                ctx.disagree('off_axis_polar', pc, f'raised {type(ex).__name__}: {ex}', m)
                ctx.pred_fail('off_axis_polar', pc, f'off_axis_conic_sag/der raised {type(ex).__name__}: {ex}')
                continue
            if not _cmp(list(got), m, max(abs(v) for v in m)):
                ctx.disagree('off_axis_polar', pc, list(got), m)
            for b in bad[:1]:
                ctx.pred_fail('off_axis_polar', pc, b)
        elif kind == 'frames':
            _, P0, Rm, X, S = job
            ml = [C.w2f(v) for v in next(rep).split()]
            mg = [C.w2f(v) for v in next(rep).split()]
            case = {'P': P0.tolist(), 'R': None if Rm is None else np.asarray(Rm).tolist(), 'X': X.tolist(), 'S': S.tolist()}
            ctx.case('frames', case, tag='R' if Rm is not None else 'noR')
            Xl, Sl = sm.transform_to_local_coords(np.stack([X, X]), P0, np.stack([S, S]), Rm)
            Xg, Sg = sm.transform_to_global_coords(np.stack([X, X]), P0, np.stack([S, S]), None if Rm is None else Rm.T)
            if not _cmp(list(Xl[1]) + list(Sl[1]), ml, 20.0) or not _cmp(list(Xg[1]) + list(Sg[1]), mg, 20.0):
                ctx.disagree('frames', case, [list(Xl[1]), list(Sl[1]), list(Xg[1]), list(Sg[1])], [ml, mg])
            Xb, Sb = sm.transform_to_global_coords(Xl, P0, Sl, None if Rm is None else Rm.T)
            if not _cmp(Xb[0], X, 20.0) or not _cmp(Sb[0], S) or abs(np.linalg.norm(Sl[0]) - 1) > TOL \
                    or abs(np.linalg.norm(Xl[0]) - np.linalg.norm(X - P0)) > TOL * 20:
                ctx.pred_fail('frames', case, 'local/global frame change is not an exact rigid motion')

    if cf2_lines:
        for (case, j, shname, X, shift, tag), reply in zip(cf2_jobs, C.lean_driver('C19', cf2_lines)):
            tok = reply.split()
            hit = np.array([C.w2f(v) for v in tok[1:4]]) - shift if len(tok) == 4 else np.full(3, np.nan)
            ctx.case('trace_closed_form', {**case, 'surface': j}, nontrivial=shname != 'plane', tag=f'{shname}/surface{min(j, 2)}/{tag}')
            if not np.isfinite(hit).all():
                ctx.hist['trace_closed_form:model-nan'] += 1
                continue
            if np.abs(X - hit).max() > 1e-9 * max(1.0, float(np.abs(hit).max())):
                ctx.disagree('trace_closed_form', {**case, 'surface': j}, {'local_hit': X.tolist()}, {'closed_form': hit.tolist()})

    _qtype_stream(ctx)
    _intersect_stream(ctx)
    _history_stream(ctx)
    _floors(ctx)


def intersect_eval(c):
    """spencer_and_murty.intersect called directly (local frame): far origins, a non-zero initial guess s1, a user eps"""
    sf, sm, co = _impl()
    surf = build_surface({'kind': 'refl', 'P': [0.0, 0.0, 0.0], 'R': None, 'shape': tuple(c['shape'])})
    P0 = np.array([c['P']], dtype=float)
    S = np.array([c['S']], dtype=float)
    kw = {}
    if c.get('eps') is not None:
        kw['eps'] = c['eps']
    with np.errstate(all='ignore'):
        Pj, r = sm.intersect(P0, S, surf.sag_normal, c.get('s1', 0), **kw)
    X = np.asarray(Pj)[0]
    if not np.isfinite(X).all():
        return [f'intersect lost the ray: {X.tolist()}']
    G, N = implicit(tuple(c['shape']), X)
    scale = max(1.0, float(np.abs(X).max()))
    tol = max(2e-12, 4 * (c.get('eps') or 0.0)) * scale * max(1.0, float(np.linalg.norm(N)))
    bad = []
    if abs(G) > tol:
        bad.append(f'intersect: point off the surface, implicit-equation residual {G:.3e} (ray origin at distance {np.linalg.norm(P0[0] - X):.3g})')
    d = X - P0[0]
    if np.linalg.norm(np.cross(d / max(1.0, float(np.abs(d).max())), S[0])) > TOL:
        bad.append('intersect: point is not on the ray')
    if np.abs(np.cross(np.asarray(r)[0], N)).max() > 1e-9 * max(1.0, float(np.linalg.norm(N))):
        bad.append('intersect: returned normal is not parallel to the surface normal at the returned point')
    return bad


def _closed_form_line(sh, P, S):
    """driver request for the closed-form ray/conic intersection (theorem conic_closed_form_hit) of the ray (P, S) with a plane, a
    conic or an off-axis conic (= the parent conic at shifted coordinates): the origin is first moved along the ray to the vertex
    plane (any point of the ray will do for the theorem; this one keeps C small for origins 1e9 or 1e99 away) and the direction is
    taken towards +z (the same line), so that the model's root `C / (sqrt(B^2 - AC) - B)` is the one next to the vertex.
    -> (line, shift) or None"""
    P, S = np.asarray(P, dtype=float), np.asarray(S, dtype=float)
    if sh[0] == 'plane':
        c_, k_, shift = 0.0, 0.0, np.zeros(3)
    elif sh[0] == 'conic':
        c_, k_, shift = float(sh[1]), float(sh[2]), np.zeros(3)
    elif sh[0] == 'sphere':
        c_, k_, shift = float(sh[1]), 0.0, np.zeros(3)
    elif sh[0] in ('offaxis', 'off_axis', 'offAxis') and len(sh) >= 5:
        c_, k_, shift = float(sh[1]), float(sh[2]), np.array([float(sh[3]), float(sh[4]), 0.0])
    else:
        return None
    if S[2] == 0 or not np.isfinite(P).all():
        return None
    P1 = P + (-P[2] / S[2]) * S
    P1[2] = 0.0
    Sd = S if S[2] > 0 else -S
    return ' '.join(['hit', C.f2w(c_), C.f2w(k_)] + [C.f2w(v) for v in (P1 + shift)] + [C.f2w(v) for v in Sd]), shift


def _intersect_stream(ctx):
    rng = ctx.rng
    cf_lines, cf_jobs = [], []
    for i in range(ctx.scale(60, 800)):
        a = float(rng.choice([2.0, 5.0, 12.5]))
        sh = _rand_shape(rng, a)
        if sh[0] == 'plane' and i % 4:
            sh = ('conic', 0.3 / a, -1.0)
        spec = {'kind': 'refl', 'P': [0.0, 0.0, 0.0], 'R': None, 'shape': sh}
        far = [None, 1e3, 1e6, 1e9, 'infinity'][i % 5]
        P, S, _ = _rays_for(rng, spec, None, a, 1, 1.0, backward=bool(i % 2), far=far)
        c = {'shape': list(sh), 'P': P[0].tolist(), 'S': S[0].tolist(), 's1': [0, 0.5, -0.25][i % 3] if far != 'infinity' else 0,
             'eps': [None, 1e-10][(i // 3) % 2]}
        ctx.case('intersect', c, tag=f'far={far}/s1={c["s1"]}/eps={c["eps"]}')
        try:
            bad = intersect_eval(c)
        except Exception as ex:
            bad = [f'intersect raised {type(ex).__name__}: {ex}']
        for b in bad[:1]:
            ctx.pred_fail('intersect', c, b)
        cf = _closed_form_line(sh, c['P'], c['S'])
        if cf is not None and not bad:
            cf_lines.append(cf[0])
            cf_jobs.append((c, cf[1]))
    # Newton's answer against the PROVED closed form (planes, conics, off-axis conics): same point of the surface, not merely a point
    # of the surface -- the root next to the vertex
    if cf_lines:
        sf, sm, co = _impl()
        for (c, shift), reply in zip(cf_jobs, C.lean_driver('C19', cf_lines)):
            tok = reply.split()
            if len(tok) != 4:
                continue
            hit = np.array([C.w2f(v) for v in tok[1:]]) - shift
            surf = build_surface({'kind': 'refl', 'P': [0.0, 0.0, 0.0], 'R': None, 'shape': tuple(c['shape'])})
            kw = {'eps': c['eps']} if c.get('eps') is not None else {}
            with np.errstate(all='ignore'):
                Pj, _ = sm.intersect(np.array([c['P']], dtype=float), np.array([c['S']], dtype=float), surf.sag_normal, c.get('s1', 0), **kw)
            X = np.asarray(Pj)[0]
            cc = {**c, 'closed_form': True}
            ctx.case('intersect_closed_form', cc, nontrivial=c['shape'][0] != 'plane', tag=str(c['shape'][0]))
            if not np.isfinite(hit).all():
                ctx.hist['intersect_closed_form:model-nan'] += 1
                continue
            scale = max(1.0, float(np.abs(hit).max()))
            if np.abs(X - hit).max() > max(1e-9, 40 * (c.get('eps') or 0.0)) * scale:
                ctx.disagree('intersect_closed_form', cc, X.tolist(), hit.tolist())


def history_eval(c):
    """build a Surface, trace, MODIFY its public attributes in place (params entries, P, R, n, typ -- what an optimiser, a tolerancing
    loop or a focus compensator does), trace again: the result must equal that of a freshly built surface with the new values"""
    sf, sm, co = _impl()
    s0, s1 = c['spec0'], c['spec1']
    P = np.array(c['P'], dtype=float)
    S = np.array(c['S'], dtype=float)
    surf = build_surface(s0)
    with np.errstate(all='ignore'):
        first = sm.raytrace([surf], P.copy(), S.copy(), 0.6328, n_ambient=c['n0'])
        again = sm.raytrace([surf], P.copy(), S.copy(), 0.6328, n_ambient=c['n0'])
    bad = []
    if not (np.array_equal(first[0], again[0], equal_nan=True) and np.array_equal(first[1], again[1], equal_nan=True)):
        bad.append('tracing the same surface object twice with the same rays gives different results')
    fresh = build_surface(s1)
    for what in c['mutate']:
        if what == 'params':
            for k_, v_ in (fresh.params or {}).items():      # a plane has no parameters
                surf.params[k_] = v_
        elif what == 'P':
            surf.P = np.array(fresh.P, copy=True)
        elif what == 'R':
            surf.R = None if fresh.R is None else np.array(fresh.R, copy=True)
        elif what == 'n':
            surf.n = fresh.n
        elif what == 'typ':
            surf.typ = fresh.typ
    with np.errstate(all='ignore'):
        got = sm.raytrace([surf], P.copy(), S.copy(), 0.6328, n_ambient=c['n0'])
        exp = sm.raytrace([fresh], P.copy(), S.copy(), 0.6328, n_ambient=c['n0'])
    if not (np.allclose(got[0], exp[0], rtol=1e-13, atol=1e-13, equal_nan=True) and np.allclose(got[1], exp[1], rtol=0, atol=1e-13, equal_nan=True)):
        dev = float(np.nanmax(np.abs(np.asarray(got[1]) - np.asarray(exp[1]))))
        bad.append(f'after modifying {c["mutate"]} of an existing Surface in place the trace differs from a freshly built surface with the '
                   f'same values (max direction-cosine deviation {dev:.3e})')
    return bad


def _history_stream(ctx):
    rng = ctx.rng
    for i in range(ctx.scale(60, 900)):
        a = float(rng.choice([2.0, 5.0, 12.5]))
        kind = ['refl', 'refr'][i % 2]
        sh0 = _rand_shape(rng, a)
        if sh0[0] == 'plane' and i % 5:
            sh0 = ('conic', 0.3 / a, -1.0)
        # the same family of shape with new parameter values
        if sh0[0] == 'plane':
            sh1 = sh0
        elif sh0[0] == 'sphere':
            sh1 = ('sphere', sh0[1] * float(rng.uniform(0.5, 1.5)))
        elif sh0[0] == 'conic':
            sh1 = ('conic', sh0[1] * float(rng.uniform(0.5, 1.5)), float(rng.choice(KAPPAS)))
        else:
            sh1 = ('offaxis', sh0[1] * float(rng.uniform(0.5, 1.5)), float(rng.choice(KAPPAS)), sh0[3] * 1.1, sh0[4] * 1.1)
        P0, R0 = _rand_frame(rng, tilted=bool(i % 3 == 0))
        P1, R1 = _rand_frame(rng, tilted=bool(i % 3 != 1))
        s0 = {'kind': kind, 'P': P0, 'R': R0, 'shape': list(sh0), 'n': 1.5168, 'form': 0}
        mutate = [['params'], ['params', 'P'], ['P', 'R'], ['n', 'typ'], ['params', 'P', 'R', 'n', 'typ']][i % 5]
        s1 = dict(s0)
        if 'params' in mutate:
            s1['shape'] = list(sh1)
        if 'P' in mutate:
            s1['P'] = P1
        if 'R' in mutate:
            s1['R'] = R1
        if 'n' in mutate:
            s1['n'] = 1.7
        if 'typ' in mutate:
            s1['kind'] = 'refr' if kind == 'refl' else 'refl'
        Pr, Sr, _ = _rays_for(rng, s0, None if R0 is None else _rot_deg(R0), a, 6, 1.0)
        c = {'spec0': s0, 'spec1': s1, 'mutate': mutate, 'P': Pr.tolist(), 'S': Sr.tolist(), 'n0': 1.0}
        ctx.case('surface_history', c, tag=f'{sh0[0]}/{"+".join(mutate)}')
        try:
            bad = history_eval(c)
        except Exception as ex:
            bad = [f'raised {type(ex).__name__}: {ex}']
        for b in bad[:1]:
            ctx.pred_fail('surface_history', c, b)


def _floors(ctx):
    """a run must not hollow out silently: skipped / out-of-scope cases are counted, and too few executed ones is a TOOL error"""
    h = ctx.hist
    ntr = ctx.items.get('trace', 0)
    need = {'trace:checked': 0.7 * ntr, 'trace:checked/1surf': 0.3 * ntr, 'trace:checked/2surf': 0.03 * ntr,
            'trace:checked/3surf': 0.1 * ntr, 'trace:checked/nearcrit': 3, 'trace:checked/origin-at-1e99': 0.01 * ntr,
            'trace:checked/nearvertex': 0.05 * ntr, 'trace:batches-with-missing-rays': 100, 'trace:checked/refraction-against-the-normal': 0.02 * ntr,
            'refract:near-critical-sloped': 100, 'off_axis_polar:dx': 30, 'off_axis_polar:dy': 30,
            'qtype_trace:refl/dx': 10, 'surface_history': 40, 'qtype_trace:refr/dx': 10, 'qtype_trace:refl/dy': 10, 'qtype_trace:refr/dy': 10}
    low = {k: (h.get(k, ctx.items.get(k, 0)), int(v)) for k, v in need.items() if h.get(k, ctx.items.get(k, 0)) < v}
    if low:
        raise C.ToolError(f'C19 correspondence executed too few cases (got, floor): {low}')


def _qtype_stream(ctx):
    """Q-type surfaces: predicates on the real code only (not modelled in Lean)"""
    rng = ctx.rng
    for i in range(ctx.scale(18, 240)):
        cfg = q_config(rng, i)
        P, S = q_rays(rng, cfg, ctx.scale(6, 10))
        try:
            bad = q_eval(cfg, P, S)
        except Exception as ex:
            bad = [(0, f'raised {type(ex).__name__}: {ex}')]
        for j in range(len(P)):
            ctx.case('qtype_trace', {**cfg, 'P': P[j].tolist(), 'S': S[j].tolist()},
                     tag=f'{cfg["kind"]}/{"dx" if cfg["dx"] else ("dy" if cfg["dy"] else "unshifted")}')
        for (j, b) in bad[:1]:
            ctx.pred_fail('qtype_trace', {**cfg, 'P': P[j].tolist(), 'S': S[j].tolist()}, b)


# ------------------------------------------------------------------------------------------------
# search / replay
# ------------------------------------------------------------------------------------------------
def eval_case(case):
    """run one recorded input on the real code; returns (violations, printable)"""
    specs = case['surfaces']
    P = np.array([case['P']], dtype=float)
    S = np.array([case['S']], dtype=float)
    if case.get('with'):
        P = np.vstack([P, np.array(case['with']['P'], dtype=float)])
        S = np.vstack([S, np.array(case['with']['S'], dtype=float)])
    try:
        P_hist, S_hist, mats = run_impl(specs, P, S, case.get('n0', 1.0), single=case.get('api') == 'single')
    except Exception as ex:
        return [f'raytrace raised {type(ex).__name__}: {ex}'], None
    ph, sh = P_hist[:, 0, :], S_hist[:, 0, :]
    if case.get('with'):
        p1, s1, _ = run_impl(specs, P[:1], S[:1], case.get('n0', 1.0), single=False)
        if not (np.allclose(ph, p1[:, 0, :], rtol=1e-12, atol=1e-12, equal_nan=True) and np.allclose(sh, s1[:, 0, :], rtol=0, atol=1e-12, equal_nan=True)):
            return [f'the ray traced in a batch with rays that miss differs from the same ray traced alone: {ph[-1].tolist()} vs {p1[-1, 0].tolist()}'], (ph, sh)
    return check_physics(specs, mats, ph, sh, case.get('n0', 1.0)), (ph, sh)


def _corpus():
    """minimised past failures (corpus/C19/*.json), always tried first"""
    import glob
    import json
    import os
    out = []
    for f in sorted(glob.glob(os.path.join(C.VERIF, 'corpus', 'C19', '*.json'))):
        try:
            o = json.load(open(f))
            out.append((o['item'], o['input']))
        except Exception:
            pass
    return out


def search(ctx, hints):
    """small scope first: one conic surface at the origin, simplest rays; then the failing correspondence cases"""
    cands = [c for (it, c) in _corpus() if it == 'trace']
    for z0 in (-1e9, 1e9, -1e99):
        cands.append({'surfaces': [{'kind': 'refl', 'P': [0.0, 0.0, 0.0], 'R': None, 'shape': ['conic', 0.02, -0.5], 'n': 1.0}],
                      'P': [3.0, 4.0, z0], 'S': [0.0, 0.0, 1.0 if z0 < 0 else -1.0], 'n0': 1.0, 'api': 'batch'})
    for kind in ('refl', 'refr'):
        for sh in (('conic', -0.01, -1.0), ('sphere', 0.02), ('plane',), ('offaxis', -0.01, -1.0, 0.0, 20.0), ('offaxis', -0.01, 0.0, 15.0, 0.0)):
            for (p, s) in (([0.0, 0.0, -10.0], [0.0, 0.0, 1.0]), ([5.0, 0.0, -10.0], [0.0, 0.0, 1.0]),
                           ([5.0, 3.0, -10.0], [0.0, 0.0, 1.0]), ([0.0, 2.0, -10.0], [0.0, 0.6, 0.8])):
                for api in ('batch', 'single'):
                    for n0, n1 in ((1.0, 1.5), (1.5, 1.0)):
                        if kind == 'refl' and n0 != 1.0:
                            continue
                        cands.append({'surfaces': [{'kind': kind, 'P': [0.0, 0.0, 0.0], 'R': None, 'shape': list(sh), 'n': n1}],
                                      'P': p, 'S': s, 'n0': n0, 'api': api})
    for d in list(hints.get('pred_failures', [])) + list(hints.get('disagreements', [])):
        if d.get('item') == 'trace' and isinstance(d.get('case'), dict) and 'surfaces' in d['case']:
            cands.append(d['case'])
    for c in cands:
        c = _jsonable(c)
        bad, _ = eval_case(c)
        if bad:
            return {'item': 'trace', 'input': c, 'detail': bad[0]}
    for shp0, shp1 in ((['conic', 0.02, -1.0], ['conic', 0.03, 0.0]), (['sphere', 0.02], ['sphere', -0.02])):
        hc = {'spec0': {'kind': 'refl', 'P': [0.0, 0.0, 0.0], 'R': None, 'shape': shp0, 'n': 1.5, 'form': 0},
              'spec1': {'kind': 'refl', 'P': [0.0, 0.0, 0.0], 'R': None, 'shape': shp1, 'n': 1.5, 'form': 0},
              'mutate': ['params'], 'P': [[3.0, 4.0, -10.0], [0.0, 0.0, -10.0]], 'S': [[0.0, 0.0, 1.0], [0.0, 0.0, 1.0]], 'n0': 1.0}
        try:
            hb = history_eval(hc)
        except Exception as ex:
            hb = [f'raised {type(ex).__name__}: {ex}']
        if hb:
            return {'item': 'surface_history', 'input': hc, 'detail': hb[0]}
    # Q-type surfaces and the public polar routines
    qrng = np.random.Generator(np.random.PCG64(2024))
    for i in range(12):
        cfg = q_config(qrng, i)
        P, S = q_rays(qrng, cfg, 4)
        try:
            bad = q_eval(cfg, P, S)
        except Exception as ex:
            bad = [(0, f'raised {type(ex).__name__}: {ex}')]
        if bad:
            j, b = bad[0]
            return {'item': 'qtype_trace', 'input': _jsonable({**cfg, 'P': P[j].tolist(), 'S': S[j].tolist()}), 'detail': b}
    for (dx, dy) in ((3.0, 0.0), (0.0, 3.0)):
        for t in (0.7, -2.1):
            pc = {'c': 0.02, 'k': -1.0, 'r': 4.0, 't': t, 'dx': dx, 'dy': dy}
            bad, _ = polar_eval(pc)
            if bad:
                return {'item': 'off_axis_polar', 'input': pc, 'detail': bad[0]}
    # unit-level predicates
    sf, sm, co = _impl()
    S = np.array([[0.6, 0.0, 0.8]])
    # glass -> air, sloped point, 97% of the critical angle about the true normal
    g = np.array([-0.9, 0.0, 1.0])
    gh = g / np.linalg.norm(g)
    th = 0.97 * math.asin(1 / 1.5)
    Sn = math.cos(th) * gh + math.sin(th) * np.array([0.0, 1.0, 0.0])
    with np.errstate(all='ignore'):
        try:
            out = sm.refract(1.5, 1.0, Sn[None, :], g[None, :])[0]
            ok = bool(np.isfinite(out).all()) and abs(np.linalg.norm(out) - 1) <= TOL
        except Exception:
            ok = False
    if not ok:
        return {'item': 'refract', 'input': {'n': 1.5, 'nprime': 1.0, 'S': Sn.tolist(), 'r': g.tolist()},
                'detail': 'refract below the critical angle at a sloped surface point does not return a finite unit vector'}
    for g in ([0.0, 0.0, 1.0], [-0.3, 0.2, 1.0]):
        g = np.array([g])
        with np.errstate(all='ignore'):
            try:
                out = sm.refract(1.0, 1.5, S, g)[0]
                ok = abs(np.linalg.norm(out) - 1) <= TOL
            except Exception:
                ok = False
        if not ok:
            return {'item': 'refract', 'input': {'n': 1.0, 'nprime': 1.5, 'S': S[0].tolist(), 'r': g[0].tolist()},
                    'detail': 'refract does not return a unit vector'}
    with np.errstate(all='ignore'):
        gx, gy = sf.surface_normal_from_cylindrical_derivatives(np.array([0.0]), 0, np.array([0.0]), np.array([0.0]))
    if not (np.isfinite(gx).all() and np.isfinite(gy).all()):
        return {'item': 'cyl_normal', 'input': {'fp': 0.0, 'ft': 0.0, 'r': 0.0, 't': 0.0}, 'detail': 'gradient not finite on the axis'}
    for ang in ((0.3, 0.0, 0.0), (0.0, 0.3, 0.0), (0.0, 0.0, 0.3), (0.2, -0.4, 0.7)):
        Rm = co.make_rotation_matrix(ang, radians=True)
        if np.abs(Rm @ Rm.T - np.eye(3)).max() > TOL or abs(np.linalg.det(Rm) - 1) > TOL:
            return {'item': 'rotation', 'input': {'zyx_rad': list(ang)}, 'detail': 'not a rotation matrix'}
    return None


def _jsonable(c):
    import json
    return json.loads(json.dumps(c, default=lambda o: o.tolist() if hasattr(o, 'tolist') else str(o)))


def replay(inp):
    sf, sm, co = _impl()
    item, c = inp['item'], inp['input']
    print('replaying', item, c)
    if item == 'trace':
        bad, out = eval_case(c)
        if out is not None:
            print('P_hist', out[0].tolist())
            print('S_hist', out[1].tolist(), ' |S| =', np.linalg.norm(out[1], axis=1).tolist())
        for b in bad:
            print('  ', b)
        return bool(bad)
    if item == 'surface_history':
        bad = history_eval(c)
        for b in bad:
            print('  ', b)
        return bool(bad)
    if item == 'intersect':
        bad = intersect_eval(c)
        for b in bad:
            print('  ', b)
        return bool(bad)
    if item == 'surface_frame':
        surf = build_surface({**c, 'shape': tuple(c['shape'])})
        print('Surface.P =', np.asarray(surf.P).tolist(), ' Surface.R =', None if surf.R is None else np.asarray(surf.R).tolist())
        bad = not _cmp(surf.P, _pvec(c['P']))
        if c.get('R') is not None:
            bad = bad or not _cmp(surf.R, _rot_deg(c['R']))
        return bool(bad)
    if item == 'qtype_trace':
        bad = q_eval(c, [c['P']], [c['S']])
        for _, b in bad:
            print('  ', b)
        return bool(bad)
    if item == 'off_axis_polar':
        bad, got = polar_eval(c)
        print('sag, d/dr, d/dt =', got)
        for b in bad:
            print('  ', b)
        return bool(bad)
    if item == 'refract':
        S = np.array([c['S']])
        g = np.array([c['r']])
        try:
            with np.errstate(all='ignore'):
                out = sm.refract(c['n'], c['nprime'], S, g)[0]
        except Exception as ex:
            print('raised', ex)
            return True
        gh = g[0] / np.linalg.norm(g[0])
        dev = np.abs(c['nprime'] * np.cross(out, gh) - c['n'] * np.cross(S[0], gh)).max()
        print('S\' =', out.tolist(), '|S\'| =', np.linalg.norm(out), 'Snell residual', dev)
        return (not np.isfinite(out).all()) or abs(np.linalg.norm(out) - 1) > TOL or dev > TOL * max(c['n'], c['nprime']) \
            or (out @ gh) * (S[0] @ gh) <= 0
    if item == 'reflect':
        S = np.array(c['S'])
        g = np.array(c['r'])
        out = np.asarray(sm.reflect(S, g)).reshape(3)
        gh = g / np.linalg.norm(g)
        print('S\' =', out.tolist())
        return bool(np.abs(out - (S - 2 * (S @ gh) * gh)).max() > TOL)
    if item == 'cyl_normal':
        with np.errstate(all='ignore'):
            gx, gy = sf.surface_normal_from_cylindrical_derivatives(np.array([c['fp']]), np.array([c['ft']]), np.array([c['r']]), np.array([c['t']]))
        print('gradient', gx, gy)
        return not (np.isfinite(gx).all() and np.isfinite(gy).all())
    if item == 'sag_normal':
        surf = build_surface({'kind': 'refl', 'P': [0, 0, 0], 'R': None, 'shape': tuple(c['shape'])})
        with np.errstate(all='ignore'):
            z, der = surf.sag_normal(np.array([c['x']]), np.array([c['y']]))
        print('sag', z, 'normal', der)
        if not (np.isfinite(z).all() and np.isfinite(der).all()):
            return True
        G, N = implicit(tuple(c['shape']), np.array([c['x'], c['y'], float(z[0])]))
        return abs(G) > TOL * max(1.0, abs(float(z[0]))) or np.abs(np.cross(N, der[0])).max() > TOL * max(1.0, float(np.linalg.norm(N)))
    if item == 'rotation':
        Rm = co.make_rotation_matrix(tuple(c['zyx_rad']), radians=True)
        print(Rm)
        return np.abs(Rm @ Rm.T - np.eye(3)).max() > TOL or abs(np.linalg.det(Rm) - 1) > TOL
    if item == 'frames':
        P0, X, S = np.array(c['P']), np.array(c['X']), np.array(c['S'])
        Rm = None if c['R'] is None else np.array(c['R'])
        Xl, Sl = sm.transform_to_local_coords(X[None, :], P0, S[None, :], Rm)
        Xb, Sb = sm.transform_to_global_coords(Xl, P0, Sl, None if Rm is None else Rm.T)
        print('round trip', Xb, Sb)
        return not (_cmp(Xb[0], X, 20.0) and _cmp(Sb[0], S))
    print('no replay routine for item', item)
    return False


MANIFEST_ENTRY = {
    'technique': 'Lean 4 proof (field algebra over translator-generated vector formulas, sqrt / copysign as parameters with laws) + '
                 'differential ray tracing against the Lean Float model with independent implicit-surface / numerical-gradient oracles',
    'text': ('PARTIAL.  PROPERTY THEOREMS (every ray, normal, parameter; any ordered field; sqrt via sqrt(x)^2 = x, sqrt >= 0, copysign via '
             'its definition): reflect preserves length and mirrors about r for every non-zero (un-normalised) normal; refract returns a '
             'unit vector, n\'(S\' x r) = n(S x r) (plane of incidence + n sin i = n\' sin i\') and S\'.r has the sign of S.r (the '
             'refracted ray continues through the surface, also when it travels against the normal) for every unit S and every NON-ZERO '
             'normal of any length below the critical angle, in particular for the un-normalised gradient raytrace hands over; frame '
             'changes are inverse rigid motions when R^T R = I and make_rotation_matrix is orthogonal for all angles; the conic sag '
             'satisfies the conic equation and (-Fx,-Fy,1) is parallel to the gradient of the implicit equation (true normal), also for '
             'the off-axis closure; over the reals conic_sag_der is the derivative (HasDerivAt) of conic_sag; the polar->Cartesian '
             'gradient never divides by zero and equals the Cartesian gradient on the whole surface, vertex included; the public polar '
             'off-axis functions are the chain-rule images of the parent conic at shifted coordinates; intersect starts on the vertex '
             'plane; Newton post-condition |F| < eps|F\'| IF the loop stops; for PLANES convergence is proved, not trusted: the Newton '
             'loop of the model stops in its first pass with the exact intersection for every ray not parallel to the plane, every '
             'eps > 0 and iteration budget >= 1 (plane_intersect_converges), and the translated update reaches the root in one step from '
             'any s_j (plane_newton_one_step); for CONICS (planes and off-axis parents included) the implicit equation along a ray is the '
             'quadratic A s^2 + 2 B s + C (conic_ray_quadratic), the closed-form point P + C/(sqrt(B^2-AC) - B) S lies on the conic '
             '(conic_closed_form_hit), and on the vertex branch a point of the implicit conic is a point of the translated sag function '
             '(conic_implicit_is_sag; with conic_on_surface: G = 0 <=> z = sag); WHOLE TRACE: for every prescription (any number / mix of '
             'surfaces, shapes, orthogonal frames) the model tracer returns one hit per surface and every outgoing direction is a unit '
             'vector, given a unit start direction and no total internal reflection (trace_unit_directions, induction over the surface '
             'list; the model tracer is the one compared with raytrace at 1e-9); under the same hypotheses Snell\'s law in vector form '
             'holds at EVERY refracting surface with the index the previous hit carries and the law of reflection at EVERY mirror, the '
             'index being unchanged by mirrors and evaluation surfaces (trace_snell, SurfaceLaw / TraceLaws; the index carried on is the '
             'translated dispatch of raytrace: gen_index_threading, surface_index -- a mirror that resets the index to ambient fails the '
             'obligation); and IF the tracer returns hits (Newton stopped everywhere -- a POST-CONDITION, not convergence) every hit of '
             'every prescription is a point of the ray sent on by the previous hit, within eps*scale*|F\'| of the surface, with the '
             'normal vector of the surface there (trace_on_surface, newton_model_postcondition by induction over the iteration '
             'budget).  TRANSLATION IDENTITIES (generated = model, syntactic or '
             'ring-normalised; AST facts; no content of their own): the 12 gen_* theorems and gen_structure.  COMPARED ON THE REAL CODE: '
             'the whole trace (Newton iteration, masking, index threading through n=None surfaces inside glass, batch and single-ray '
             'call forms, every spelling of typ and of P) against the Lean Float model and an independent implicit-surface oracle '
             '(on-surface residual 2e-12, unit length, mirror law, Snell with the true indices, continuation through the surface, rays '
             'against the normal, 50%..99.9% of the critical angle at sloped points); off_axis_conic_sag/der against model and numerical '
             'derivatives; Q-type surfaces (Q2d_and_der) traced and checked against the numerical gradient of their own sag; the hit '
             'point of EVERY surface of every trace and of the direct intersect() stream against the proved closed-form intersection '
             '(driver op hit, 1e-9): Newton must land on the root next to the vertex, not merely on the surface.'),
    'note': ('NOT proved: convergence of Newton-Raphson on curved surfaces (post-condition in exact arithmetic + comparison with the '
             'proved closed form for conics; proved for planes), floating-point error, the batch '
             'masking bookkeeping, that hypot/arctan2 deliver a (cos, sin) pair; Q-type surfaces are '
             'not modelled in Lean (real code vs numerical gradient at 1e-7 only); eps / maxiter are not translated (a loosened stopping '
             'rule is seen through the 2e-12 on-surface residual).  Too few executed cases in any stream is a tool error (floors).'),
}
