"""C10 — fast modal sums equal explicit sums; least-squares fit inverts synthesis.

correspondence: Lean model (driver `Drivers/C10.lean`, run on Float and on exact rationals) vs the real prysm
routines on the same inputs; the property's own predicate (fast path == explicit sum of coefficient times mode,
with the modes taken from prysm's value routines; lstsq(synthesis) == coefficients) is evaluated on the real
outputs of every case.
"""
import itertools
import sys
from fractions import Fraction

import numpy as np

from harness import common as C

sys.set_int_max_str_digits(0)

RULE = ('coefficient vectors of length 1..12 (thorough: ..16), kinds dense / sparse (about half the entries zero) / single-term '
        '(each position) / leading-zero; Jacobi parameters from {-0.9,-1/2,0,1/2,1,2.3} incl. alpha+beta in {0,-1}; points: '
        'scalars, 1-D and 2-D arrays inside the domain; exact runs use fractions.Fraction object arrays through prysm\'s own '
        'code where no float literal is on the path; 2D-Q content: cosine-only / sine-only / mixed / empty inner lists / unequal '
        'outer lengths / unequal radial lengths, m up to 5; packing: random sparse (n,m,c) lists with missing families and '
        'repeated modes; lstsq: Zernike / Legendre-product / XY bases with none / circular / ragged / dropout NaN masks that '
        'keep full rank (rank verified exactly by the model). A case is non-trivial unless all coefficients are zero; distinct = '
        'distinct (item, input) tuples')
ASSUMPTIONS = ['np.tensordot / fancy indexing / np.isfinite semantics (trusted)',
               'np.linalg.lstsq returns the least-squares minimiser for a full-column-rank matrix (trusted)',
               'f_qbfs/g_qbfs/h_qbfs/f_q2d/g_q2d (square roots, factorials) enter the model as numbers taken from prysm; '
               'the theorems hold for every non-vanishing f',
               'float comparisons at 1e-9 relative to max(1, |expected|) on well-conditioned inputs (orders <= 16, |x| <= 1)']
TOL = 1e-9


# ------------------------------------------------------------------------------------------------
# access to the implementation
# ------------------------------------------------------------------------------------------------
def _impl():
    import importlib
    from prysm import polynomials as P
    qpoly = importlib.import_module('prysm.polynomials.qpoly')
    J = importlib.import_module('prysm.polynomials.jacobi')
    return P, qpoly, J


def close(a, b, tol=TOL):
    a = np.asarray(a, dtype=float)
    b = np.asarray(b, dtype=float)
    if a.shape != b.shape:
        return False
    if not (np.isfinite(a).all() and np.isfinite(b).all()):
        return False
    scale = max(1.0, float(np.max(np.abs(b))) if b.size else 1.0)
    return bool(np.max(np.abs(a - b)) <= tol * scale) if a.size else True


def wl(xs, w=C.f2w):
    return f'{len(xs)} ' + ' '.join(w(v) for v in xs) if len(xs) else '0'


def frac(x):
    return Fraction(x)


def rat_to_float(tok):
    return float(Fraction(tok))


# ------------------------------------------------------------------------------------------------
# coefficient generators
# ------------------------------------------------------------------------------------------------
def coef_vector(rng, n, kind, pos=0):
    if kind == 'dense':
        v = rng.uniform(-1, 1, n)
    elif kind == 'sparse':
        v = rng.uniform(-1, 1, n) * (rng.uniform(size=n) < 0.5)
        if not v.any():
            v[rng.integers(n)] = 1.0
    elif kind == 'single':
        v = np.zeros(n)
        v[pos % n] = rng.uniform(0.5, 1.5)
    elif kind == 'leadzero':
        v = rng.uniform(-1, 1, n)
        v[-1] = 0.0
    else:
        raise ValueError(kind)
    return [float(t) for t in v]


def coef_cases(ctx, nmax):
    out = []
    for n in range(1, nmax + 1):
        out.append((n, 'dense', 0))
        out.append((n, 'sparse', 0))
        out.append((n, 'single', int(ctx.rng.integers(n))))
        if n > 1:
            out.append((n, 'single', n - 1))
            out.append((n, 'leadzero', 0))
    return out


def qbfs_fgh(qp, n):
    n = max(n, 2)
    return ([float(qp.f_qbfs(i)) for i in range(n)], [float(qp.g_qbfs(i)) for i in range(n)],
            [float(qp.h_qbfs(i)) for i in range(n)])


def q2d_fg(qp, m, n):
    n = max(n, 1)
    return [float(qp.f_q2d(i, m)) for i in range(n)], [float(qp.g_q2d(i, m)) for i in range(n)]


# ------------------------------------------------------------------------------------------------
# property predicates on the real code (used by correspondence, search and replay)
# ------------------------------------------------------------------------------------------------
def pred(case):
    """evaluate the property's predicate on the real implementation; returns (ok, detail)"""
    P, qp, J = _impl()
    it = case['item']
    try:
        if it == 'alias':
            return pred_alias(case)
        if it in ('tdotx', 'coords', 'signedm', 'pvr', 'fitplane'):
            return pred_forms(case)
        if it == 'seqarg':
            return pred_seq(case)
        if it == 'lstsqcond':
            ok_, d_ = pred_cond(case)
            return (True if ok_ is None else ok_), d_
        if it == 'jsum':
            s, a, b = case['s'], case['alpha'], case['beta']
            x = np.asarray(case['x'], dtype=float)
            got = J.jacobi_sum_clenshaw(s, a, b, x)
            exp = sum(c * J.jacobi(n, a, b, x) for n, c in enumerate(s))
            return close(got, exp), f'jacobi_sum_clenshaw={np.asarray(got).ravel()[:3]} explicit={np.asarray(exp).ravel()[:3]}'
        if it == 'qbfs':
            cs = case['cs']
            u = np.asarray(case['u'], dtype=float)
            got = qp.clenshaw_qbfs(cs, u * u)
            exp = sum(c * qp.Qbfs(n, u) for n, c in enumerate(cs))
            return close(got, exp), f'clenshaw_qbfs={np.asarray(got).ravel()[:3]} explicit={np.asarray(exp).ravel()[:3]}'
        if it == 'q2dsag':
            u = np.asarray(case['u'], dtype=float)
            t = np.asarray(case['t'], dtype=float)
            z, _, _ = qp.compute_z_zprime_Q2d(case['cm0'], case['ams'], case['bms'], u, t)
            exp = np.zeros_like(u)
            for n, c in enumerate(case['cm0']):
                exp = exp + c * qp.Q2d(n, 0, u, t)
            for k, a in enumerate(case['ams']):
                for n, c in enumerate(a):
                    exp = exp + c * qp.Q2d(n, k + 1, u, t)
            for k, b in enumerate(case['bms']):
                for n, c in enumerate(b):
                    exp = exp + c * qp.Q2d(n, -(k + 1), u, t)
            return close(z, exp), f'z={np.asarray(z).ravel()[:3]} explicit={np.asarray(exp).ravel()[:3]}'
        if it == 'pack':
            nms = [tuple(p) for p in case['nms']]
            coefs = case['coefs']
            cms, ac, bc = qp.Q2d_nm_c_to_a_b(nms, coefs)
            want = {}
            for (n, m), c in zip(nms, coefs):
                want[(n, m)] = c
            seen = {}
            for n, c in enumerate(cms):
                seen[(n, 0)] = c
            for k, a in enumerate(ac):
                for n, c in enumerate(a):
                    seen[(n, k + 1)] = c
            for k, b in enumerate(bc):
                for n, c in enumerate(b):
                    seen[(n, -(k + 1))] = c
            if len(ac) != len(bc):
                return False, f'len(a)={len(ac)} != len(b)={len(bc)}'
            for key, c in want.items():
                if seen.get(key, 0) != c:
                    return False, f'mode {key}: packed {seen.get(key, 0)} input {c}'
            for key, c in seen.items():
                if key not in want and c != 0:
                    return False, f'mode {key} appears with {c} but is not in the input'
            # consumer: the packed lists evaluate to the explicit sum
            if case.get('u') is not None:
                u = np.asarray(case['u'], dtype=float)
                t = np.asarray(case['t'], dtype=float)
                z, _, _ = qp.compute_z_zprime_Q2d(cms, ac, bc, u, t)
                exp = np.zeros_like(u)
                for (n, m), c in want.items():
                    exp = exp + c * qp.Q2d(n, m, u, t)
                if not close(z, exp):
                    return False, f'sag from packed lists {np.asarray(z).ravel()[:3]} != explicit {exp.ravel()[:3]}'
            return True, ''
        if it == 'tdot':
            modes = np.asarray(case['modes'], dtype=float)
            w = np.asarray(case['w'], dtype=float)
            got = P.sum_of_2d_modes(modes, w)
            exp = sum(wk * mk for wk, mk in zip(w, modes))
            return (got.shape == modes.shape[1:] and close(got, exp)), f'{got.ravel()[:3]} vs {np.asarray(exp).ravel()[:3]}'
        if it == 'lstsq':
            modes, data, c = lstsq_build(case)
            got = P.lstsq(modes, data)
            return close(got, c, 1e-7), f'lstsq={np.asarray(got)[:4]} synthesising={np.asarray(c)[:4]}'
    except Exception as ex:   # the property says the input is in scope: an exception is a violation
        return False, f'raised {type(ex).__name__}: {ex}'
    raise C.ToolError(f'unknown item {it}')



# ------------------------------------------------------------------------------------------------
# history / aliasing: every fast path evaluated twice on the caller's own containers
# ------------------------------------------------------------------------------------------------
CONTAINERS = ['f64', 'f32', 'i64', 'list', 'tuple']
ALIAS_PATHS = ['jsum', 'qbfs', 'zzqbfs', 'zzqcon', 'q2dalphas', 'q2d', 'tdot', 'lstsq', 'pack']


def container(vals, kind):
    if kind == 'f64':
        return np.array(vals, dtype=np.float64)
    if kind == 'f32':
        return np.array(vals, dtype=np.float32)
    if kind == 'i64':
        return np.array([int(v) for v in vals], dtype=np.int64)
    if kind == 'list':
        return list(vals)
    if kind == 'tuple':
        return tuple(vals)
    raise C.ToolError(kind)


def snap(obj):
    """deep snapshot (values, dtypes, container types) of nested lists / tuples / arrays"""
    if isinstance(obj, np.ndarray):
        return ('nd', obj.dtype.str, obj.shape, obj.copy())
    if isinstance(obj, (list, tuple)):
        return (type(obj).__name__, [snap(o) for o in obj])
    return ('sc', obj)


def same(a, b):
    if a[0] != b[0]:
        return False
    if a[0] == 'nd':
        return a[1] == b[1] and a[2] == b[2] and np.array_equal(a[3], b[3], equal_nan=True)
    if a[0] == 'sc':
        return a[1] == b[1] or (a[1] != a[1] and b[1] != b[1])
    return len(a[1]) == len(b[1]) and all(same(x, y) for x, y in zip(a[1], b[1]))


def pred_alias(case):
    """evaluate a fast path twice on the same caller-owned containers: both results must equal the explicit sum formed
    from a pristine copy of the coefficients, and every argument must be left exactly as it was"""
    P, qp, J = _impl()
    path, kind = case['path'], case['container']
    tol = 1e-5 if kind == 'f32' else TOL
    cs = [float(v) for v in case['cs']]                     # pristine python floats
    cs2 = [float(v) for v in case.get('cs2', case['cs'])]
    u = np.array(case.get('u', [0.3, 0.8]), dtype=float)
    t = np.array(case.get('t', [0.4, 2.0]), dtype=float)
    x = np.array(case.get('x', [-0.6, 0.35]), dtype=float)
    usq = u * u
    args = None
    if path == 'jsum':
        a, b = case['alpha'], case['beta']
        exp = sum(c * J.jacobi(n, a, b, x.copy()) for n, c in enumerate(cs))
        args = [container(cs, kind), x]
        call = lambda: J.jacobi_sum_clenshaw(args[0], a, b, args[1])           # noqa: E731
    elif path == 'qbfs':
        exp = sum(c * qp.Qbfs(n, u.copy()) for n, c in enumerate(cs))
        args = [container(cs, kind), usq]
        call = lambda: qp.clenshaw_qbfs(args[0], args[1])                      # noqa: E731
    elif path == 'zzqbfs':
        exp = sum(c * qp.Qbfs(n, u.copy()) for n, c in enumerate(cs))
        args = [container(cs, kind), u, usq]
        call = lambda: qp.compute_z_zprime_Qbfs(args[0], args[1], args[2])[0]  # noqa: E731
    elif path == 'zzqcon':
        exp = sum(c * qp.Qcon(n, u.copy()) for n, c in enumerate(cs))
        args = [container(cs, kind), u, usq]
        call = lambda: qp.compute_z_zprime_Qcon(args[0], args[1], args[2])[0]  # noqa: E731
    elif path == 'q2dalphas':
        m = case['m']
        exp = sum(c * qp.Q2d(n, m, u.copy(), np.zeros_like(u)) for n, c in enumerate(cs)) / u ** m
        args = [container(cs, kind), usq]

        def call():
            al = qp.clenshaw_q2d(args[0], m, args[1])
            return 0.5 * al[0] - (0.4 * al[3] if (m == 1 and len(cs) > 3) else 0.0)
    elif path == 'q2d':
        m = case['m']
        pad = [[] for _ in range(m - 1)]
        exp = sum(c * qp.Q2d(n, 0, u.copy(), t.copy()) for n, c in enumerate(cs)) \
            + sum(c * qp.Q2d(n, m, u.copy(), t.copy()) for n, c in enumerate(cs2)) \
            + sum(c * qp.Q2d(n, -m, u.copy(), t.copy()) for n, c in enumerate(cs))
        args = [container(cs, kind), pad + [container(cs2, kind)], pad + [container(cs, kind)], u, t]
        call = lambda: qp.compute_z_zprime_Q2d(args[0], args[1], args[2], args[3], args[4])[0]   # noqa: E731
    elif path == 'tdot':
        k = len(cs)
        base = np.arange(k * 6, dtype=float).reshape(k, 2, 3) % 5 - 2.0       # integer-valued modes
        exp = sum(c * base[i] for i, c in enumerate(cs))
        mk = case.get('modes_container', 'f64')
        if mk == 'list':
            modes = [base[i].copy() for i in range(k)]
        else:
            modes = relayout(base.astype({'f64': np.float64, 'f32': np.float32, 'i64': np.int64}[mk]), case.get('modes_layout', 'C'))
        args = [modes, container(cs, kind)]
        call = lambda: P.sum_of_2d_modes(args[0], args[1])                    # noqa: E731
    elif path == 'lstsq':
        inner = dict(case['inner'])
        modes, data, c = lstsq_build(inner)
        exp = c
        if kind == 'list':
            modes = [np.array(mo) for mo in modes]
        elif kind == 'f32':
            modes, data = modes.astype(np.float32), data.astype(np.float32)
        args = [modes, data]
        tol = 2e-4 if kind == 'f32' else 1e-7
        call = lambda: P.lstsq(args[0], args[1])                              # noqa: E731
    elif path == 'pack':
        nms = [tuple(p) for p in case['nms']]
        want = {}
        for key, c in zip(nms, cs):
            want[key] = c
        args = [list(nms) if kind in ('list', 'f64', 'f32', 'i64') else tuple(nms), container(cs, kind)]

        def call():
            cms, ac, bc = qp.Q2d_nm_c_to_a_b(args[0], args[1])
            seen = {}
            for n, c in enumerate(cms):
                seen[(n, 0)] = float(c)
            for k_, a_ in enumerate(ac):
                for n, c in enumerate(a_):
                    seen[(n, k_ + 1)] = float(c)
            for k_, b_ in enumerate(bc):
                for n, c in enumerate(b_):
                    seen[(n, -(k_ + 1))] = float(c)
            keys = sorted(set(seen) | set(want))
            return np.array([seen.get(k_, 0.0) for k_ in keys])
        keys = None
        exp = None
    else:
        raise C.ToolError(path)
    before = snap(args)
    r1 = np.array(call(), dtype=float)
    mid = snap(args)
    r2 = np.array(call(), dtype=float)
    after = snap(args)
    if path == 'pack':
        allk = sorted(set(want))
        exp = r1.copy()          # structure compared through the dictionary below
        cms, ac, bc = qp.Q2d_nm_c_to_a_b(list(nms), list(cs))
        ref = {}
        for n, c in enumerate(cms):
            ref[(n, 0)] = float(c)
        for k_, a_ in enumerate(ac):
            for n, c in enumerate(a_):
                ref[(n, k_ + 1)] = float(c)
        for k_, b_ in enumerate(bc):
            for n, c in enumerate(b_):
                ref[(n, -(k_ + 1))] = float(c)
        for key in allk:
            if ref.get(key, 0.0) != want[key]:
                return False, f'mode {key}: packed {ref.get(key, 0.0)} input {want[key]}'
        keys_all = sorted(set(ref) | set(want))
        exp = np.array([want.get(k_, 0.0) for k_ in keys_all])
    if not same(before, mid):
        return False, f'{path}: the first call modified its arguments (container {kind})'
    if not same(mid, after):
        return False, f'{path}: the second call modified its arguments (container {kind})'
    if not close(r1, exp, tol):
        return False, f'{path} on a {kind} container: first evaluation {np.ravel(r1)[:3]} explicit sum {np.ravel(exp)[:3]}'
    if not close(r2, exp, tol):
        return False, f'{path} on a {kind} container: second evaluation {np.ravel(r2)[:3]} explicit sum {np.ravel(exp)[:3]} (first was right)'
    return True, ''


def alias_cases(rng, count):
    out = []
    i = 0
    while len(out) < count:
        path = ALIAS_PATHS[i % len(ALIAS_PATHS)]
        kind = CONTAINERS[(i // len(ALIAS_PATHS)) % len(CONTAINERS)]
        n = int(rng.integers(1, 8))
        cs = [float(int(v)) for v in rng.integers(-4, 5, n)]     # integer-valued, so that every container holds them exactly
        if not any(cs):
            cs[-1] = 1.0
        cs2 = [float(int(v)) for v in rng.integers(-4, 5, int(rng.integers(1, 8)))]
        case = {'item': 'alias', 'path': path, 'container': kind, 'cs': cs, 'cs2': cs2,
                'u': [float(v) for v in rng.uniform(0.1, 0.95, 3)], 't': [float(v) for v in rng.uniform(0, 6, 3)],
                'x': [float(v) for v in rng.uniform(-0.9, 0.9, 3)]}
        a, b = AB[i % len(AB)]
        case.update(alpha=a, beta=b, m=1 + (i // 3) % 4)
        if path == 'tdot':
            case['modes_container'] = ['f64', 'list', 'f32', 'i64'][(i // 7) % 4]
            case['modes_layout'] = LAYOUTS[(i // 5) % len(LAYOUTS)]
        if path == 'lstsq':
            if kind in ('i64', 'tuple'):
                i += 1
                continue
            nn = 5 * 7
            case['inner'] = {'basis': 'legendre', 'orders': [[0, 0], [1, 0], [0, 1], [1, 1]], 'mask': ['ragged', 'dropout', 'none'][i % 3],
                             'shape': [5, 7], 'c': [1.0, -0.5, 0.25, 2.0], 'drop': sorted(int(v) for v in rng.choice(nn, size=6, replace=False)),
                             'poison': False, 'data_layout': LAYOUTS[(i // 2) % len(LAYOUTS)], 'modes_layout': LAYOUTS[(i // 3) % len(LAYOUTS)]}
        if path == 'pack':
            k = len(cs)
            case['nms'] = [[int(rng.integers(0, 5)), int(rng.integers(-3, 4))] for _ in range(k)]
        out.append(case)
        i += 1
    return out



# ------------------------------------------------------------------------------------------------
# container forms of every sequence argument (list / tuple / ndarray / one-shot iterables / views)
# ------------------------------------------------------------------------------------------------
SEQ_FORMS = ['list', 'tuple', 'ndarray', 'gen', 'iter', 'map', 'zip', 'dictvalues', 'dictkeys', 'deque', 'chain', 'reversed', 'range']
SEQ_ONE_SHOT = ('gen', 'iter', 'map', 'zip', 'chain', 'reversed')
# (routine.argument, what the docstring calls the argument): forms beyond list / tuple / ndarray are demanded only for arguments
# documented as "iterable" / "sequence"
SEQ_ARGS = ['jsum.s', 'qbfs.cs', 'q2dalphas.cns', 'cobqbfs.cs', 'cobq2d.cns', 'zzqbfs.coefs', 'zzqcon.coefs', 'zzq2d.cm0', 'zzq2d.ams',
            'zzq2d.bms', 'zzq2d.ams-inner', 'zzq2d.bms-inner', 'zzq2d.all', 'pack.nms', 'pack.coefs', 'pack.both', 'pack.rows',
            'tdot.modes', 'tdot.weights', 'tdot.both', 'lstsq.modes']
SEQ_DOCUMENTED_ARRAY_ONLY = {'tdot.weights': ('list', 'tuple', 'ndarray')}


def _hashable_rows(vals):
    return [tuple(v) if isinstance(v, (list, tuple)) else v for v in vals]


def seq_form_applies(vals, form):
    """can this list of values be presented in this container form at all?"""
    vals = _hashable_rows(vals)
    if form == 'zip':
        return len(vals) > 0 and all(isinstance(v, tuple) and len(v) == 2 for v in vals)
    if form == 'dictkeys':
        try:
            return len(set(vals)) == len(vals)
        except TypeError:
            return False
    if form == 'range':
        return len(vals) > 0 and all(isinstance(v, int) for v in vals) and vals == list(range(vals[0], vals[0] + len(vals)))
    if form == 'ndarray':
        try:
            return np.array(vals).dtype != object
        except ValueError:
            return False
    return True


def as_container(vals, form):
    """the same items, in order, inside another kind of container; one-shot forms can be traversed once only"""
    import collections
    vals = list(vals)
    if form != 'ndarray':
        vals = _hashable_rows(vals)
    if not seq_form_applies(vals, form):
        raise C.ToolError(f'container form {form} does not apply to {vals!r}')
    if form == 'list':
        return list(vals)
    if form == 'tuple':
        return tuple(vals)
    if form == 'ndarray':
        return np.array(vals)
    if form == 'gen':
        return (v for v in vals)
    if form == 'iter':
        return iter(vals)
    if form == 'map':
        return map(lambda v: v, vals)
    if form == 'zip':
        return zip([v[0] for v in vals], [v[1] for v in vals])
    if form == 'dictvalues':
        return dict(enumerate(vals)).values()
    if form == 'dictkeys':
        return {v: None for v in vals}.keys()
    if form == 'deque':
        return collections.deque(vals)
    if form == 'chain':
        return itertools.chain(vals[:1], vals[1:])
    if form == 'reversed':
        return reversed(vals[::-1])
    if form == 'range':
        return range(vals[0], vals[0] + len(vals))
    raise C.ToolError(form)


def nested(r):
    """results as nested lists of complex numbers (tuples / lists / arrays alike)"""
    if isinstance(r, (list, tuple)):
        return [nested(q) for q in r]
    if r is None:
        return None
    return np.asarray(r, dtype=complex).tolist()


def same_nested(a, b, tol=1e-12):
    if isinstance(a, list) or isinstance(b, list):
        return isinstance(a, list) and isinstance(b, list) and len(a) == len(b) and all(same_nested(p, q, tol) for p, q in zip(a, b))
    if a is None or b is None:
        return a is None and b is None
    if not (np.isfinite(a) and np.isfinite(b)):
        return False
    return abs(a - b) <= tol * max(1.0, abs(b))


def seq_modes(case):
    k = case['k']
    base = np.arange(k * 12, dtype=float).reshape(k, 3, 4)
    return [np.cos(0.37 * base[i] + i) + 0.1 * i for i in range(k)]


def seq_call(case, P, qp, J):
    """W -> result of the routine with W applied to the designated sequence argument(s)"""
    rt = case['routine']
    cs, cs2, m, a, b = case['cs'], case['cs2'], case['m'], case['alpha'], case['beta']
    x = np.array(case['pts'], dtype=float)
    u = np.array(case['upts'], dtype=float)
    t = np.array(case['tpts'], dtype=float)
    ams, bms = case['ams'], case['bms']
    nms, coefs = case['nms'], case['coefs']
    if rt == 'jsum.s':
        return lambda W: J.jacobi_sum_clenshaw(W(cs), a, b, x)
    if rt == 'qbfs.cs':
        return lambda W: qp.clenshaw_qbfs(W(cs), u * u)
    if rt == 'q2dalphas.cns':
        return lambda W: qp.clenshaw_q2d(W(cs), m, u * u)
    if rt == 'cobqbfs.cs':
        return lambda W: qp.change_basis_Qbfs_to_Pn(W(cs))
    if rt == 'cobq2d.cns':
        return lambda W: qp.change_of_basis_Q2d_to_Pnm(W(cs), m)
    if rt == 'zzqbfs.coefs':
        return lambda W: qp.compute_z_zprime_Qbfs(W(cs), u, u * u)
    if rt == 'zzqcon.coefs':
        return lambda W: qp.compute_z_zprime_Qcon(W(cs), u, u * u)
    if rt == 'zzq2d.cm0':
        return lambda W: qp.compute_z_zprime_Q2d(W(cs), ams, bms, u, t)
    if rt == 'zzq2d.ams':
        return lambda W: qp.compute_z_zprime_Q2d(cs, W(ams), bms, u, t)
    if rt == 'zzq2d.bms':
        return lambda W: qp.compute_z_zprime_Q2d(cs, ams, W(bms), u, t)
    if rt == 'zzq2d.ams-inner':
        return lambda W: qp.compute_z_zprime_Q2d(cs, [W(q) for q in ams], bms, u, t)
    if rt == 'zzq2d.bms-inner':
        return lambda W: qp.compute_z_zprime_Q2d(cs, ams, [W(q) for q in bms], u, t)
    if rt == 'zzq2d.all':
        return lambda W: qp.compute_z_zprime_Q2d(W(cs), W([W(q) for q in ams]), W([W(q) for q in bms]), u, t)
    if rt == 'pack.nms':
        return lambda W: qp.Q2d_nm_c_to_a_b(W(nms), coefs)
    if rt == 'pack.coefs':
        return lambda W: qp.Q2d_nm_c_to_a_b([tuple(q) for q in nms], W(coefs))
    if rt == 'pack.both':
        return lambda W: qp.Q2d_nm_c_to_a_b(W(nms), W(coefs))
    if rt == 'pack.rows':
        return lambda W: qp.Q2d_nm_c_to_a_b([W(q) for q in nms], coefs)
    w = case['w']
    if rt == 'tdot.modes':
        return lambda W: P.sum_of_2d_modes(W(seq_modes(case)), w)
    if rt == 'tdot.weights':
        return lambda W: P.sum_of_2d_modes(seq_modes(case), W(w))
    if rt == 'tdot.both':
        return lambda W: P.sum_of_2d_modes(W(seq_modes(case)), np.array(w))
    if rt == 'lstsq.modes':
        data = sum(wk * mk for wk, mk in zip(w, seq_modes(case)))
        return lambda W: P.lstsq(W(seq_modes(case)), data)
    raise C.ToolError(rt)


def seq_values(case):
    """the list the form is applied to (decides whether a form applies)"""
    rt = case['routine']
    if rt in ('zzq2d.ams', 'zzq2d.ams-inner'):
        return case['ams'] if rt == 'zzq2d.ams' else case['ams'][0]
    if rt in ('zzq2d.bms', 'zzq2d.bms-inner'):
        return case['bms'] if rt == 'zzq2d.bms' else case['bms'][0]
    if rt in ('pack.nms', 'pack.both'):
        return case['nms']
    if rt == 'pack.coefs':
        return case['coefs']
    if rt == 'pack.rows':
        return case['nms'][0]
    if rt in ('tdot.modes', 'tdot.both', 'lstsq.modes'):
        return [0.5 + i for i in range(case['k'])]        # stands for the k arrays (any form but zip / range / dictkeys of arrays)
    if rt == 'tdot.weights':
        return case['w']
    return case['cs']


def pred_seq(case, call=None):
    """a sequence argument given as a tuple, an array, a generator, an iterator, a zip / map object, a dictionary view, a deque ...
    must give what the same items give as a list (one call per container: one-shot forms cannot be re-read)"""
    P, qp, J = _impl()
    fn = (call or seq_call)(case, P, qp, J)
    form = case['form']
    exp = nested(fn(lambda v: as_container(v, 'list')))

    def W(v):
        if form in ('dictkeys', 'range', 'zip', 'ndarray') and not seq_form_applies(list(v), form):
            return as_container(v, 'gen' if form != 'ndarray' else 'tuple')   # nested use on items the form cannot hold
        return as_container(v, form)
    try:
        got = nested(fn(W))
    except C.ToolError:
        raise
    except Exception as ex:
        return False, (f'{case["routine"]} given as {form} raised {type(ex).__name__}: {ex}; as a list it returns '
                       f'{str(exp)[:120]}')
    if not same_nested(got, exp):
        return False, f'{case["routine"]} given as {form} returns {str(got)[:160]}; the same items as a list give {str(exp)[:160]}'
    return True, ''


def seq_random(rng, i):
    n = int(rng.integers(1, 7))
    cs = [float(int(v)) / 2 + 0.125 * k for k, v in enumerate(rng.integers(-6, 7, n))]       # distinct values
    a, b = AB[i % len(AB)]
    na, nb = int(rng.integers(1, 4)), int(rng.integers(1, 4))
    ln = int(rng.integers(1, 5))
    k = int(rng.integers(5, 10))
    nms, seen = [], set()
    while len(nms) < k:
        q = (int(rng.integers(0, 5)), int(rng.integers(-4, 5)))
        if q not in seen:
            seen.add(q)
            nms.append(list(q))
    if not any(q[1] != 0 for q in nms):
        nms[-1] = [1, 3]
    km = int(rng.integers(2, 5))
    return {'cs': cs, 'cs2': cs[::-1], 'm': 1 + i % 3, 'alpha': a, 'beta': b,
            'ams': [[float(int(v)) / 4 + 0.01 * (r_ * 7 + c_) for c_, v in enumerate(rng.integers(-8, 9, ln))] for r_ in range(na)],
            'bms': [[float(int(v)) / 4 + 0.01 * (r_ * 5 + c_) for c_, v in enumerate(rng.integers(-8, 9, ln))] for r_ in range(nb)],
            'nms': nms, 'coefs': [float(int(v)) / 8 + 0.001 * j for j, v in enumerate(rng.integers(1, 40, k))],
            'k': km, 'w': [float(int(v)) / 4 + 0.03 * j for j, v in enumerate(rng.integers(-8, 9, km))],
            'pts': [float(v) for v in rng.uniform(-0.9, 0.9, 3)], 'upts': [float(v) for v in rng.uniform(0.05, 0.95, 3)],
            'tpts': [float(v) for v in rng.uniform(0, 6, 3)]}


def seq_cases(rng, reps, args=None, values=None, extra=None):
    """every (routine.argument, container form) pair that applies, `reps` random contents each"""
    out = []
    i = 0
    for rt in (args or SEQ_ARGS):
        for form in SEQ_FORMS:
            if form not in SEQ_DOCUMENTED_ARRAY_ONLY.get(rt, SEQ_FORMS):
                continue
            for _ in range(reps):
                case = dict(seq_random(rng, i), item='seqarg', routine=rt, form=form)
                if extra:
                    case.update(extra(rng, i, rt))
                i += 1
                if seq_form_applies((values or seq_values)(case), form):
                    out.append(case)
    return out


# ------------------------------------------------------------------------------------------------
# lstsq on independent but ill-conditioned designs (sub-aperture masks, many modes)
# ------------------------------------------------------------------------------------------------
def cond_design(case):
    """(modes (k, n, n), data with NaN outside the kept sub-aperture, synthesising coefficients, cond of the kept design matrix)"""
    P, qp, J = _impl()
    from prysm.coordinates import make_xy_grid, cart_to_polar
    n, k = case['n'], case['k']
    x, y = make_xy_grid(n, diameter=2)
    r, t = cart_to_polar(x, y)
    nms = [P.fringe_to_nm(j) for j in range(1, k + 1)]
    modes = np.asarray(P.zernike_nm_seq(nms, r, t))
    kind, cx, cy, rad = case['mask']
    if kind == 'disc':
        keep = np.hypot(x - cx, y - cy) <= rad
    elif kind == 'strip':
        keep = (np.abs(x - cx) <= rad) & (r <= 1)
    else:
        keep = (np.hypot(x - cx, y - cy) <= rad) & (np.hypot(x - cx, y - cy) >= 0.5 * rad)
    c = np.asarray(case['c'], dtype=float)
    data = np.tensordot(modes, c, axes=(0, 0))
    data = np.array(data, dtype=float)
    data[~keep] = np.nan
    A = modes.reshape(k, -1)[:, keep.ravel()].T
    sv = np.linalg.svd(A, compute_uv=False)
    cond = float(sv[0] / sv[-1]) if sv[-1] > 0 else float('inf')
    return modes, data, c, cond, int(keep.sum())


COND_RANGE = (1e4, 1e9)


def pred_cond(case):
    """the fit must return the synthesising coefficients to ~ cond * eps: a backward-stable solve of the design matrix meets
    1e3 * cond * eps, a solve of the normal equations (cond^2 * eps) does not"""
    P, qp, J = _impl()
    modes, data, c, cond, kept = cond_design(case)
    if not (COND_RANGE[0] <= cond <= COND_RANGE[1]) or kept < 2 * len(c):
        return None, f'design outside the family (cond {cond:.3g}, {kept} samples)'
    got = np.asarray(P.lstsq(modes, data), dtype=float)
    eps = np.finfo(float).eps
    tol = 1e3 * cond * eps * max(1.0, float(np.max(np.abs(c))))
    err = float(np.max(np.abs(got - c))) if got.shape == c.shape and np.isfinite(got).all() else float('inf')
    return err <= tol, (f'lstsq on a sub-aperture ({kept} samples, {len(c)} Zernike terms, cond {cond:.3g}): max coefficient error {err:.3g}; '
                        f'a stable solve of the design matrix stays below 1e3 * cond * eps = {tol:.3g}')


def cond_cases(rng, thorough=False):
    out = []
    masks = [('disc', 0.3, 0.2, 0.45), ('disc', -0.4, 0.1, 0.35), ('disc', 0.0, 0.5, 0.4), ('strip', 0.5, 0.0, 0.25), ('strip', -0.3, 0.0, 0.3),
             ('ring', 0.2, -0.2, 0.5), ('disc', 0.5, 0.5, 0.3), ('disc', 0.1, -0.1, 0.6)]
    for n in ((48, 64) if not thorough else (48, 64, 96)):
        for k in (15, 21, 28, 36):
            for mk in masks:
                out.append({'item': 'lstsqcond', 'n': n, 'k': k, 'mask': list(mk), 'c': [float(int(v)) / 16 for v in rng.integers(-32, 33, k)]})
    return out


# ------------------------------------------------------------------------------------------------
# argument forms: dtypes of modes / weights / coordinates, signed m, consumers
# ------------------------------------------------------------------------------------------------
MODE_DTYPES = ['f64', 'f32', 'i64', 'bool', 'c128']
WEIGHT_FORMS = ['f64', 'f32', 'i64', 'c128', 'list']
COORD_FORMS = ['i64', 'i32', 'f32', '0d', '2d', '3d', 'f64-strided', 'pyfloat', 'npfloat']
COORD_ROUTINES = ['jsum', 'qbfs', 'q2dalphas', 'q2d', 'zzqbfs', 'zzqcon']


def coord_as(v, form):
    v = np.asarray(v, dtype=float)
    if form == 'i64':
        return v.astype(np.int64)
    if form == 'i32':
        return v.astype(np.int32)
    if form == 'f32':
        return v.astype(np.float32)
    if form == '0d':
        return np.array(v.ravel()[0])
    if form == '2d':
        return np.stack([v, v[::-1]])
    if form == '3d':
        return np.stack([v, v[::-1]]).reshape(2, 1, v.size)
    if form == 'f64-strided':
        big = np.zeros(2 * v.size)
        big[::2] = v
        return big[::2]
    if form == 'pyfloat':
        return float(v.ravel()[0])
    if form == 'npfloat':
        return np.float64(v.ravel()[0])
    raise C.ToolError(form)


def coord_ref(v, form):
    v = np.asarray(v, dtype=float)
    if form in ('0d', 'pyfloat', 'npfloat'):
        return np.array(v.ravel()[0])
    if form == '2d':
        return np.stack([v, v[::-1]])
    if form == '3d':
        return np.stack([v, v[::-1]]).reshape(2, 1, v.size)
    return v.copy()


def pred_forms(case):
    P, qp, J = _impl()
    it = case['item']
    if it == 'tdotx':
        k, md, wf, mism = case['k'], case['modes_dtype'], case['w_form'], case['mismatch']
        base = (np.arange(k * 6).reshape(k, 2, 3) * 7 % 5 - 2)
        if md == 'bool':
            base = (base > 0)
        mvals = base.astype(complex) * ((1 + 0.5j) if md == 'c128' else 1)
        modes = mvals.real.astype({'f64': np.float64, 'f32': np.float32, 'i64': np.int64, 'bool': bool}[md]) if md != 'c128' else mvals
        wv = [complex(a, b) for a, b in case['w']]
        if wf != 'c128':
            wv = [complex(v.real, 0) for v in wv]
        if wf == 'i64':
            wv = [complex(round(v.real * 4), 0) for v in wv]
        w = {'f64': lambda: np.array([v.real for v in wv]), 'f32': lambda: np.array([v.real for v in wv], dtype=np.float32),
             'i64': lambda: np.array([int(v.real) for v in wv]), 'c128': lambda: np.array(wv), 'list': lambda: [v.real for v in wv]}[wf]()
        if mism:
            w = w[:-1] if mism < 0 else (list(w) + [1.0] if isinstance(w, list) else np.concatenate([w, w[:1]]))
            try:
                got = P.sum_of_2d_modes(modes, w)
            except Exception:
                return True, ''          # a length mismatch must be refused, not silently truncated
            return False, f'sum_of_2d_modes accepted {len(modes)} modes with {len(w)} weights and returned an array of shape {np.shape(got)}'
        if wf == 'f32':
            wv = [complex(float(np.float32(v.real)), 0) for v in wv]
        exp = sum(wk * mk for wk, mk in zip(wv, mvals))
        got = np.asarray(P.sum_of_2d_modes(modes, w))
        tol = 1e-5 if 'f32' in (md, wf) else 1e-12
        ok = got.shape == exp.shape and close(got.real, exp.real, tol) and close(np.imag(got), exp.imag, tol)
        return ok, f'sum_of_2d_modes({md} modes, {wf} weights)={np.ravel(got)[:3]} explicit sum={np.ravel(exp)[:3]}'
    if it == 'coords':
        rt, form, cs, m = case['routine'], case['form'], case['cs'], case['m']
        integral = form in ('i64', 'i32')
        if rt == 'jsum':
            v = np.array([-1, 0, 1] if integral else case['pts'], dtype=float)
            fn = lambda x: J.jacobi_sum_clenshaw(cs, case['alpha'], case['beta'], x)                 # noqa: E731
        else:
            v = np.array([0, 1, 1] if integral else case['upts'], dtype=float)
            tv = np.array(case['tpts'], dtype=float)
            if rt == 'qbfs':
                fn = lambda u: qp.clenshaw_qbfs(cs, u * u)                                            # noqa: E731
            elif rt == 'q2dalphas':
                fn = lambda u: qp.clenshaw_q2d(cs, m, u * u)                                          # noqa: E731
            elif rt == 'zzqbfs':
                fn = lambda u: qp.compute_z_zprime_Qbfs(cs, u, u * u)[0]                              # noqa: E731
            elif rt == 'zzqcon':
                fn = lambda u: qp.compute_z_zprime_Qcon(cs, u, u * u)[0]                              # noqa: E731
            elif rt == 'q2d':
                pad = [[] for _ in range(m - 1)]
                tt = np.round(tv) if integral else tv
                fn = lambda u: qp.compute_z_zprime_Q2d(None if case.get('cm0_none') else cs, pad + [case['cs2']], pad + [cs], u,   # noqa: E731
                                                       coord_as(tt, form) if not hasattr(u, 'dtype') or u.dtype != np.float64 or form in ('2d', '3d', '0d', 'f64-strided') else coord_ref(tt, form))[0]
            else:
                raise C.ToolError(rt)
        exp = np.array(fn(coord_ref(v, form)), dtype=float)
        got = np.array(fn(coord_as(v, form)), dtype=float)
        tol = 1e-4 if form == 'f32' else TOL
        if got.shape != exp.shape:
            return False, f'{rt} on {form} coordinates: shape {got.shape}, on the float64 array {exp.shape}'
        return close(got, exp, tol), (f'{rt} on {form} coordinates: {np.ravel(got)[:4]}; on the float64 array with the same values: '
                                      f'{np.ravel(exp)[:4]}')
    if it == 'signedm':
        cs, m = case['cs'], case['m']
        u = np.array(case['u'], dtype=float)
        exp = sum(c * qp.Q2d(n, m, u.copy(), np.zeros_like(u)) for n, c in enumerate(cs)) / u ** m
        al = qp.clenshaw_q2d(cs, -m, u * u)
        got = 0.5 * al[0] - (0.4 * al[3] if (m == 1 and len(cs) > 3) else 0.0)
        return close(got, exp), f'clenshaw_q2d(m=-{m}) read-out {np.ravel(got)[:3]}; sum c_n Q_n^{m} (the radial part is the same for +-m) {np.ravel(exp)[:3]}'
    if it == 'pvr':
        from prysm.interferogram import Interferogram
        n = case['n']
        ifg = Interferogram(np.zeros((n, n)), 1.0, 0.6328)
        r, t = ifg.r, ifg.t
        rn = r / r[n - 1, n // 2]
        nms = [P.fringe_to_nm(j) for j in case['terms']]
        modes = P.zernike_nm_seq(nms, rn, t, norm=False)
        data = P.sum_of_2d_modes(modes, np.array(case['c']))
        ifg = Interferogram(data.copy(), 1.0, 0.6328)
        inside = data[rn <= 1]
        exp = float(inside.max() - inside.min())
        got = float(ifg.pvr())
        return abs(got - exp) <= 1e-8 * max(1.0, abs(exp)), f'Interferogram.pvr of a surface inside the span of the 36 fitted terms = {got}; its PV over the aperture = {exp}'
    if it == 'fitplane':
        from prysm.interferogram import fit_plane
        from prysm.coordinates import make_xy_grid
        x, y = make_xy_grid(tuple(case['shape']), diameter=2)
        a, b = case['c']
        z = a * x + b * y
        z = np.array(z)
        for i in case['drop']:
            z.ravel()[i] = np.nan
        got = fit_plane(x, y, relayout(z, case['layout']))
        return close(got, a * x + b * y, 1e-9), f'fit_plane does not return the plane {a} x + {b} y'
    raise C.ToolError(it)


def form_cases(rng, count):
    out = []
    i = 0
    while len(out) < count:
        sel = i % 10
        n = int(rng.integers(1, 7))
        cs = [float(int(v)) / 2 for v in rng.integers(-6, 7, n)]
        if not any(cs):
            cs[-1] = 1.0
        a, b = AB[i % len(AB)]
        if sel < 3:
            k = int(rng.integers(1, 5))
            out.append({'item': 'tdotx', 'k': k, 'modes_dtype': MODE_DTYPES[(i // 10) % len(MODE_DTYPES)], 'w_form': WEIGHT_FORMS[(i // 50) % len(WEIGHT_FORMS)],
                        'w': [[float(int(v) / 4), float(int(q) / 4)] for v, q in zip(rng.integers(-8, 9, k), rng.integers(-8, 9, k))],
                        'mismatch': [0, 0, 0, -1, 1][(i // 3) % 5] if k > 1 else 0})
        elif sel < 8:
            rt = COORD_ROUTINES[(i // 10) % len(COORD_ROUTINES)]
            out.append({'item': 'coords', 'routine': rt, 'form': COORD_FORMS[(i // 3) % len(COORD_FORMS)], 'cs': cs,
                        'cs2': [float(int(v)) / 2 for v in rng.integers(-6, 7, int(rng.integers(1, 6)))], 'alpha': a, 'beta': b,
                        'm': 1 + (i // 7) % 3, 'cm0_none': bool(i % 4 == 0), 'pts': [float(v) for v in rng.uniform(-0.9, 0.9, 3)],
                        'upts': [float(v) for v in rng.uniform(0.05, 0.95, 3)], 'tpts': [float(v) for v in rng.uniform(0, 6, 3)]})
        elif sel == 8:
            out.append({'item': 'signedm', 'cs': cs, 'm': 1 + (i // 10) % 4, 'u': [float(v) for v in rng.uniform(0.1, 0.95, 2)]})
        else:
            nn = 6 * 7
            out.append({'item': 'fitplane', 'shape': [6, 7], 'c': [float(int(v)) / 4 for v in rng.integers(-8, 9, 2)],
                        'drop': sorted(int(v) for v in rng.choice(nn, size=5, replace=False)), 'layout': LAYOUTS[(i // 10) % len(LAYOUTS)]})
        i += 1
    return out


def lstsq_build(case):
    """modes (k, m, n), data with NaNs, coefficients — deterministic from the case description"""
    P, qp, J = _impl()
    from prysm.coordinates import make_xy_grid, cart_to_polar
    shape = tuple(case['shape'])
    x, y = make_xy_grid(shape, diameter=2)
    r, t = cart_to_polar(x, y)
    basis = case['basis']
    if basis == 'zernike':
        nms = [tuple(p) for p in case['orders']]
        modes = np.asarray(P.zernike_nm_seq(nms, r, t))
    elif basis == 'legendre':
        modes = np.asarray([P.legendre(a, x) * P.legendre(b, y) for a, b in case['orders']])
    elif basis == 'xy':
        modes = np.asarray([P.xy(a, b, x, y) for a, b in case['orders']])
    else:
        raise C.ToolError(basis)
    c = np.asarray(case['c'], dtype=float)
    data = np.tensordot(modes, c, axes=(0, 0))
    data = np.array(data, dtype=float)
    mk = case['mask']
    if mk == 'circle':
        data[r > 1] = np.nan
    elif mk == 'ragged':
        data[(x + 0.3 * y) > 0.55] = np.nan
        data[0, ::2] = np.nan
    elif mk == 'dropout':
        idx = np.asarray(case['drop'], dtype=int)
        data.ravel()[idx] = np.nan
    elif mk == 'inf':
        idx = np.asarray(case['drop'], dtype=int)
        data.ravel()[idx[::2]] = np.inf
        data.ravel()[idx[1::2]] = -np.inf
    # values of the modes at masked samples must not matter: poison them
    if case.get('poison'):
        bad = ~np.isfinite(data)
        modes = modes.copy()
        modes[:, bad] = 1e6
    # memory layout of the arrays handed to lstsq: the fit must depend on the logical (row, column) positions only
    data = relayout(data, case.get('data_layout', 'C'))
    modes = relayout(modes, case.get('modes_layout', 'C'))
    if case.get('flat'):      # 1-D data and (k, npts) modes: the same fit, without the 2-D structure
        data = np.array(data).ravel()
        modes = np.array(modes).reshape(modes.shape[0], -1)
        if case['flat'] == 'list':
            modes = [row for row in modes]
    return modes, data, c


LAYOUTS = ['C', 'F', 'T', 'strided', 'reversed']


def relayout(a, kind):
    """same logical array, different memory layout: C order, Fortran order, transposed view, strided view, negative strides"""
    a = np.asarray(a)
    if kind == 'C' or a.ndim < 2:
        return np.ascontiguousarray(a)
    if kind == 'F':
        return np.asfortranarray(a)
    if kind == 'T':
        return np.ascontiguousarray(a.swapaxes(-1, -2)).swapaxes(-1, -2)
    if kind == 'strided':
        big = np.full(a.shape[:-1] + (2 * a.shape[-1],), 7.0, dtype=a.dtype)
        big[..., ::2] = a
        return big[..., ::2]
    if kind == 'reversed':
        return np.ascontiguousarray(a[..., ::-1, ::-1])[..., ::-1, ::-1]
    raise C.ToolError(kind)


# ------------------------------------------------------------------------------------------------
# correspondence
# ------------------------------------------------------------------------------------------------
AB = [(0.0, 0.0), (-0.5, -0.5), (0.5, 0.5), (-0.5, 0.5), (0.5, -0.5), (1.0, 2.3), (2.3, -0.9), (0.0, 4.0), (-0.9, -0.1),
      (0.25, -0.25), (1.5, 0.0)]
AB_Q = [(Fraction(1, 2), Fraction(3, 2)), (Fraction(1), Fraction(2)), (Fraction(-1, 3), Fraction(5, 2)),
        (Fraction(0), Fraction(4)), (Fraction(7, 3), Fraction(-2, 5))]


def points(rng, kind, lo=-1.0, hi=1.0):
    if kind == 'scalar':
        return np.asarray(float(rng.uniform(lo, hi)))
    if kind == '1d':
        return rng.uniform(lo, hi, 4)
    return rng.uniform(lo, hi, (2, 3))


def q2d_content(rng, kind, mmax, nmax):
    """(cm0, ams, bms) of the requested azimuthal kind"""
    def vec(n):
        return [float(v) for v in rng.uniform(-1, 1, n)]
    M = int(rng.integers(1, mmax + 1))
    cm0 = vec(int(rng.integers(1, nmax + 1))) if rng.uniform() < 0.6 else []
    ams, bms = [], []
    for m in range(1, M + 1):
        na, nb = int(rng.integers(1, nmax + 1)), int(rng.integers(1, nmax + 1))
        if kind == 'cos':
            ams.append(vec(na) if rng.uniform() < 0.8 else [])
            bms.append([])
        elif kind == 'sin':
            ams.append([])
            bms.append(vec(nb) if rng.uniform() < 0.8 else [])
        elif kind == 'mixed':
            ams.append(vec(na))
            bms.append(vec(nb))
        elif kind == 'holes':
            r = rng.uniform()
            ams.append(vec(na) if r < 0.5 else [])
            bms.append(vec(nb) if r >= 0.35 else [])
        elif kind == 'equal':
            ams.append(vec(na))
            bms.append(vec(na))
    if kind == 'ragged':     # unequal number of azimuthal orders in the two outer lists
        Ma, Mb = int(rng.integers(0, mmax + 1)), int(rng.integers(0, mmax + 1))
        if Ma == Mb:
            Mb = (Mb + 1) % (mmax + 1)
        ams = [vec(int(rng.integers(1, nmax + 1))) for _ in range(Ma)]
        bms = [vec(int(rng.integers(1, nmax + 1))) for _ in range(Mb)]
    if kind == 'm1long':     # exercises the -2/5 alpha_3 correction on one side only
        ams = [vec(int(rng.integers(4, nmax + 4)))]
        bms = [vec(int(rng.integers(1, 4)))]
        if rng.uniform() < 0.5:
            ams, bms = bms, ams
    return cm0, ams, bms


def q2d_line(qp, op, mode, w, u, t, cm0, ams, bms):
    f, g, h = qbfs_fgh(qp, len(cm0))
    nb = max(len(ams), len(bms))
    toks = [mode, op, w(u), wl(cm0, w), wl(f, w), wl(g, w), wl(h, w), str(nb)]
    for m in range(1, nb + 1):
        a = ams[m - 1] if m <= len(ams) else []
        b = bms[m - 1] if m <= len(bms) else []
        fq, gq = q2d_fg(qp, m, max(len(a), len(b)))
        toks += [w(float(np.cos(m * t))), w(float(np.sin(m * t))), wl(a, w), wl(b, w), wl(fq, w), wl(gq, w)]
    toks += [str(len(ams)), str(len(bms))]
    return ' '.join(toks)


def fw(x):
    """a python float as an exact rational token"""
    return C.q2w(Fraction(float(x)))



def corpus_cases():
    import glob
    import json
    import os
    return [json.load(open(path)) for path in sorted(glob.glob(os.path.join(C.VERIF, 'corpus', 'C10', '*.json')))]


def correspondence(ctx):
    P, qp, J = _impl()
    rng = ctx.rng
    for case in corpus_cases():     # minimised inputs that failed on the pinned tree: always run first
        ctx.case(case['item'], case, nontrivial=True, tag='corpus')
        ok_, detail_ = pred(case)
        if not ok_:
            ctx.pred_fail(case['item'], case, detail_)
    nmax = ctx.scale(12, 16)
    if ctx.widen:
        nmax = max(nmax, 16)
    lines, todo = [], []

    def add(line, fn):
        lines.append(line)
        todo.append(fn)

    # ------------------------------------------------ jacobi_sum_clenshaw (float)
    kinds = ['scalar', '1d', '2d']
    for rep_ in range(ctx.scale(5, 30)):
        for ci, (n, kind, pos) in enumerate(coef_cases(ctx, nmax)):
            s = coef_vector(rng, n, kind, pos)
            a, b = AB[(ci + rep_) % len(AB)]
            x = points(rng, kinds[ci % 3])
            case = {'item': 'jsum', 's': s, 'alpha': a, 'beta': b, 'x': x.tolist()}
            ctx.case('jsum', case, nontrivial=any(s), tag=f'{kind}/len{min(n, 3) if n < 3 else "3+"}/{kinds[ci % 3]}')
            ok, detail = pred(case)
            if not ok:
                ctx.pred_fail('jsum', case, detail)
            try:
                got = np.asarray(J.jacobi_sum_clenshaw(s, a, b, x), dtype=float).ravel()
            except Exception as ex:
                got = f'raised {type(ex).__name__}: {ex}'
            for k, xv in enumerate(np.asarray(x, dtype=float).ravel()):
                def chk(rep, case=case, got=got, k=k):
                    mv, me = (C.w2f(v) for v in rep.split())
                    if isinstance(got, str):
                        ctx.disagree('jsum', case, got, mv)
                    elif not close(got[k], mv):
                        ctx.disagree('jsum', case, float(got[k]), mv)
                    if not close(mv, me):
                        ctx.disagree('jsum', case, 'model clenshaw', f'{mv} != model explicit {me}', 'model self-check')
                add(f'f jsum {C.f2w(a)} {C.f2w(b)} {C.f2w(xv)} {wl(s)}', chk)

    # ------------------------------------------------ jacobi_sum_clenshaw (exact, Fraction object arrays)
    # recurrence_abc is lru_cached and Fraction(4) hashes/compares equal to 4.0: clear the cache around the exact block
    # so that neither run sees coefficients computed in the other arithmetic
    _cc = getattr(getattr(J, 'recurrence_abc', None), 'cache_clear', None)
    if _cc is not None:
        _cc()
    for ci, (n, kind, pos) in enumerate(coef_cases(ctx, ctx.scale(8, 12))):
        s = [Fraction(int(round(v * 12)), 12) for v in coef_vector(rng, n, kind, pos)]
        if not any(s):
            s[pos % n] = Fraction(1)
        a, b = AB_Q[ci % len(AB_Q)]
        xs = [Fraction(int(rng.integers(-9, 10)), 10) for _ in range(3)]
        case = {'item': 'jsum-exact', 's': [str(v) for v in s], 'alpha': str(a), 'beta': str(b), 'x': [str(v) for v in xs]}
        ctx.case('jsum-exact', case, nontrivial=True, tag=kind)
        try:
            got = J.jacobi_sum_clenshaw(s, a, b, np.array(xs, dtype=object))
            if not all(isinstance(v, (Fraction, int)) for v in got):
                raise TypeError('the result left exact arithmetic (a float dtype is forced somewhere on the path)')
            got = [Fraction(v) for v in got]
        except Exception as ex:     # prysm does not (any longer) run on Fraction object arrays: the exact stream is not applicable
            got = None
            ctx.filtered_known['exact-stream-not-applicable'] += 1
            if len(ctx.notes) < 5:
                ctx.notes.append(f'jsum-exact not applicable: {type(ex).__name__}: {ex}')
        for k, xv in enumerate(xs):
            def chk(rep, case=case, got=got, k=k):
                mv, me = (Fraction(v) for v in rep.split())
                if got is not None and got[k] != mv:
                    ctx.disagree('jsum-exact', case, str(got[k]), str(mv))
                if mv != me:
                    ctx.disagree('jsum-exact', case, 'model clenshaw', f'{mv} != explicit {me}', 'model self-check')
            add(f'q jsum {C.q2w(a)} {C.q2w(b)} {C.q2w(xv)} {wl(s, C.q2w)}', chk)

    _cc = getattr(getattr(J, 'recurrence_abc', None), 'cache_clear', None)
    if _cc is not None:
        _cc()

    # ------------------------------------------------ clenshaw_qbfs
    for rep_ in range(ctx.scale(5, 24)):
        for ci, (n, kind, pos) in enumerate(coef_cases(ctx, nmax)):
            cs = coef_vector(rng, n, kind, pos)
            u = points(rng, kinds[ci % 3], 0.05, 0.98)
            case = {'item': 'qbfs', 'cs': cs, 'u': u.tolist()}
            ctx.case('qbfs', case, nontrivial=any(cs), tag=f'{kind}/{"len1" if n == 1 else "len2" if n == 2 else "len3+"}')
            ok, detail = pred(case)
            if not ok:
                ctx.pred_fail('qbfs', case, detail)
            try:
                got = np.asarray(qp.clenshaw_qbfs(cs, u * u), dtype=float).ravel()
            except Exception as ex:
                got = f'raised {type(ex).__name__}: {ex}'
            f, g, h = qbfs_fgh(qp, n)
            for k, uv in enumerate(np.asarray(u, dtype=float).ravel()):
                exact = (k == 0 and ci % 4 == 0)
                w = fw if exact else C.f2w

                def chk(rep, case=case, got=got, k=k, exact=exact):
                    mv, me = ((rat_to_float(v) if exact else C.w2f(v)) for v in rep.split())
                    if isinstance(got, str):
                        ctx.disagree('qbfs', case, got, mv)
                    elif not close(got[k], mv):
                        ctx.disagree('qbfs', case, float(got[k]), mv)
                    if not close(mv, me):
                        ctx.disagree('qbfs', case, 'model clenshaw', f'{mv} != model explicit {me}', 'model self-check')
                add(f'{"q" if exact else "f"} qbfs {w(float(uv) * float(uv))} {wl(cs, w)} {wl(f, w)} {wl(g, w)} {wl(h, w)}', chk)

    # ------------------------------------------------ clenshaw_q2d (alphas + radial read-out), all m
    for ci, (n, kind, pos) in enumerate(coef_cases(ctx, ctx.scale(9, 13))):
        for m in ((1, 2, 3, 4, 6) if ctx.thorough else (1, 1 + (ci % 5))):
            cs = coef_vector(rng, n, kind, pos)
            u = float(rng.uniform(0.1, 0.95))
            case = {'item': 'q2d', 'cs': cs, 'm': m, 'u': u}
            ctx.case('q2d', case, nontrivial=any(cs), tag=f'm{min(m, 4)}/{kind}/{"len<=3" if n <= 3 else "len>3"}')
            try:
                al = np.asarray(qp.clenshaw_q2d(cs, m, np.asarray(u * u)), dtype=float).ravel()
                expl = sum(c * float(qp.Q2d(k, m, np.asarray(u), np.asarray(0.0))) for k, c in enumerate(cs)) / u ** m
            except Exception as ex:
                al = f'raised {type(ex).__name__}: {ex}'
                expl = None
            fq, gq = q2d_fg(qp, m, n)

            def chk(rep, case=case, al=al, expl=expl, m=m, n=n):
                vals = [C.w2f(v) for v in rep.split()]
                read, me, mal = vals[0], vals[1], vals[2:]
                if isinstance(al, str):
                    ctx.disagree('q2d', case, al, mal)
                    return
                if not close(al, mal):
                    ctx.disagree('q2d', case, al.tolist(), mal)
                if not close(read, me):
                    ctx.disagree('q2d', case, 'model clenshaw', f'{read} != model explicit {me}', 'model self-check')
                iread = 0.5 * al[0] - (0.4 * al[3] if (m == 1 and n > 3) else 0.0)
                if not close(iread, expl):
                    ctx.pred_fail('q2d', case, f'0.5*alphas[0] - [m=1,N>2] 0.4*alphas[3] = {iread}; sum c_n Q_n^m = {expl}')
            add(f'f q2d {m} {C.f2w(u * u)} {wl(cs)} {wl(fq)} {wl(gq)}', chk)

    # ------------------------------------------------ compute_z_zprime_Q2d : total sag
    qkinds = ['cos', 'sin', 'mixed', 'holes', 'ragged', 'm1long', 'equal']
    # SYSTEMATIC single-term content first: one-hot radial vectors at every position of every length 1..7 (thorough ..9), cosine-only
    # and sine-only separately, every azimuthal order 1..6 - every (side, m, length, position) guard of the accumulation is exercised
    # whatever the seed (seeded C07-r5m2: the m = 1 correction of the sine side guarded by N > 3)
    onehot = []
    for m in range(1, 7):
        for n in range(1, ctx.scale(8, 10)):
            for pos in range(n):
                v = [1.0 if i == pos else 0.0 for i in range(n)]
                pad = [[] for _ in range(m - 1)]
                onehot.append(('onehot-cos', [], pad + [v], pad + [[]]))
                onehot.append(('onehot-sin', [], pad + [[]], pad + [v]))
    for ci in range(len(onehot) + ctx.scale(1000, 12000)):
        if ci < len(onehot):
            kind, cm0, ams, bms = onehot[ci]
            u, t = (0.3, 0.4) if ci % 2 else (0.8, 2.0)
        else:
            kind = qkinds[ci % len(qkinds)]
            cm0, ams, bms = q2d_content(rng, kind, ctx.scale(4, 5), ctx.scale(6, 8))
            u, t = float(rng.uniform(0.1, 0.95)), float(rng.uniform(0, 6.2))
        case = {'item': 'q2dsag', 'cm0': cm0, 'ams': ams, 'bms': bms, 'u': [u], 't': [t]}
        nz = bool(cm0) or any(len(a) for a in ams) or any(len(b) for b in bms)
        ctx.case('q2dsag', case, nontrivial=nz, tag=kind + ('/m0' if cm0 else '/no-m0'))
        ok, detail = pred(case)
        if not ok:
            ctx.pred_fail('q2dsag', case, detail)
        try:
            z = float(qp.compute_z_zprime_Q2d(cm0, ams, bms, np.asarray([u]), np.asarray([t]))[0][0])
        except Exception as ex:
            z = f'raised {type(ex).__name__}: {ex}'

        def chk(rep, case=case, z=z):
            mv, me = (C.w2f(v) for v in rep.split())
            if isinstance(z, str):
                ctx.disagree('q2dsag', case, z, mv)
            elif not close(z, mv):
                ctx.disagree('q2dsag', case, z, mv)
            if not close(mv, me):
                ctx.disagree('q2dsag', case, 'model accumulation', f'{mv} != model explicit {me}', 'model self-check')
        add(q2d_line(qp, 'q2dsag', 'f', C.f2w, u, t, cm0, ams, bms), chk)

    # ------------------------------------------------ Q2d_nm_c_to_a_b
    pkinds = ['all', 'no-m0', 'cos-only', 'sin-only', 'm0-only', 'repeat', 'empty', 'single']
    for ci in range(ctx.scale(1200, 15000)):
        kind = pkinds[ci % len(pkinds)]
        k = int(rng.integers(1, 9))
        nms = []
        for _ in range(k):
            n = int(rng.integers(0, 6)) if ci % 3 else int(rng.integers(0, 11))
            m = int(rng.integers(-4, 5)) if ci % 3 else int(rng.integers(-8, 9))
            if kind == 'no-m0' and m == 0:
                m = 1
            if kind == 'cos-only':
                m = abs(m)
            if kind == 'sin-only':
                m = -abs(m) if m else -1
            if kind == 'm0-only':
                m = 0
            nms.append((n, m))
        if kind == 'repeat':
            nms = nms + nms[:2]
        if kind == 'empty':
            nms = []
        if kind == 'single':
            nms = nms[:1]
        coefs = [float(int(rng.integers(1, 40))) / 8 if rng.uniform() < 0.85 else 0.0 for _ in nms]     # explicit zeros too
        if ci % 4 == 2:
            nms = [list(p) for p in nms]                # rows given as lists instead of tuples
        u, t = float(rng.uniform(0.1, 0.9)), float(rng.uniform(0, 6))
        case = {'item': 'pack', 'nms': [list(p) for p in nms], 'coefs': coefs, 'u': [u], 't': [t]}
        nms_t = [tuple(p) for p in nms]
        ctx.case('pack', case, nontrivial=bool(nms), tag=kind)
        ok, detail = pred(case)
        if not ok:
            ctx.pred_fail('pack', case, detail)
        try:
            got = qp.Q2d_nm_c_to_a_b(nms, coefs)
            got = ([float(v) for v in got[0]], [[float(v) for v in a] for a in got[1]], [[float(v) for v in b] for b in got[2]])
        except Exception as ex:
            got = f'raised {type(ex).__name__}: {ex}'

        def chk(rep, case=case, got=got):
            def lst(tok):
                tk = tok.split()
                return [C.w2f(v) for v in tk[1:]] if tk else []
            parts = rep.split('|')
            cms = lst(parts[0])
            M = int(parts[1])
            a = [lst(x) for x in parts[2].split(';')] if M else []
            b = [lst(x) for x in parts[3].split(';')] if M else []
            model = (cms, a, b)
            if isinstance(got, str):
                ctx.disagree('pack', case, got, model)
                return

            def strip(l):          # trailing zeros / an absent family given as zeros are equivalent for the consumer
                l = list(l)
                while l and l[-1] == 0:
                    l.pop()
                return l

            def canon(t):
                c0, aa, bb = t
                aa, bb = [strip(v) for v in aa], [strip(v) for v in bb]
                while aa and bb and not aa[-1] and not bb[-1]:
                    aa.pop()
                    bb.pop()
                return strip(c0), aa, bb
            if len(got[1]) != len(got[2]) or canon(got) != canon(model):
                ctx.disagree('pack', case, got, model)
        add('f pack ' + str(len(nms)) + ''.join(f' {n} {m} {C.f2w(c)}' for (n, m), c in zip(nms_t, coefs)), chk)

    # ------------------------------------------------ sum_of_2d_modes
    for ci in range(ctx.scale(300, 3000)):
        k = int(rng.integers(1, 7))
        shp = [(3, 4), (1, 5), (4, 1), (2, 2), (5,), (2, 3, 2)][ci % 6]
        modes = rng.uniform(-1, 1, (k, *shp))
        w = rng.uniform(-1, 1, k)
        lay = LAYOUTS[ci % len(LAYOUTS)]
        if ci % 7 == 0:
            w[int(rng.integers(k))] = 0.0
        case = {'item': 'tdot', 'modes': modes.tolist(), 'w': w.tolist()}
        ctx.case('tdot', case, nontrivial=True, tag=f'k{min(k, 3)}/{len(shp)}d')
        ok, detail = pred(case)
        if not ok:
            ctx.pred_fail('tdot', case, detail)
        try:
            got = np.asarray(P.sum_of_2d_modes(relayout(modes, lay), relayout(np.stack([w, w]), 'F')[0]), dtype=float).ravel()
        except Exception as ex:
            got = f'raised {type(ex).__name__}: {ex}'
        size = int(np.prod(shp))

        def chk(rep, case=case, got=got):
            a, b = rep.split('|')
            mv = [C.w2f(v) for v in a.split()]
            ml = [C.w2f(v) for v in b.split()]
            if isinstance(got, str) or not close(got, mv, 1e-12):
                ctx.disagree('tdot', case, got if isinstance(got, str) else got.tolist(), mv)
            if not close(mv, ml, 1e-12):
                ctx.disagree('tdot', case, 'model tensordot', 'differs from model loop', 'model self-check')
        add(f'f tdot {k} {size} ' + ' '.join(C.f2w(v) for v in w) + ' ' + ' '.join(C.f2w(v) for v in modes.reshape(k, -1).ravel()), chk)

    # ------------------------------------------------ history / aliasing: twice on the caller's own containers
    for case in alias_cases(rng, ctx.scale(270, 2700)):
        ctx.case('alias', case, nontrivial=True, tag=f'{case["path"]}/{case["container"]}')
        ok, detail = pred(case)
        if not ok:
            ctx.pred_fail('alias', case, detail)

    # ------------------------------------------------ dtypes of modes / weights / coordinates, signed m, consumers of lstsq
    for case in form_cases(rng, ctx.scale(400, 4000)):
        ctx.case(case['item'], case, nontrivial=True, tag='/'.join(str(case.get(k)) for k in ('routine', 'form', 'modes_dtype', 'w_form') if case.get(k)))
        ok, detail = pred(case)
        if not ok:
            ctx.pred_fail(case['item'], case, detail)
    # ------------------------------------------------ fit inverts synthesis on ill-conditioned (sub-aperture) designs
    for case in cond_cases(rng, ctx.thorough):
        ok, detail = pred_cond(case)
        if ok is None:
            ctx.filtered_known['lstsqcond-design-outside-condition-range'] += 1
            continue
        ctx.case('lstsqcond', case, nontrivial=True, tag=f'k{case["k"]}/{case["mask"][0]}')
        if not ok:
            ctx.pred_fail('lstsqcond', case, detail)
    # ------------------------------------------------ every sequence argument in every container form
    for case in seq_cases(rng, ctx.scale(2, 12)):
        ctx.case('seqarg', case, nontrivial=True, tag=f'{case["routine"]}/{case["form"]}')
        ok, detail = pred(case)
        if not ok:
            ctx.pred_fail('seqarg', case, detail)
    for n_ in ((33, 48) if not ctx.thorough else (33, 48, 65, 96)):
        for ti in range(ctx.scale(2, 5)):
            terms = sorted(int(v) for v in rng.choice(np.arange(1, 37), size=6, replace=False))
            case = {'item': 'pvr', 'n': n_, 'terms': terms, 'c': [float(int(v)) / 8 for v in rng.integers(-8, 9, 6)]}
            ctx.case('pvr', case, nontrivial=True, tag=f'n{n_}')
            ok, detail = pred(case)
            if not ok:
                ctx.pred_fail('pvr', case, detail)

    # ------------------------------------------------ lstsq
    for ci, case in enumerate(lstsq_cases(ctx)):
        try:
            modes, data, c = lstsq_build(case)
        except Exception as ex:
            raise C.ToolError(f'lstsq case construction failed: {ex}')
        keep = np.isfinite(data).ravel()
        ctx.case('lstsq', case, nontrivial=True,
                 tag=f'{case["basis"]}/{case["mask"]}/{case.get("data_layout", "C")}-{case.get("modes_layout", "C")}')
        try:
            got = np.asarray(P.lstsq(modes, data), dtype=float)
        except Exception as ex:
            got = f'raised {type(ex).__name__}: {ex}'
        K_, size = len(modes), data.size
        dd = np.where(keep, data.ravel(), 0.0)
        mm = np.where(keep[None, :], np.asarray(modes).reshape(K_, -1), 0.0)

        def chk(rep, case=case, got=got, c=c):
            if rep == 'rankdef':
                ctx.filtered_known['lstsq-rank-deficient-case-skipped'] += 1   # generator produced a singular case: not in scope
                return
            body, _, flag = rep.partition('|')
            if flag.strip() != 'normal-equations-hold':
                raise C.ToolError(f'the exact oracle returned a vector that does not satisfy the normal equations: {flag.strip()}')
            mv = [rat_to_float(v) for v in body.split()]
            if isinstance(got, str) or not close(got, mv, 1e-7):
                ctx.disagree('lstsq', case, got if isinstance(got, str) else got.tolist(), mv)
                ctx.pred_fail('lstsq', case, f'lstsq returned {got if isinstance(got, str) else got[:4]}; exact least squares {mv[:4]}')
            elif not close(got, c, 1e-7):
                ctx.pred_fail('lstsq', case, f'lstsq={got[:4]} synthesising coefficients={c[:4]}')
        add(f'q lstsq {K_} {size} ' + ' '.join('1' if b else '0' for b in keep) + ' ' + ' '.join(fw(v) for v in dd) + ' '
            + ' '.join(fw(v) for v in mm.ravel()), chk)

    replies = C.lean_driver('C10', lines)
    for rep, fn in zip(replies, todo):
        if rep == 'bad-op':
            raise C.ToolError('driver C10 rejected a request')
        fn(rep)


def lstsq_cases(ctx):
    rng = ctx.rng
    out = []
    bases = [
        ('zernike', [(0, 0), (1, 1), (1, -1), (2, 0), (2, 2), (2, -2), (3, 1), (3, -1)]),
        ('zernike', [(2, 0), (4, 0), (3, 3), (5, -1)]),
        ('legendre', [(0, 0), (1, 0), (0, 1), (1, 1), (2, 0), (0, 2)]),
        ('xy', [(0, 0), (1, 0), (0, 1), (2, 0), (1, 1), (0, 2), (3, 0)]),
    ]
    masks = ['none', 'circle', 'ragged', 'dropout', 'inf']
    shapes = [(7, 7), (8, 9), (9, 6)] if not ctx.thorough else [(7, 7), (8, 9), (9, 6), (10, 10), (6, 11)]
    for (basis, orders), mask, shape in itertools.product(bases, masks, shapes):
        if len(out) >= ctx.scale(40, 100):
            break
        n = shape[0] * shape[1]
        drop = sorted(int(v) for v in rng.choice(n, size=n // 5, replace=False))
        k = len(out)
        out.append({'item': 'lstsq', 'basis': basis, 'orders': [list(o) for o in orders], 'mask': mask, 'shape': list(shape),
                    'c': [float(int(v * 16)) / 16 for v in rng.uniform(-2, 2, len(orders))], 'drop': drop,
                    'poison': bool(k % 2), 'data_layout': LAYOUTS[k % len(LAYOUTS)], 'modes_layout': LAYOUTS[(k // 2) % len(LAYOUTS)]})
    # every (data layout, modes layout) pair with an asymmetric mask on a non-square grid
    for dl in LAYOUTS:
        for ml in LAYOUTS:
            for mask in ('ragged', 'dropout'):
                n = 6 * 9
                drop = sorted(int(v) for v in rng.choice(n, size=n // 5, replace=False))
                out.append({'item': 'lstsq', 'basis': 'legendre', 'orders': [[0, 0], [1, 0], [0, 1], [1, 1], [2, 0]], 'mask': mask,
                            'shape': [6, 9], 'c': [float(int(v * 16)) / 16 for v in rng.uniform(-2, 2, 5)], 'drop': drop,
                            'poison': True, 'data_layout': dl, 'modes_layout': ml})
    # 1-D data with (k, npts) modes (array and list of rows); degenerate one-row / one-column grids
    for k, (flat, mask) in enumerate(itertools.product(['array', 'list'], ['none', 'dropout', 'inf'])):
        out.append({'item': 'lstsq', 'basis': 'xy', 'orders': [[0, 0], [1, 0], [0, 1], [2, 0], [1, 1]], 'mask': mask, 'shape': [6, 7],
                    'c': [float(int(v * 16)) / 16 for v in rng.uniform(-2, 2, 5)], 'poison': bool(k % 2), 'flat': flat,
                    'drop': sorted(int(v) for v in rng.choice(42, size=8, replace=False))})
    for shape, orders in (([1, 12], [[0, 0], [1, 0], [2, 0], [3, 0]]), ([13, 1], [[0, 0], [0, 1], [0, 2]])):
        n = shape[0] * shape[1]
        out.append({'item': 'lstsq', 'basis': 'legendre', 'orders': orders, 'mask': 'dropout', 'shape': shape,
                    'c': [float(int(v * 16)) / 16 for v in rng.uniform(-2, 2, len(orders))], 'poison': True,
                    'drop': sorted(int(v) for v in rng.choice(n, size=3, replace=False))})
    return out


# ------------------------------------------------------------------------------------------------
# search and replay
# ------------------------------------------------------------------------------------------------
def _small_cases():
    """systematic small scope, smallest first"""
    xs = [-0.7, 0.1, 0.6]
    us = [0.3, 0.8]
    for n in range(1, 7):
        vecs = [[1.0 if i == p else 0.0 for i in range(n)] for p in range(n)] + [[1.0 + 0.25 * i for i in range(n)]]
        for s in vecs:
            for a, b in ((0.0, 0.0), (0.5, 1.5), (-0.5, -0.5)):
                yield {'item': 'jsum', 's': s, 'alpha': a, 'beta': b, 'x': xs}
            yield {'item': 'qbfs', 'cs': s, 'u': us}
    for n in range(1, 6):
        v = [1.0 + 0.5 * i for i in range(n)]
        for m in range(1, 4):
            pad = [[] for _ in range(m - 1)]
            yield {'item': 'q2dsag', 'cm0': [], 'ams': pad + [v], 'bms': pad + [[]], 'u': us, 't': [0.4, 2.0]}
            yield {'item': 'q2dsag', 'cm0': [], 'ams': pad + [[]], 'bms': pad + [v], 'u': us, 't': [0.4, 2.0]}
            yield {'item': 'q2dsag', 'cm0': [], 'ams': pad + [v], 'bms': pad + [v[:1]], 'u': us, 't': [0.4, 2.0]}
            yield {'item': 'q2dsag', 'cm0': [], 'ams': pad + [v], 'bms': [], 'u': us, 't': [0.4, 2.0]}
            yield {'item': 'q2dsag', 'cm0': [], 'ams': [], 'bms': pad + [v], 'u': us, 't': [0.4, 2.0]}
        yield {'item': 'q2dsag', 'cm0': v, 'ams': [], 'bms': [], 'u': us, 't': [0.4, 2.0]}
    for nms in ([(0, 0)], [(1, 1)], [(1, -1)], [(2, 0), (1, 2)], [(0, 0), (1, -2)], [(1, 1), (0, -1)], [(2, 2), (2, 2)], []):
        yield {'item': 'pack', 'nms': [list(p) for p in nms], 'coefs': [1.0 + i for i in range(len(nms))], 'u': [0.5], 't': [0.7]}
    for k in (1, 2, 3):
        yield {'item': 'tdot', 'modes': [[[float(i + j + q) for j in range(3)] for i in range(2)] for q in range(k)],
               'w': [1.0 + q for q in range(k)]}
    for kind in CONTAINERS:
        for path in ('qbfs', 'zzqbfs', 'q2d', 'jsum', 'q2dalphas', 'zzqcon'):
            yield {'item': 'alias', 'path': path, 'container': kind, 'cs': [1.0, -2.0, 3.0], 'cs2': [2.0, 1.0], 'u': [0.3, 0.8],
                   't': [0.4, 2.0], 'x': [-0.6, 0.35], 'alpha': 0.5, 'beta': 1.5, 'm': 1}
    for dl in LAYOUTS:
        yield {'item': 'lstsq', 'basis': 'legendre', 'orders': [[0, 0], [1, 0], [0, 1]], 'mask': 'ragged', 'shape': [4, 6],
               'c': [1.0, -0.5, 0.25], 'drop': [], 'poison': True, 'data_layout': dl, 'modes_layout': 'C'}
    for mask in ('none', 'circle', 'dropout', 'inf'):
        yield {'item': 'lstsq', 'basis': 'legendre', 'orders': [[0, 0], [1, 0], [0, 1]], 'mask': mask, 'shape': [5, 5],
               'c': [1.0, -0.5, 0.25], 'drop': [0, 7, 12, 18], 'poison': True}


def search(ctx, hints):
    import glob
    import json
    import os
    for path in sorted(glob.glob(os.path.join(C.VERIF, 'corpus', 'C10', '*.json'))):
        case = json.load(open(path))
        ok, detail = pred(case)
        if not ok:
            return {'item': case['item'], 'input': case, 'detail': detail}
    for case in _small_cases():
        ok, detail = pred(case)
        if not ok:
            return {'item': case['item'], 'input': case, 'detail': detail}
    rng = np.random.Generator(np.random.PCG64(ctx.seed + 1000))
    for _ in range(300):
        n = int(rng.integers(1, 10))
        s = [float(v) for v in rng.uniform(-1, 1, n)]
        a, b = AB[int(rng.integers(len(AB)))]
        for case in ({'item': 'jsum', 's': s, 'alpha': a, 'beta': b, 'x': [-0.5, 0.3]}, {'item': 'qbfs', 'cs': s, 'u': [0.4, 0.9]}):
            ok, detail = pred(case)
            if not ok:
                return {'item': case['item'], 'input': case, 'detail': detail}
        cm0, ams, bms = q2d_content(rng, ['cos', 'sin', 'mixed', 'holes', 'ragged', 'm1long'][int(rng.integers(6))], 4, 6)
        case = {'item': 'q2dsag', 'cm0': cm0, 'ams': ams, 'bms': bms, 'u': [0.45], 't': [1.1]}
        ok, detail = pred(case)
        if not ok:
            return {'item': 'q2dsag', 'input': case, 'detail': detail}
    return None


def replay(inp):
    case = inp['input'] if 'input' in inp and isinstance(inp['input'], dict) and 'item' in inp['input'] else inp
    if 'item' not in case:
        case = dict(case, item=inp.get('item'))
    if case['item'] == 'jsum-exact':
        P, qp, J = _impl()
        s = [Fraction(v) for v in case['s']]
        xs = np.array([Fraction(v) for v in case['x']], dtype=object)
        a, b = Fraction(case['alpha']), Fraction(case['beta'])
        try:
            got = J.jacobi_sum_clenshaw(s, a, b, xs)
            exp = sum(c * J.jacobi(n, a, b, xs) for n, c in enumerate(s))
            print('clenshaw', list(got), 'explicit', list(exp))
            return list(got) != list(exp)
        except Exception as ex:
            print('raised', ex)
            return True
    if case['item'] == 'q2d':
        P, qp, J = _impl()
        cs, m, u = case['cs'], case['m'], case['u']
        try:
            al = np.asarray(qp.clenshaw_q2d(cs, m, np.asarray(u * u)), dtype=float).ravel()
            expl = sum(c * float(qp.Q2d(k, m, np.asarray(u), np.asarray(0.0))) for k, c in enumerate(cs)) / u ** m
            read = 0.5 * al[0] - (0.4 * al[3] if (m == 1 and len(cs) > 3) else 0.0)
            print('read-out', read, 'explicit', expl)
            return not close(read, expl)
        except Exception as ex:
            print('raised', ex)
            return True
    ok, detail = pred(case)
    print('replaying', case['item'], '->', 'property holds' if ok else f'VIOLATED: {detail}')
    return not ok


MANIFEST_ENTRY = {
    'technique': 'Lean 4 proofs (list induction + ring/field_simp over an arbitrary field) over a hand model tied to the source by '
                 'translator-generated step/index/guard definitions, plus Float and exact-rational correspondence runs',
    'text': ('PROVED for all inputs (Props/C10.lean, standard axioms): (1) clenshaw_sum - for every three-term family with arbitrary '
             'p_0 and arbitrary constants added to the recurrence, every point and every coefficient list of any length (0, 1, 2 '
             'included) the Clenshaw read-out alpha_0 p_0 + sum e_n alpha_{n+1} equals sum s_n p_n(x); instances: '
             'jacobi_sum_clenshaw = sum s_n jacobi(n) with the value routine\'s explicit P_0, P_1 and both branches of recurrence_abc '
             '(no hypothesis on alpha, beta because x/0 = 0 in a field: where Python raises ZeroDivisionError the theorem says nothing '
             'useful); clenshaw_qbfs = u^2(1-u^2) sum c_n Q_n with 2(alpha_0+alpha_1) as read-out; the 2D-Q radial sum 0.5 alpha_0 - '
             '[m=1, N>2] 2/5 alpha_3 = sum c_n Q_n^m for every m >= 1 (q2d_aux_family proves that abc_q2d_clenshaw with the -2/5 constant '
             'generates exactly the auxiliary polynomials P_0..P_3,... of the MODEL of the value routine Q2d; that model - qbfsQPair, '
             'q2dPPair, jacobiPair - has no translator item here and is tied to Qbfs / Q2d / jacobi by execution only). (2) '
             'change_of_basis_qbfs / _q2d for every non-vanishing f and every g, h (f, g, h are parameters: a wrong table consistent between '
             'value routine and fast path is invisible here by design). (3) q2d_total - the per-m accumulation equals the explicit double '
             'sum for every combination of present/absent/empty cosine and sine lists, unequal outer and radial lengths. (4) pack_roundtrip '
             '+ pack_shape for every sparse input incl. absent families (about the model packer). (5) tensordot_sum (the index formula of '
             'the contraction equals the weighted sum; np.tensordot itself is trusted). (6) lstsq: lstsq_recovers (unique minimiser of the '
             'masked cost = synthesising coefficients when the modes are independent on the finite samples), lstsq_ignores_invalid, and '
             'the bridge normal_equations_minimise (any vector satisfying the normal equations on the kept samples minimises the masked '
             'cost), its converse minimiser_iff_normal_equations, normal_equations_unique (independent modes: at most one solution for '
             'ANY data), normal_equations_recover (every solution of the normal equations IS the synthesising vector) and '
             'lstsq_exists_unique (independent modes: the Gram matrix is invertible, exactly one minimiser for ANY data); '
             'the executable oracle lstsqNormal is NOT proved to solve them - instead every reply of the driver is re-checked '
             'exactly (rational arithmetic) against the normal equations at run time, and the harness refuses a reply without that flag '
             '(flagged_reply_is_synthesis, a theorem about the executed list program normalResidual: a flagged reply is the synthesising '
             'vector whenever the kept modes are independent). '
             'TRANSLATED from the current source each run and proved equal to the model (gen_* theorems): recurrence_abc (both branches '
             'and the branch test), the sweep step / which coefficient order feeds a,b vs c / read-write indices / loop bounds / seeds / '
             'one-term guards of jacobi_sum_clenshaw, change_basis_Qbfs_to_Pn, clenshaw_qbfs, change_of_basis_Q2d_to_Pnm, clenshaw_q2d; '
             'abc_q2d numerators and denominator; the abc_q2d_clenshaw patch table; the read-out, correction guard, per-side evaluation, '
             'skip condition and zip_longest pairing of compute_z_zprime_Q2d. STRUCTURAL FACTS (Booleans computed by the translator from '
             'the syntax tree, opaque to Lean; three-valued - a recognised wrong shape is false and fails the proof, an unrecognised '
             'spelling is reported as untranslatable / TIE-DEGRADED): max(..., default=0) in Q2d_nm_c_to_a_b, the tensordot axes (compared '
             'as values), the mask plumbing of lstsq (equivalent reshape / mask spellings accepted). COMPARED ONLY: the NumPy loops around '
             'the translated steps, the value routines Qbfs / Qcon / Q2d, compute_z_zprime_Q2d end to end, the body of Q2d_nm_c_to_a_b '
             '(n <= 10, |m| <= 8, zero coefficients, list rows; compared up to trailing zeros / absent-vs-empty), sum_of_2d_modes, lstsq '
             'against the exact rational solve, the consumers Interferogram.pvr (surface inside the span of the 36 fitted terms) and '
             'fit_plane (modes as a list). Qcon sag and compute_z_zprime_Qbfs/_Qcon slopes are C09 (qcon_sag_is_sum, zzqcon items); here '
             'they are called through the aliasing / coordinate-form items only. EXECUTED INPUT FORMS: list / tuple / ndarray (int64, '
             'float32, float64) coefficients evaluated twice on the same objects; float64 / float32 / int / 0-d / 2-D / 3-D / strided '
             'coordinates and Python / NumPy scalars; signed m; modes of dtype f64 / f32 / i64 / bool / c128 with weights f64 / f32 / i64 / '
             'c128 / list, mismatched lengths must raise; one-hot 2D-Q content (every position of every length 1..7, cosine-only and '
             'sine-only separately, every m = 1..6) before the random content; lstsq on ill-conditioned sub-aperture designs (15..36 '
             'Zernikes, measured cond 1e4..1e9, coefficients recovered to 1e3 cond eps: a normal-equations solve fails it); '
             'lstsq with C / F / transposed / strided / reversed layouts of data and modes, 1-D '
             'data, modes as list, one-row and one-column grids, +-inf and NaN masks, poisoned modes at masked samples; every sequence '
             'argument (s, cs, cns, coefs, cm0, ams, bms and their inner lists, nms and its rows, coefs of the packer, modes of '
             'sum_of_2d_modes and lstsq; weights as list / tuple / ndarray only, as documented) as list / tuple / ndarray / generator / '
             'iterator / map / zip / chain / reversed / dict views / deque, result = result for the same items as a list (item seqarg); '
             'gen_iterable_arguments: translated fact that these arguments are materialised first or read exactly once.'
             ' Before recognition the translator normalises the source soundly (tools/pysym.py): same-module private helpers without '
             'loops are inlined (helpers with branches by forking paths), view aliases of table rows and hoisted index arithmetic are '
             'propagated, locals are expanded by path-wise symbolic execution or renamed by role, conditional expressions are '
             'treated as if/else; a shape that is still not understood degrades the tie (TIE-DEGRADED), it never turns it red.'),
    'note': ('partial in this sense: the link "Python loop with these bounds fills exactly these entries" is checked by execution, not '
             'proved; np.linalg.lstsq and np.tensordot are trusted; the exact oracle is validated per reply, not proved; the value '
             'routines are compared, not translated; f/g/h (square roots, factorials) are parameters of the theorems and numbers taken '
             'from prysm in the runs; rank-deficient lstsq draws are skipped and counted in filtered_known; exact Fraction streams are '
             'skipped with a note when the implementation does not accept such objects; rounding error is not part of any theorem '
             '(comparisons at 1e-9 relative, lstsq 1e-7, float32 inputs 1e-4).'),
}
