"""helpers shared by harness/c03.py and harness/c05.py: input arrays of every dtype / memory layout, the alternative
argument spellings the API documents (int / tuple / list / ndarray sample counts and shifts, default shift), and the
checks on returned Wavefront containers."""
import numpy as np

DTYPES = ['c16', 'c16', 'f8', 'i8', 'b1', 'c16', 'f8']          # complex twice as likely
LAYOUTS = ['C', 'C', 'F', 'T', 'S']
_NP = {'c16': np.complex128, 'f8': np.float64, 'i8': np.int64, 'b1': np.bool_, 'f4': np.float32, 'c8': np.complex64}


def make_field(seed, shape, dtype='c16', layout='C'):
    """deterministic array of the given dtype and memory layout (C / Fortran / transposed view / strided view)"""
    r = np.random.default_rng(int(seed))
    m, n = shape

    def raw(shp):
        a = r.uniform(-1, 1, shp)
        b = r.uniform(-1, 1, shp)
        if dtype in ('c16', 'c8'):
            return (a + 1j * b).astype(_NP[dtype])
        if dtype in ('f8', 'f4'):
            return a.astype(_NP[dtype])
        if dtype == 'i8':
            return np.round(3 * a).astype(np.int64)
        if dtype == 'b1':
            return a > -0.3
        raise ValueError(dtype)
    if layout == 'C':
        return raw((m, n))
    if layout == 'F':
        return np.asfortranarray(raw((m, n)))
    if layout == 'T':
        return raw((n, m)).T
    if layout == 'S':
        return raw((2 * m, 2 * n + 1))[::2, 1::2]
    raise ValueError(layout)


def draw_kind(rng):
    return DTYPES[int(rng.integers(len(DTYPES)))], LAYOUTS[int(rng.integers(len(LAYOUTS)))]


def case_field(c, seed_offset=0, shape=None):
    return make_field(c['seed'] + seed_offset, shape or (c['m'], c['n']), c.get('dtype', 'c16'), c.get('layout', 'C'))


def as_complex(f):
    return np.ascontiguousarray(np.asarray(f).astype(complex))


def samples_arg(form, M, N):
    if form == 'int' and M == N:
        return int(M)
    if form == 'list':
        return [int(M), int(N)]
    if form == 'array':
        return np.array([M, N])
    return (int(M), int(N))


def shift_arg(form, sx, sy):
    if form == 'list':
        return [sx, sy]
    if form == 'array':
        return np.array([sx, sy], dtype=float)
    return (sx, sy)


def draw_forms(rng, M, N, shift):
    sf = ['tuple', 'tuple', 'list', 'array'][int(rng.integers(4))]
    if M == N and rng.integers(2):
        sf = 'int'
    hf = ['tuple', 'tuple', 'list', 'array'][int(rng.integers(4))]
    if not any(shift) and rng.integers(2):
        hf = 'default'
    return sf, hf


def call_fixed(fn, f, dx, z, lam, dxo, M, N, sx, sy, method, sform='tuple', hform='tuple'):
    """free function focus_fixed_sampling / unfocus_fixed_sampling with the requested argument spellings"""
    kw = {'method': method}
    if hform != 'default':
        kw['shift'] = shift_arg(hform, sx, sy)
    return fn(f, dx, z, lam, dxo, samples_arg(sform, M, N), **kw)


def check_wavefront(w, what, data_shape=None, dx=None, wavelength=None, space=None):
    """-> None or a description of the first attribute of a returned Wavefront that is not what it should be"""
    from prysm.propagation import Wavefront
    if not isinstance(w, Wavefront):
        return f'{what} is a {type(w).__name__}, not a Wavefront'
    if not isinstance(w.data, np.ndarray):
        return f'{what}.data is a {type(w.data).__name__}, not an array'
    if data_shape is not None and tuple(w.data.shape) != tuple(data_shape):
        return f'{what}.data has shape {w.data.shape}, expected {tuple(data_shape)}'
    if dx is not None:
        try:
            ok = abs(float(w.dx) - dx) <= 1e-12 * abs(dx)
        except Exception:
            ok = False
        if not ok:
            return f'{what}.dx = {w.dx!r}, the spacing of that plane is {dx!r}'
    if wavelength is not None and w.wavelength != wavelength:
        return f'{what}.wavelength = {w.wavelength!r}, expected {wavelength!r}'
    if space is not None and w.space != space:
        return f'{what}.space = {w.space!r}, expected {space!r}'
    return None
