"""helpers shared by harness/c03.py and harness/c05.py: input arrays of every dtype / memory layout, the alternative
argument spellings the API documents (int / tuple / list / ndarray sample counts and shifts, default shift), and the
checks on returned Wavefront containers."""
import numpy as np

DTYPES = ['c16', 'c16', 'f8', 'i8', 'b1', 'c16', 'f8']          # complex twice as likely
LAYOUTS = ['C', 'C', 'F', 'T', 'S']
_NP = {'c16': np.complex128, 'f8': np.float64, 'i8': np.int64, 'b1': np.bool_, 'f4': np.float32, 'c8': np.complex64}


def make_field(seed, shape, dtype='c16', layout='C'):
    """deterministic array of the given dtype and memory layout (C / Fortran / transposed view / strided view)"""
    r = np.random.default_rng(int(seed))
    m, n = shape

    def raw(shp):
        a = r.uniform(-1, 1, shp)
        b = r.uniform(-1, 1, shp)
        if dtype in ('c16', 'c8'):
            return (a + 1j * b).astype(_NP[dtype])
        if dtype in ('f8', 'f4'):
            return a.astype(_NP[dtype])
        if dtype == 'i8':
            return np.round(3 * a).astype(np.int64)
        if dtype == 'b1':
            return a > -0.3
        raise ValueError(dtype)
    if layout == 'C':
        return raw((m, n))
    if layout == 'F':
        return np.asfortranarray(raw((m, n)))
    if layout == 'T':
        return raw((n, m)).T
    if layout == 'S':
        return raw((2 * m, 2 * n + 1))[::2, 1::2]
    raise ValueError(layout)


def draw_kind(rng):
    return DTYPES[int(rng.integers(len(DTYPES)))], LAYOUTS[int(rng.integers(len(LAYOUTS)))]


def case_field(c, seed_offset=0, shape=None):
    return make_field(c['seed'] + seed_offset, shape or (c['m'], c['n']), c.get('dtype', 'c16'), c.get('layout', 'C'))


def as_complex(f):
    return np.ascontiguousarray(np.asarray(f).astype(complex))


class Args:
    """argument objects of one predicate evaluation / correspondence case: built ONCE per (kind, form, values) and handed to
    every repeated call, as a user holding `shift = np.array([...])` would; `changed()` reports a caller-owned object that an
    implementation modified in place"""

    def __init__(self):
        self.objs, self.snaps = {}, {}

    def get(self, key, make):
        if key not in self.objs:
            o = make()
            self.objs[key] = o
            self.snaps[key] = o.copy() if isinstance(o, np.ndarray) else (list(o) if isinstance(o, list) else o)
        return self.objs[key]

    def changed(self):
        for k, o in self.objs.items():
            sn = self.snaps[k]
            if isinstance(o, np.ndarray):
                if o.dtype != sn.dtype or o.shape != sn.shape or not np.array_equal(o, sn):
                    return f'the caller-owned {k[0]} array {sn.tolist()} ({sn.dtype}) was modified in place to {o.tolist()}'
            elif isinstance(o, list) and o != sn:
                return f'the caller-owned {k[0]} list {sn} was modified in place to {o}'
        return None


SAMPLE_FORMS = ['tuple', 'tuple', 'list', 'array', 'array32', 'nptuple']
SHIFT_FORMS = ['tuple', 'tuple', 'list', 'array', 'array', 'array32', 'arrayint', 'npscalars']


def samples_arg(form, M, N, args=None):
    def make():
        if form == 'int' and M == N:
            return int(M)
        if form == 'npint' and M == N:
            return np.int64(M)
        if form == 'list':
            return [int(M), int(N)]
        if form == 'array':
            return np.array([M, N])
        if form == 'array32':
            return np.array([M, N], dtype=np.int32)
        if form == 'nptuple':
            return (np.int32(M), np.int64(N))
        return (int(M), int(N))
    return make() if args is None else args.get(('output_samples', form, int(M), int(N)), make)


def eff_shift(c, unit):
    """the physical shift (x, y) that is actually passed for this case: requested samples * unit, after the rounding that
    the container of the case implies (float32 array, integer array)"""
    sx, sy = c['shift'][0] * unit, c['shift'][1] * unit
    hf = c.get('hform', 'tuple')
    if hf == 'array32':
        sx, sy = float(np.float32(sx)), float(np.float32(sy))
    elif hf == 'arrayint':
        sx, sy = float(round(sx)), float(round(sy))
    return sx, sy


def shift_arg(form, sx, sy, args=None):
    def make():
        if form == 'list':
            return [sx, sy]
        if form == 'array':
            return np.array([sx, sy], dtype=np.float64)
        if form == 'array32':
            return np.array([sx, sy], dtype=np.float32)
        if form == 'arrayint':
            return np.array([int(round(sx)), int(round(sy))], dtype=np.int64)
        if form == 'npscalars':
            return (np.float64(sx), np.float64(sy))
        return (sx, sy)
    return make() if args is None else args.get(('shift', form, float(sx), float(sy)), make)


def q_arg(form, Qy, Qx, args=None):
    def make():
        if form == 'list':
            return [Qy, Qx]
        if form == 'array':
            return np.array([Qy, Qx], dtype=np.float64)
        if form == 'array32':
            return np.array([Qy, Qx], dtype=np.float32)
        if form == 'npscalars':
            return (np.float64(Qy), np.float64(Qx))
        return (Qy, Qx)
    return make() if args is None else args.get(('Q', form, float(Qy), float(Qx)), make)


def draw_forms(rng, M, N, shift):
    sf = SAMPLE_FORMS[int(rng.integers(len(SAMPLE_FORMS)))]
    if M == N and rng.integers(2):
        sf = 'int' if rng.integers(2) else 'npint'
    hf = SHIFT_FORMS[int(rng.integers(len(SHIFT_FORMS)))]
    if not any(shift) and rng.integers(2):
        hf = 'default'
    return sf, hf


def call_fixed(fn, f, dx, z, lam, dxo, M, N, sx, sy, method, sform='tuple', hform='tuple', args=None):
    """free function focus_fixed_sampling / unfocus_fixed_sampling with the requested argument spellings; with `args` the
    SAME container objects are handed to every call of the case"""
    kw = {'method': method}
    if hform != 'default':
        kw['shift'] = shift_arg(hform, sx, sy, args)
    return fn(f, dx, z, lam, dxo, samples_arg(sform, M, N, args), **kw)


def tol_of(c, tol=1e-9):
    """comparison tolerance of a case: a shift handed over as a float32 array is divided by output_dx in float32 by NumPy's
    promotion rules (the user's own precision), so those cases are compared at float32 accuracy
    (error ~ 2 pi * shift * 6e-8 * axis length; 2e-4 leaves a factor 10 above the largest generated case)"""
    return 2e-4 if c.get('hform') == 'array32' or c.get('qform') == 'array32' else tol


def check_wavefront(w, what, data_shape=None, dx=None, wavelength=None, space=None):
    """-> None or a description of the first attribute of a returned Wavefront that is not what it should be"""
    from prysm.propagation import Wavefront
    if not isinstance(w, Wavefront):
        return f'{what} is a {type(w).__name__}, not a Wavefront'
    if not isinstance(w.data, np.ndarray):
        return f'{what}.data is a {type(w.data).__name__}, not an array'
    if data_shape is not None and tuple(w.data.shape) != tuple(data_shape):
        return f'{what}.data has shape {w.data.shape}, expected {tuple(data_shape)}'
    if dx is not None:
        try:
            ok = abs(float(w.dx) - dx) <= 1e-12 * abs(dx)
        except Exception:
            ok = False
        if not ok:
            return f'{what}.dx = {w.dx!r}, the spacing of that plane is {dx!r}'
    if wavelength is not None and w.wavelength != wavelength:
        return f'{what}.wavelength = {w.wavelength!r}, expected {wavelength!r}'
    if space is not None and w.space != space:
        return f'{what}.space = {w.space!r}, expected {space!r}'
    return None


def prelude(c):
    """a deterministic history of EARLIER calls derived from a case: both executors, both directions, with non-zero shifts, on
    every pair of axis lengths that occurs in the case.  A replay that holds in a fresh process is repeated after this history,
    so that failures which need earlier calls (a corrupted cache, shared coordinate vectors, ...) reproduce; returns a
    description of the history"""
    from prysm import fttools as ft
    sizes = set()
    for k in ('m', 'n', 'M', 'N', 'My', 'Mx'):
        if isinstance(c.get(k), int):
            sizes.add(c[k])
    if 'pad' in c and 'm' in c:
        sizes.update((c['m'] + c['pad'][0], c['n'] + c['pad'][1]))
    if 'Q' in c and not isinstance(c['Q'], list) and 'm' in c:
        import math
        sizes.update((math.ceil(c['m'] * c['Q']), math.ceil(c['n'] * c['Q'])))
    sizes = sorted(sizes)[:7]
    n = 0
    for a in sizes:
        for b in sizes:
            x = np.ones((a, b), dtype=complex)
            for ex in (ft.mdft.dft2, ft.mdft.idft2, ft.czt.czt2, ft.czt.iczt2):
                try:
                    ex(x, (1.3, 1.7), (b, a), (1.5 + 0.37 * a, -2.25 - 0.11 * b))
                    n += 1
                except Exception:
                    pass
    ft.mdft.clear()
    ft.czt.clear()
    return (f'{n} earlier executor calls (dft2 / idft2 / czt2 / iczt2, Q=(1.3,1.7), shift=(1.5+0.37a,-2.25-0.11b) for an a x b input) on all pairs of the axis '
            f'lengths {sizes}, then mdft.clear() and czt.clear()')
