"""C11 — Zernike (Noll / Fringe / ANSI) and XY single-index conventions are bijections onto the valid orders.

correspondence: the closed-form model (Lean driver `Drivers/C11.lean`, exact `Nat.sqrt` arithmetic) against the
real prysm functions (NumPy float `sqrt` / `ceil`, Python lists and `while` loops) on
  * every index from the first up to 10^5 (quick) / 10^6 (thorough), all four conventions,
  * the places where a floating-point `ceil(sqrt(.))` could slip: k^2-1, k^2, k^2+1 and triangular numbers +-1
    with square-root arguments up to (but below) 2^52,
  * every valid (n, m) with n <= 400 through the inverse maps (`nm_to_fringe`, `nm_to_ansi_j`; for Noll and XY,
    which have no inverse in prysm, the model's explicit inverse picks the index and the real forward map must
    return the pair).
  * order independence: the maps must be functions of their argument, so shuffled / descending / ping-pong index
    sequences must get the same answers (every call of the process is logged; a history-dependent answer is shrunk, in
    fresh interpreters, to a short reproducing call SEQUENCE which the replay carries).
Integers are compared exactly.  The property's own predicates (validity, injectivity, coverage of every valid
order below the bound, round trips through the real inverses, Noll ordering rules, ANSI rule, XY closed form) are
evaluated on the real outputs, independently of the model.
"""
import json
import math
import warnings
import os
import signal
import subprocess
import sys
import numpy as np
from harness import common as C

RULE = ('exhaustive: every index j from the first (ANSI 0, others 1) up to the tier bound for all four conventions; '
        'plus boundary indices k^2-1,k^2,k^2+1 (Fringe) / row ends t(t+3)/2+-1 and triangular numbers t(t+1)/2+-1 '
        '(ANSI, Noll, XY) for seeded random and extreme k,t with sqrt arguments < 2^52; plus every valid (n,m), n<=400, '
        'through the inverse maps; plus order independence: before anything else, and again after each ascending sweep, '
        'every map is asked non-ascending sequences (all ordered pairs of the first 24 indices, (next block, block end), '
        '(two blocks on, block end), ping-pong around block ends, a descending run, a seeded random permutation of 1..10^4) '
        'and must give the answer of the model / of a fresh process.  A case is non-trivial unless it is the first index; distinct = distinct (item, index).  '
        'Names (session 3): nm_to_name on EVERY valid (n,m), n<=80 (quick) / 400 (thorough), every third pair as np.int64, the string parsed back '
        'into (kind, ordinal, column, suffix) with the real tables and compared with the Lean model, all names pairwise different; '
        'zernikes_to_magnitude_angle(_nmkey) and top_n on seeded coefficient lists built from the first N<=400 orders of Noll / ANSI / Fringe '
        '(natural, reversed, shuffled, terms dropped so that +-m partners are missing, single column), random non-zero coefficients and random k; '
        'non-trivial when a list has both paired and unpaired terms / k>1.')
ASSUMPTIONS = ['np.sqrt is correctly rounded and np.ceil/np.floor are exact on doubles (IEEE-754); the exact-integer '
               'reading of ceil(sqrt(.)) used by the translator is validated against NumPy on every index of the sweep '
               'and at the square / triangular boundaries below 2^52, not proved',
               'indices are Python ints (arbitrary precision); above ~2^52 the float idiom is out of scope '
               '(first Fringe failure is exactly j = 2^52+1)']

FIRST = {'ansi': 0, 'noll': 1, 'fringe': 1, 'xy': 1}
CONVS = ('ansi', 'noll', 'fringe', 'xy')


class _Timeout(Exception):
    pass


class _limit:
    """wall-clock guard around calls into the implementation (a broken loop must not hang the check)"""

    def __init__(self, seconds):
        self.seconds = seconds

    def _raise(self, *a):
        raise _Timeout()

    # the limit is on the CPU time of this process (a broken loop burns CPU; a machine that stalls because many checks run
    # in parallel does not), with a wall-clock backstop at ten times the limit
    def __enter__(self):
        self.old = signal.signal(signal.SIGALRM, self._raise)
        self.oldv = signal.signal(signal.SIGVTALRM, self._raise)
        signal.setitimer(signal.ITIMER_REAL, 10 * self.seconds)
        signal.setitimer(signal.ITIMER_VIRTUAL, self.seconds)

    def __exit__(self, *a):
        signal.setitimer(signal.ITIMER_VIRTUAL, 0)
        signal.setitimer(signal.ITIMER_REAL, 0)
        signal.signal(signal.SIGVTALRM, self.oldv)
        signal.signal(signal.SIGALRM, self.old)
        return False


HIST = []    # every call this process made into the index maps, in order: [name, *args] or ['range', conv, a, b]


def _raw():
    """the functions under test, taken from the PUBLIC package path `prysm.polynomials.<name>` (what users import;
    a shim or alias added in polynomials/__init__.py is therefore what gets executed)"""
    from prysm import polynomials as P
    return {'ansi': P.ansi_j_to_nm, 'noll': P.noll_to_nm, 'fringe': P.fringe_to_nm, 'xy': P.xy_j_to_mn,
            'inv_ansi': P.nm_to_ansi_j, 'inv_fringe': P.nm_to_fringe}


def _logged(name, f):
    def g(*args):
        HIST.append([name] + [int(a) for a in args])
        return f(*args)
    g.__name__ = f.__name__
    g.raw = f
    return g


def _impl():
    """the real functions, every call recorded in HIST (so that a history-dependent answer can be replayed)"""
    r = _raw()
    return {c: _logged(c, r[c]) for c in CONVS}, {c: _logged('inv_' + c, r['inv_' + c]) for c in ('ansi', 'fringe')}


def _run_history(entries):
    """execute a recorded call history on the real functions; returns the canonicalised result of the last call"""
    r = _raw()
    last = None
    for e in entries:
        if e[0] == 'range':
            f = r[e[1]]
            for j in range(e[2], e[3]):
                last = _call(f, j, limit=10.0)
                if last[0] != 'ok':
                    break
        else:
            last = _call(r[e[0]], *e[1:], limit=10.0)
    return last


def _fresh_process(entries):
    """result of the last call of `entries` in a NEW interpreter (no earlier calls): ('ok', tuple) | (status, text)"""
    code = ('import sys, json; sys.path.insert(0, %r); from harness import common as C; C.import_prysm(); '
            'from harness import c11; print("RESULT " + json.dumps(c11._run_history(json.load(sys.stdin))))' % C.VERIF)
    try:
        p = subprocess.run([sys.executable, '-c', code], input=json.dumps(entries), text=True, capture_output=True,
                           timeout=120, env=dict(os.environ, PRYSM_REPO=C.REPO))
    except subprocess.TimeoutExpired:
        return ('timeout', 'history did not finish in a fresh process')
    for line in p.stdout.splitlines():
        if line.startswith('RESULT '):
            st, val = json.loads(line[7:])
            return (st, tuple(val) if isinstance(val, list) else val)
    raise C.ToolError(f'fresh-process run failed: {p.stderr[-800:]}')


def _shrink_history(expected):
    """shortest suffix of HIST (tried at doubling lengths) whose last call, in a fresh process, still differs from
    `expected`; the whole history if no proper suffix does"""
    n = len(HIST)
    k = 2
    while k < n:
        cand = HIST[n - k:]
        if _fresh_process(cand) != ('ok', tuple(expected)):
            # trim from the front while it still reproduces (cheap: at most a few steps)
            while len(cand) > 2 and _fresh_process(cand[1:]) != ('ok', tuple(expected)):
                cand = cand[1:]
            return cand
        k = k * 2 if k >= 4 else k + 1
        if k > 4096:
            break
    return list(HIST)


_DEAD = set()     # conventions whose implementation stopped returning: never wait for them twice


def _call(f, *args, limit=20.0):
    """('ok', value) | ('raised', text) | ('timeout', text); value canonicalised to a tuple of Python ints"""
    name = getattr(f, '__name__', '')
    if name in _DEAD:
        return 'timeout', 'not called again after an earlier call did not return'
    try:
        with _limit(limit):
            r = f(*args)
    except _Timeout:
        # a wall-clock limit can also expire because the whole machine stalled (many checks in parallel): the call is
        # repeated once with three times the limit before the map is declared non-terminating
        try:
            with _limit(3 * limit):
                r = f(*args)
        except _Timeout:
            _DEAD.add(name)
            return 'timeout', f'no result within {limit} s, nor within {3 * limit} s when repeated'
        except Exception as ex:   # noqa
            return 'raised', f'{type(ex).__name__}: {ex}'
    except Exception as ex:   # noqa
        return 'raised', f'{type(ex).__name__}: {ex}'
    try:
        if isinstance(r, tuple):
            vals = tuple(r)
        else:
            vals = (r,)
        out = []
        for v in vals:
            if isinstance(v, (float, np.floating)):
                if v != int(v):
                    return 'raised', f'non-integer result {r!r}'
                v = int(v)
            out.append(int(v))
        return 'ok', tuple(out)
    except Exception as ex:   # noqa
        return 'raised', f'unusable result {r!r}: {ex}'


def valid(n, m):
    return abs(m) <= n and (n - abs(m)) % 2 == 0


def tri(d):
    return d * (d + 1) // 2


def closed_form(conv, j):
    """the convention's rule in exact integer arithmetic (same closed forms as Model/C11.lean; used by replay/search)"""
    if conv == 'fringe':
        s = math.isqrt(j)
        k = (s if s * s == j else s + 1) - 1
        r = j - k * k - 1
        n = k + r // 2
        return n, (2 * k - n) * (1 - 2 * (r % 2))
    t = j if conv == 'ansi' else j - 1
    d = (math.isqrt(8 * t + 1) - 1) // 2
    p = t - tri(d)
    if conv == 'ansi':
        return d, 2 * p - d
    if conv == 'xy':
        return d - p, p
    a = 2 * ((p + 1) // 2) if d % 2 == 0 else 2 * (p // 2) + 1
    return d, (-a if j % 2 else a)


def _block_end(conv, t):
    """last index of block t (row of radial order / total degree t; Fringe group n+|m| = 2(t-1))"""
    if conv == 'fringe':
        return t * t
    return tri(t + 1) + FIRST[conv] - 1


def _order_sequence(ctx, conv, J, wide=False):
    """index sequences that are NOT ascending: every ordered pair of the first 24 (60 when an item is untranslatable) indices; around each block end e:
    (next block, e), (two blocks on, e), ping-pong e, e+1, e-1, e+2, …; a descending run; a random permutation;
    a few block ends near the top of the sweep"""
    lo = FIRST[conv]
    seq = []
    w = 60 if wide else 24
    for a in range(lo, lo + w):
        for b in range(lo, lo + w):
            seq += [a, b]
    for t in range(1, ctx.scale(60, 120)):
        e, e1, e2 = _block_end(conv, t), _block_end(conv, t + 1), _block_end(conv, t + 2)
        seq += [e + 1, e, e1, e, e1 + 1, e, e2, e]
        seq += [x for k in range(1, 4) for x in (e + k, e - k) if e - k >= lo] + [e]
    seq += list(range(ctx.scale(3000, 12000), lo - 1, -1))
    seq += [int(x) + lo for x in ctx.rng.permutation(ctx.scale(10 ** 4, 4 * 10 ** 4))]
    t = 1
    while _block_end(conv, t + 3) < J:
        t += 1
    for tt in (t // 2, t - 1, t):
        e, e1 = _block_end(conv, tt), _block_end(conv, tt + 1)
        seq += [e1, e, e + 1, e, e1 + 1, e - 1, e]
    return [j for j in seq if lo <= j <= J]


_NPKINDS = {'int64': np.int64, 'int32': np.int32, 'array0d': lambda j: np.array(j, dtype=np.int64)}


def _npint_call(ctx, item, case, f, kind, *ints):
    """call f with NumPy integer arguments of the given kind (what `for j in np.arange(...)` or an indexing result
    hands over); 0-d arrays go through pure_call (the caller's array must not be modified, second answer identical)"""
    args = [_NPKINDS[kind](v) for v in ints]
    if kind == 'array0d':
        return _call(lambda *a: C.pure_call(ctx, item, case, f, *a), *args)
    return _call(f, *args)


_NARROW = {'int8': np.int8, 'uint8': np.uint8, 'int16': np.int16, 'uint16': np.uint16}
# Largest argument for which the CLEAN tree returns the convention's answer when the index / orders arrive as a narrow NumPy
# integer (measured exhaustively on the pinned tree; beyond it the implementation's own arithmetic — 8*idx, n*(n+2),
# j - max_j — leaves the type: documented outside the property, see notes/findings_C11.txt).  Every argument up to the
# limit is run, so an edit that NARROWS a working range (e.g. integer arithmetic where a float promotion used to be) is
# caught with a concrete input.  Forward maps: largest index j; inverse maps: largest n such that every valid (n, m)
# (m >= 0 only for unsigned types) is right; 16-bit Fringe inverse: all pairs to n = 400 / 700 (tier) plus the
# extreme columns m in {+-n, +-(n-2), 0|1} up to the point where n + |m| leaves the type.
NARROW_FWD = {'ansi': {'int8': 14, 'uint8': 0, 'int16': 4094, 'uint16': 0},
              'noll': {'int8': 15, 'uint8': 1, 'int16': 4095, 'uint16': 1},
              'fringe': {'int8': 127, 'uint8': 255, 'int16': 32767, 'uint16': 65535},
              'xy': {'int8': 120, 'uint8': 253, 'int16': 32640, 'uint16': 65341}}
NARROW_INV = {'ansi': {'int8': 9, 'uint8': 14, 'int16': 179, 'uint16': 254},
              'fringe': {'int8': 64, 'uint8': 127, 'int16': 16383, 'uint16': 32767}}


def _narrow_pairs(ctx, conv, kind):
    """valid (n, m) inside the clean tree's working range for the inverse map `conv` and NumPy type `kind`"""
    top = NARROW_INV[conv][kind]
    signed = not kind.startswith('u')
    full = min(top, ctx.scale(400, 700))
    out = [(n, m) for n in range(full + 1) for m in range(-n if signed else n % 2, n + 1, 2)]
    step = max(1, (top - full) // ctx.scale(400, 4000))
    for n in list(range(full + 1, top + 1, step)) + [top - 1, top]:
        if n <= full:
            continue
        for a in (n, n - 2, n % 2):
            for m in ((a, -a) if signed and a else (a,)):
                out.append((n, m))
    return out


def _narrow_forward(ctx, conv, f, lo, model_all, real):
    """forward map on int8 / uint8 / int16 / uint16 indices, every index of the clean tree's working range"""
    item = f'{conv}_narrow'
    for kind, mk in _NARROW.items():
        top = min(NARROW_FWD[conv][kind], lo + len(model_all) - 1)
        nbad = 0
        for j in range(lo, top + 1):
            mm = (int(model_all[j - lo][0]), int(model_all[j - lo][1]))
            st, val = _call(f.raw, mk(j))
            if st == 'ok' and val == mm:
                continue
            if (int(real[j - lo][0]), int(real[j - lo][1])) != mm:
                continue         # wrong for the Python int too: the sweep reports it
            nbad += 1
            if nbad <= 2:
                case = {'j': j, 'dtype': kind}
                got = val if st == 'ok' else f'{st}: {val}'
                ctx.disagree(item, case, got, list(mm))
                ctx.pred_fail(item, case, f'{conv}({kind}({j})) = {got}, but {mm} for the Python int {j} (the pinned tree '
                              f'is right for every {kind} index up to {NARROW_FWD[conv][kind]})')
        n = max(0, top + 1 - lo)
        ctx.evaluations += n
        ctx.items[item] = ctx.items.get(item, 0) + n
        ctx.hist[f'{item}:{kind}'] += n
        ctx._distinct.update(f'{item}:{kind}:{j}' for j in range(lo + 1, top + 1))


def _npint_check(ctx, conv, f, lo, J, model_all, real):
    """the maps on np.int64 / np.int32 scalars and 0-d integer arrays: same answers as on Python ints"""
    js = set(range(lo, lo + 120))
    t = 1
    while _block_end(conv, t) + 1 <= J:
        if t < 40 or t % 7 == 0:
            e = _block_end(conv, t)
            js.update((e - 1, e, e + 1))
        t += 1
    js.update(int(x) for x in ctx.rng.integers(lo, J + 1, size=ctx.scale(300, 2000)))
    js = sorted(j for j in js if lo <= j <= J)
    item = f'{conv}_npint'
    for kind in _NPKINDS:
        nbad = 0
        for j in js:
            case = {'j': j, 'dtype': kind}
            ctx.case(item, case, nontrivial=j > lo, tag=kind)
            mm = tuple(int(x) for x in model_all[j - lo])
            st, val = _npint_call(ctx, item, case, f, kind, j)
            if st != 'ok' or val != mm:
                if tuple(int(x) for x in real[j - lo]) != mm:
                    continue     # wrong for the Python int as well: reported by the sweep with the property's predicates
                nbad += 1
                if nbad <= 2:
                    got = val if st == 'ok' else f'{st}: {val}'
                    ctx.disagree(item, case, got, list(mm))
                    ctx.pred_fail(item, case, f'{conv}({kind}({j})) = {got}, but {mm} for the Python int {j}: '
                                  'the answer depends on the integer type of the index')


def _order_check(ctx, conv, f, seq, model, item):
    """run `seq` through the logged function `f`; the answer to every call must be the model's answer for that index,
    whatever was asked before.  On the first difference the call history is shrunk to a short reproducing sequence."""
    for j, mm in zip(seq, model):
        st, val = _call(f, j, limit=10.0)
        if st == 'ok' and val == tuple(mm):
            continue
        fresh = _fresh_process([[conv, j]])
        hist = _shrink_history(mm) if fresh == ('ok', tuple(mm)) else [[conv, j]]
        case = {'j': j, 'sequence': hist, 'expected': list(mm)}
        got = val if st == 'ok' else f'{st}: {val}'
        ctx.disagree(item, {'j': j, 'calls_before': len(HIST) - 1}, got, list(mm))
        if fresh == ('ok', tuple(mm)):
            detail = (f'{conv}({j}) = {got} after the calls {hist[:-1][-6:]}, but {tuple(mm)} when asked first: '
                      f'the answer depends on the call history')
        elif st == 'ok':
            return False     # wrong whatever the history: the ascending sweep reports it with the property's own predicates
        else:
            detail = f'{conv}({j}) {got}; the order at this index is {tuple(mm)}'
        ctx.pred_fail(item, case, detail)
        return False
    return True


# ------------------------------------------------------------------------------------------------
# property predicates on arrays of real outputs
# ------------------------------------------------------------------------------------------------
def _array_predicates(ctx, conv, lo, pairs):
    """pairs: int64 array (N,2) of the real outputs for indices lo..lo+N-1.  Returns list of (index, detail)."""
    bad = []
    N = len(pairs)
    j = np.arange(lo, lo + N, dtype=np.int64)
    a, b = pairs[:, 0], pairs[:, 1]
    if conv == 'xy':
        ok = (a >= 0) & (b >= 0)
        what = 'negative exponent'
    else:
        ok = (np.abs(b) <= a) & ((a - np.abs(b)) % 2 == 0)
        what = 'not a valid order (need n >= |m| and n - |m| even)'
    for k in np.flatnonzero(~ok)[:3]:
        bad.append((int(j[k]), f'{conv}({int(j[k])}) = ({int(a[k])}, {int(b[k])}): {what}'))
    # one-to-one
    key = a * (4 * (int(np.abs(pairs).max()) + 2)) + b
    order = np.argsort(key, kind='stable')
    dup = np.flatnonzero(np.diff(key[order]) == 0)
    for k in dup[:3]:
        j1, j2 = int(j[order[k]]), int(j[order[k + 1]])
        bad.append((max(j1, j2), f'{conv}({j1}) = {conv}({j2}) = ({int(a[order[k]])}, {int(b[order[k]])}): not one-to-one'))
    # onto: every valid order whose index must lie below the bound is present
    have = set(map(tuple, pairs.tolist()))
    hi = lo + N - 1
    if conv in ('ansi', 'noll'):
        rows = 0
        while tri(rows + 1) + FIRST[conv] - 1 <= hi:
            rows += 1            # rows 0..rows-1 lie completely inside [first, hi]
        want = ((n, m) for n in range(rows) for m in range(-n, n + 1, 2))
    elif conv == 'fringe':
        blocks = 0
        while (blocks + 1) ** 2 <= hi:
            blocks += 1          # blocks n+|m| = 2k, k < blocks
        want = ((n, m) for k in range(blocks) for n in range(k, 2 * k + 1) for m in {2 * k - n, n - 2 * k})
    else:
        deg = 0
        while tri(deg + 1) <= hi:
            deg += 1
        want = ((d - p, p) for d in range(deg) for p in range(d + 1))
    miss = 0
    for q in want:
        if q not in have:
            miss += 1
            if miss <= 3:
                bad.append((hi, f'{conv}: order {q} is not reached by any index in [{lo}, {hi}] (not onto)'))
    # published ordering rules
    if conv == 'noll':
        dec = np.flatnonzero(np.diff(a) < 0)
        for k in dec[:3]:
            bad.append((int(j[k + 1]), f'noll: radial order decreases from j={int(j[k])} (n={int(a[k])}) to j={int(j[k + 1])} (n={int(a[k + 1])})'))
        nz = b != 0
        wrong = nz & ((j % 2 == 0) != (b > 0))
        for k in np.flatnonzero(wrong)[:3]:
            bad.append((int(j[k]), f'noll({int(j[k])}) = ({int(a[k])}, {int(b[k])}): even index <-> cosine (m>0) violated'))
    if conv == 'ansi':
        wrong = 2 * j != a * (a + 2) + b
        for k in np.flatnonzero(wrong)[:3]:
            bad.append((int(j[k]), f'ansi({int(j[k])}) = ({int(a[k])}, {int(b[k])}): j != (n(n+2)+m)/2'))
    if conv == 'xy':
        d = a + b
        wrong = j != d * (d + 1) // 2 + b + 1
        for k in np.flatnonzero(wrong)[:3]:
            bad.append((int(j[k]), f'xy({int(j[k])}) = ({int(a[k])}, {int(b[k])}): j != d(d+1)/2 + n + 1 with d = m + n'))
    return bad


# rows the O(sqrt j) list (Noll) / loops (XY) of the implementation can reach in the time budget; the last column is used
# when the translator tie is degraded (an item fell back to the hand model): execution is then all there is
NOLL_TOP = {'quick': 60000, 'thorough': 1500000, 'degraded': 5000000}
XY_TOP = {'quick': 12000, 'thorough': 60000, 'degraded': 3000000}


def _loguniform(rng, lo, hi, size):
    return [int(x) for x in np.exp(rng.uniform(np.log(lo), np.log(hi), size=size))]


def _boundary_indices(ctx, conv, degraded=False):
    """indices where a float ceil(sqrt(.)) could slip (block ends +-1), sqrt arguments strictly below 2^52, plus
    sparse log-uniform random indices (not at block ends) over the same range"""
    rng = ctx.rng
    out = set()
    if conv == 'fringe':
        top = 2 ** 26 - 1
        ks = list(range(1, 40)) + [top - i for i in range(0, 12)] + [2 ** e + d for e in range(6, 26) for d in (-1, 0, 1)]
        ks += [int(x) for x in rng.integers(40, top, size=ctx.scale(300, 3000))]
        for k in ks:
            for d in (-1, 0, 1):
                out.add(k * k + d)
        out.update(_loguniform(rng, 10 ** 5, 2 ** 52 - 1, ctx.scale(400, 4000) * (5 if degraded else 1)))
    elif conv == 'ansi':
        top = 2 ** 25 - 3          # 9 + 8 t(t+3)/2 = (2t+3)^2 < 2^52
        ts = list(range(0, 40)) + [top - i for i in range(0, 12)] + [2 ** e + d for e in range(6, 25) for d in (-1, 0, 1)]
        ts += [int(x) for x in rng.integers(40, top, size=ctx.scale(300, 3000))]
        for t in ts:
            for d in (-1, 0, 1, 2):
                out.add(tri(t) + d)              # first index of row t, +-1
                out.add(t * (t + 3) // 2 + d)    # last index of row t, +-1 (where 9 + 8 j is a perfect square)
        out.update(_loguniform(rng, 10 ** 5, 2 ** 49 - 2, ctx.scale(400, 4000) * (5 if degraded else 1)))
    else:
        tops = NOLL_TOP if conv == 'noll' else XY_TOP
        top = tops[ctx.tier]
        ts = list(range(0, 40)) + [top - i for i in range(0, 6)] + [2 ** e + d for e in range(6, 22) for d in (-1, 0, 1) if 2 ** e + d < top]
        ts += [int(x) for x in rng.integers(40, top, size=ctx.scale(40, 300))]
        for t in ts:
            for d in (-1, 0, 1, 2):
                out.add(tri(t) + d)
        out.update(_loguniform(rng, 10 ** 5, tri(top), ctx.scale(40, 300)))
        if degraded and tops['degraded'] > top:
            # no theorem speaks about this source any more: go as far as the implementation's cost allows
            wide = tops['degraded']
            rows = [wide - i for i in range(0, 3)] + _loguniform(rng, top, wide, 60) + \
                   [10 ** e + d for e in range(5, 7) for d in (-1, 0, 1) if 10 ** e + d < wide]
            for t in rows:
                for d in (0, 1):
                    out.add(tri(t) + d)
                out.add(tri(t) + t // 2)
            out.update(_loguniform(rng, tri(top), tri(wide), 60))
    return sorted(x for x in out if x >= FIRST[conv])


def _chunks(lo, hi, size):
    a = lo
    while a < hi:
        yield a, min(hi, a + size)
        a += size


def correspondence(ctx):
    warnings.simplefilter('ignore', RuntimeWarning)      # NumPy overflow warnings of fixed-width inputs: results are compared, not warnings
    fwd, inv = _impl()
    # a degraded tie of a name-layer item widens the name families only, not the sweeps of the index maps
    ctx.widen_names = any(u in NAME_ITEMS for u in ctx.untranslatable)
    ctx.widen = any(u not in NAME_ITEMS for u in ctx.untranslatable)
    J = ctx.scale(10 ** 5, 10 ** 6)
    if ctx.widen:
        J = max(J, 2 * 10 ** 5)
    NMAX = 400
    CH = 50000

    # ------------------------------------------------------------ requests to the model
    lines = []
    oseq = {conv: _order_sequence(ctx, conv, J, wide=ctx.widen) for conv in CONVS}
    for conv in CONVS:
        for a in range(0, len(oseq[conv]), 2000):
            lines.append(f'fwds {conv} ' + ' '.join(map(str, oseq[conv][a:a + 2000])))
    for conv in CONVS:
        for a, b in _chunks(FIRST[conv], J + 1, CH):
            lines.append(f'sweep {conv} {a} {b}')
    bnd = {conv: _boundary_indices(ctx, conv, degraded=ctx.widen) for conv in CONVS}
    if ctx.widen:
        ctx.notes.append('translator tie degraded (' + ', '.join(ctx.untranslatable) + '): boundary rows widened to '
                         f'Noll {NOLL_TOP["degraded"]}, XY {XY_TOP["degraded"]}, 5x random large indices, wider order probing')
    for conv in CONVS:
        for a in range(0, len(bnd[conv]), 2000):
            lines.append(f'fwds {conv} ' + ' '.join(map(str, bnd[conv][a:a + 2000])))
    vpairs = [(n, m) for n in range(NMAX + 1) for m in range(-n, n + 1, 2)]
    xpairs = [(d - p, p) for d in range(ctx.scale(150, NMAX) + 1) for p in range(d + 1)]
    for conv in ('ansi', 'fringe', 'noll'):
        lines.append(f'invs {conv} ' + ' '.join(f'{n} {m}' for n, m in vpairs))
    lines.append('invs xy ' + ' '.join(f'{a} {b}' for a, b in xpairs))
    npairs = {(conv, kind): _narrow_pairs(ctx, conv, kind) for conv in ('ansi', 'fringe') for kind in _NARROW}
    for key, prs in npairs.items():
        for a in range(0, len(prs), 5000):
            lines.append(f'invs {key[0]} ' + ' '.join(f'{n} {m}' for n, m in prs[a:a + 5000]))
    rep = iter(C.lean_driver('C11', lines))

    # ------------------------------------------------------------ order independence (the first calls of this process)
    # the maps must be functions of their argument: shuffled / descending / ping-pong sequences get the model's answers
    for conv in CONVS:
        toks = []
        for a in range(0, len(oseq[conv]), 2000):
            toks += next(rep).split()
        model = [(int(toks[2 * i]), int(toks[2 * i + 1])) for i in range(len(oseq[conv]))]
        _order_check(ctx, conv, fwd[conv], oseq[conv], model, f'{conv}_order')
        ctx.evaluations += len(model)
        ctx.items[f'{conv}_order'] = len(model)
        ctx.hist[f'{conv}_order:non-ascending'] += len(model)
        ctx._distinct.update(f'{conv}_order:{i}' for i in range(len(model)))

    # ------------------------------------------------------------ exhaustive sweeps
    for conv in CONVS:
        f = fwd[conv]
        lo = FIRST[conv]
        real = np.zeros((J + 1 - lo, 2), dtype=np.int64)
        model_all = np.zeros((J + 1 - lo, 2), dtype=np.int64)
        failed_calls = 0
        broken = f.__name__ in _DEAD       # already stopped returning in the order-independence item
        for a, b in _chunks(lo, J + 1, CH):
            model = np.array(next(rep).split(), dtype=np.int64).reshape(-1, 2)
            model_all[a - lo:b - lo] = model
            if broken:           # the implementation already failed to return on this convention: do not wait again
                real[a - lo:b - lo] = model
                continue
            try:
                HIST.append(['range', conv, a, b])
                fr = f.raw
                with _limit(ctx.scale(60, 300)):
                    got = [fr(j) for j in range(a, b)]
                raw = np.array(got)
                if raw.dtype.kind not in 'iu' and not (raw.dtype.kind == 'f' and (raw == np.floor(raw)).all()):
                    raise TypeError('non-integer results')      # located index by index below
                arr = raw.astype(np.int64).reshape(-1, 2)
            except BaseException as ex:   # noqa  (slow path: find the first indices that fail)
                if isinstance(ex, KeyboardInterrupt):
                    raise
                arr = model.copy()        # keeps the array predicates meaningful for the indices not re-run
                for j in range(a, b):
                    st, val = _call(f, j, limit=5.0)
                    if st == 'ok' and len(val) == 2:
                        arr[j - a] = val
                        continue
                    failed_calls += 1
                    mm = tuple(int(x) for x in model[j - a])
                    ctx.disagree(conv, {'j': j}, f'{st}: {val}', list(mm))
                    ctx.pred_fail(conv, {'j': j}, f'{conv}({j}) {st}: {val}')
                    if st == 'timeout' or failed_calls >= 3:
                        broken = True
                        ctx.notes.append(f'{conv}: sweep abandoned after {failed_calls} failing calls (first at the recorded indices)')
                        break
            real[a - lo:b - lo] = arr
            diff = np.flatnonzero((arr != model).any(axis=1))
            for k in diff[:3]:
                ctx.disagree(conv, {'j': int(a + k)}, [int(x) for x in arr[k]], [int(x) for x in model[k]])
            if len(diff) > 3:
                ctx.notes.append(f'{conv}: {len(diff)} disagreements in [{a}, {b})')
            ctx.evaluations += (b - a)
            ctx.items[conv] = ctx.items.get(conv, 0) + (b - a)
            ctx.hist[f'{conv}:sweep'] += (b - a)
        for j in (lo + 7, J):
            if len(ctx.samples) < 12:
                ctx.samples.append({'item': conv, 'case': {'j': j, 'result': [int(x) for x in real[j - lo]]}})
        ctx._distinct.update(f'{conv}:{j}' for j in range(lo + 1, J + 1))
        for (j, detail) in _array_predicates(ctx, conv, lo, real)[:6]:
            ctx.pred_fail(conv, {'j': j}, detail)
        # after the long ascending run: step back across the block ends just below the top, and to the very first index
        if not broken:
            t = 1
            while _block_end(conv, t + 2) < J:
                t += 1
            e0, e1 = _block_end(conv, t), _block_end(conv, t + 1)
            seq2 = [e1, J, e0, e1, e1 + 1, e1, lo, J - 1, e0 + 1, e0, lo + 5, lo + 4]
            seq2 = [j for j in seq2 if lo <= j <= J]
            _order_check(ctx, conv, f, seq2, [tuple(int(x) for x in model_all[j - lo]) for j in seq2], f'{conv}_order')
            ctx.evaluations += len(seq2)
            ctx.items[f'{conv}_order'] += len(seq2)
            _npint_check(ctx, conv, f, lo, J, model_all, real)
            _narrow_forward(ctx, conv, f, lo, model_all, real)
        # round trip through the real inverse, every index
        if conv in inv:
            g = inv[conv].raw      # 10^5..10^6 calls: not logged one by one
            nbad = 0
            for k in range(0, J + 1 - lo):
                j = lo + k
                n, m = int(real[k, 0]), int(real[k, 1])
                try:
                    r = g(n, m)
                except Exception as ex:   # noqa
                    r = f'raised {type(ex).__name__}: {ex}'
                if not (isinstance(r, (int, float, np.integer, np.floating)) and r == j):
                    nbad += 1
                    if nbad <= 3:
                        ctx.pred_fail(f'{conv}_roundtrip', {'j': j}, f'nm_to_{conv}{"_j" if conv == "ansi" else ""}(*{conv}({j})) = {r!r}, expected {j}')
            ctx.evaluations += J + 1 - lo
            ctx.items[f'{conv}_roundtrip'] = J + 1 - lo

    # ------------------------------------------------------------ boundary indices (float sqrt / ceil)
    for conv in CONVS:
        js = bnd[conv]
        model = []
        for a in range(0, len(js), 2000):
            model += next(rep).split()
        model = [(int(model[2 * i]), int(model[2 * i + 1])) for i in range(len(js))]
        for kb, (j, mm) in enumerate(zip(js, model)):
            case = {'j': j}
            ctx.case(f'{conv}_boundary', case, nontrivial=True, tag='big' if j > 10 ** 6 else 'small')
            st, val = _call(fwd[conv], j, limit=60.0)
            if st != 'ok' or val != mm:
                ctx.disagree(f'{conv}_boundary', case, val if st == 'ok' else f'{st}: {val}', list(mm))
                ok_prop = st == 'ok' and len(val) == 2 and ((val[0] >= 0 and val[1] >= 0) if conv == 'xy' else valid(*val))
                if not ok_prop:
                    ctx.pred_fail(f'{conv}_boundary', case, f'{conv}({j}) = {val}: not a valid order')
                elif conv in inv:
                    r = _call(inv[conv], *val)
                    if r != ('ok', (j,)):
                        ctx.pred_fail(f'{conv}_boundary', case, f'round trip of {j} through {val} gives {r[1]}')
                elif conv == 'noll':
                    # valid but different from the closed form: the ordering rules / one-to-one must break somewhere near
                    ctx.pred_fail(f'{conv}_boundary', case, f'noll({j}) = {val}, the unique order at this position is {mm}')
                else:
                    ctx.pred_fail(f'{conv}_boundary', case, f'xy({j}) = {val}, the Code V order has {mm} here')
            elif conv in inv:
                r = _call(inv[conv], *val)
                if r != ('ok', (j,)):
                    ctx.pred_fail(f'{conv}_roundtrip', case, f'inverse of {val} gives {r[1]}, expected {j}')
            if kb % 20 == 0 and st == 'ok' and val == mm and j < 2 ** 59:
                c2 = {'j': j, 'dtype': 'int64'}
                ctx.case(f'{conv}_npint', c2, nontrivial=True, tag='int64-big')
                r = _npint_call(ctx, f'{conv}_npint', c2, fwd[conv], 'int64', j)
                if r != ('ok', mm):
                    ctx.disagree(f'{conv}_npint', c2, r[1], list(mm))
                    ctx.pred_fail(f'{conv}_npint', c2, f'{conv}(int64({j})) = {r[1]}, but {mm} for the Python int')

    # ------------------------------------------------------------ every valid (n, m), n <= 400, through the inverses
    for conv in ('ansi', 'fringe'):
        mj = list(map(int, next(rep).split()))
        g = inv[conv]
        for (n, m), jm in zip(vpairs, mj):
            case = {'n': n, 'm': m}
            ctx.case(f'{conv}_inverse', case, nontrivial=n > 0, tag=f'par{n % 2}')
            st, val = _call(g, n, m)
            if st != 'ok' or val != (jm,):
                ctx.disagree(f'{conv}_inverse', case, val if st == 'ok' else f'{st}: {val}', jm)
            if st != 'ok' or val[0] < FIRST[conv]:
                ctx.pred_fail(f'{conv}_inverse', case, f'inverse map gives {val} for the valid order ({n}, {m})')
                continue
            back = _call(fwd[conv], val[0])
            if back != ('ok', (n, m)):
                ctx.pred_fail(f'{conv}_inverse', case, f'({n}, {m}) -> {val[0]} -> {back[1]}: the forward map does not undo the inverse')
            if n <= 40:
                for kind in _NPKINDS:
                    c2 = {'n': n, 'm': m, 'dtype': kind}
                    ctx.case(f'{conv}_inverse_npint', c2, nontrivial=n > 0, tag=kind)
                    r = _npint_call(ctx, f'{conv}_inverse_npint', c2, g, kind, n, m)
                    if r != ('ok', (jm,)):
                        ctx.disagree(f'{conv}_inverse_npint', c2, r[1], jm)
                        ctx.pred_fail(f'{conv}_inverse_npint', c2, f'inverse({kind}({n}), {kind}({m})) = {r[1]}, but {jm} for Python ints')
    mj = list(map(int, next(rep).split()))
    for (n, m), jm in zip(vpairs, mj):
        case = {'n': n, 'm': m}
        ctx.case('noll_inverse', case, nontrivial=n > 0, tag=f'par{n % 2}')
        back = _call(fwd['noll'], jm)
        if back != ('ok', (n, m)):
            ctx.disagree('noll_inverse', case, back[1], [n, m])
            ctx.pred_fail('noll_inverse', {'j': jm}, f'noll({jm}) = {back[1]}; the order at n(n+1)/2 + |m| + (0|1) is ({n}, {m})')
    mj = list(map(int, next(rep).split()))
    for (a, b), jm in zip(xpairs, mj):
        case = {'m': a, 'n': b}
        ctx.case('xy_inverse', case, nontrivial=a + b > 0, tag=None)
        back = _call(fwd['xy'], jm)
        if back != ('ok', (a, b)):
            ctx.disagree('xy_inverse', case, back[1], [a, b])
            ctx.pred_fail('xy_inverse', {'j': jm}, f'xy({jm}) = {back[1]}; the monomial at d(d+1)/2 + n + 1 is x^{a} y^{b}')

    # ------------------------------------------------------------ inverse maps on narrow NumPy integer orders
    for (conv, kind), prs in npairs.items():
        mj = []
        for a in range(0, len(prs), 5000):
            mj += list(map(int, next(rep).split()))
        g = inv[conv].raw
        mk = _NARROW[kind]
        item = f'{conv}_inverse_narrow'
        nbad = 0
        for (n, m), jm in zip(prs, mj):
            st, val = _call(g, mk(n), mk(m))
            if st == 'ok' and val == (jm,):
                continue
            if _call(g, n, m) != ('ok', (jm,)):
                continue          # wrong for Python ints too: reported by the <conv>_inverse item
            nbad += 1
            if nbad <= 2:
                case = {'n': n, 'm': m, 'dtype': kind}
                got = val if st == 'ok' else f'{st}: {val}'
                ctx.disagree(item, case, got, jm)
                ctx.pred_fail(item, case, f'inverse({kind}({n}), {kind}({m})) = {got}, but {jm} for Python ints, and '
                              f'{conv}({jm}) = ({n}, {m}) (the pinned tree is right for every valid {kind} pair up to n = {NARROW_INV[conv][kind]})')
        ctx.evaluations += len(prs)
        ctx.items[item] = ctx.items.get(item, 0) + len(prs)
        ctx.hist[f'{item}:{kind}'] += len(prs)
        ctx._distinct.update(f'{item}:{kind}:{n}:{m}' for n, m in prs)

    # ------------------------------------------------------------ malformed stream: same accept / reject behaviour
    for j in (0, -1, -7):
        st, val = _call(fwd['xy'], j)
        ctx.case('xy_reject', {'j': j}, nontrivial=False)
        if st != 'raised':
            ctx.disagree('xy_reject', {'j': j}, val, 'raise (index below the first)')

    # ------------------------------------------------------------ names, pairing of the +-m terms, top_n ordering
    _names_correspondence(ctx)


# ------------------------------------------------------------------------------------------------
# session 3: the other index-convention helpers (names of the orders, pairing of the +-m terms, top_n ordering)
# ------------------------------------------------------------------------------------------------
_SUFFIX = {'X': 0, 'Y': 1, '00°': 2, '45°': 3}


def _call2(f, *args, limit=20.0):
    """('ok', raw value) | ('raised', text) | ('timeout', text)"""
    try:
        with _limit(limit):
            return 'ok', f(*args)
    except _Timeout:
        return 'timeout', f'no result within {limit} s'
    except Exception as ex:   # noqa
        return 'raised', f'{type(ex).__name__}: {ex}'


def _zk():
    import prysm.polynomials as P
    from prysm.polynomials import zernike as Z
    return P, Z


def _parse_name(Z, s):
    """exception-safe front of _parse_name0 (a module without the two tables, odd strings: None)"""
    try:
        return _parse_name0(Z, s)
    except Exception:   # noqa
        return None


def _parse_name0(Z, s):
    """real name -> (kind, ordinal, |m| of the column-name table, suffix), the structure `Model.C11.nameKey` describes;
    None when the string does not have that structure.  The two tables are read from the real module."""
    if not isinstance(s, str):
        return None
    if s == 'Piston':
        return (0, 0, 0, 4)
    if s == 'Defocus':
        return (2, 0, 0, 4)
    inv_o = {v: k for k, v in Z._names.items()}
    inv_m = {v: k for k, v in Z._names_m.items()}

    def num(w, tail):
        if w in (inv_o if tail == 'th' else inv_m):
            return (inv_o if tail == 'th' else inv_m)[w]
        if w.endswith(tail) and w[:-len(tail)].lstrip('-').isdigit():
            return int(w[:-len(tail)])
        return None
    parts = s.split(' ')
    if len(parts) == 2:
        if parts[0] == 'Tilt' and parts[1] in ('X', 'Y'):
            return (1, 0, 1, _SUFFIX[parts[1]])
        if parts[1] == 'Spherical':
            o = num(parts[0], 'th')
            return None if o is None else (3, o, 0, 4)
        return None
    if len(parts) == 3 and parts[2] in _SUFFIX:
        o, a = num(parts[0], 'th'), num(parts[1], '-foil')
        if o is None or a is None:
            return None
        return (4, o, a, _SUFFIX[parts[2]])
    return None


def _name_key(n, m):
    """python mirror of Model.C11.nameKey (search / replay only; the correspondence asks the Lean driver)"""
    if n == 0:
        return (0, 0, 0, 4)
    if n == 1:
        return (1, 0, 1, 0 if m >= 0 else 1)
    if m == 0:
        return (2, 0, 0, 4) if n == 2 else (3, n // 2 - 1, 0, 4)
    acc = (n - 1) // 2 if m % 2 == 1 else (n - abs(m)) // 2 + 1
    return (4, acc, abs(m), (0 if m % 2 == 1 else 2) + (0 if m >= 0 else 1))


def _magang_expect(lst, groups):
    """groups: [((n, a), [positions])] -> expected {(n, a): (magnitude, angle)} in order"""
    out = []
    for key, pos in groups:
        v = [lst[i][2] for i in pos]
        if len(v) == 1:
            out.append((key, (v[0], 0.0)))
        elif len(v) == 2:
            out.append((key, (math.hypot(v[0], v[1]), math.degrees(math.atan2(v[0], v[1])))))
        else:
            out.append((key, None))
    return out


def _py_groups(lst):
    d = {}
    for i, (n, m, _) in enumerate(lst):
        d.setdefault((n, abs(m)), []).append(i)
    return list(d.items())


def _magang_check2(P, lst, groups):
    """-> (fail, note).  `fail`: what follows from the property — an exception, a wrong +-m pairing (the set of (n, |m|) keys),
    a lost term (sum of magnitude^2 != sum of c^2; fewer entries in the name-keyed dict than classes).
    `note`: consumer conventions that are NOT part of the property (order of the dict, magnitude / angle convention, key strings)."""
    exp = _magang_expect(lst, groups)
    if any(e[1] is None for e in exp):
        return None, None
    note = None
    st, val = _call2(P.zernikes_to_magnitude_angle_nmkey, [tuple(x) for x in lst])
    if st != 'ok':
        return f'zernikes_to_magnitude_angle_nmkey {st}: {val}', None
    got = val
    if not isinstance(got, dict):
        return f'zernikes_to_magnitude_angle_nmkey returned {type(got).__name__}', None
    try:
        gk = [tuple(int(x) for x in k) for k in got.keys()]
        energy = sum(float(v[0]) ** 2 for v in got.values())
    except Exception as ex:   # noqa
        return f'zernikes_to_magnitude_angle_nmkey: unusable result ({type(ex).__name__}: {ex})', None
    ek = [k for k, _ in exp]
    if sorted(gk) != sorted(ek):
        only_g, only_e = sorted(set(gk) - set(ek))[:4], sorted(set(ek) - set(gk))[:4]
        return (f'+-m pairing: the result has the groups {only_g}… that are no (n, |m|) class of the input / misses the classes {only_e}… '
                f'({len(gk)} groups for {len(ek)} classes)'), None
    total = sum(float(c) ** 2 for _, _, c in lst)
    if abs(energy - total) > 1e-9 * max(1.0, total):
        return f'a term is lost or counted twice: sum of magnitude^2 over the groups = {energy!r}, sum of c^2 over the terms = {total!r}', None
    if gk != ek:
        note = 'groups are not in order of first appearance'
    else:
        for (k, (mag, ang)), v in zip(exp, got.values()):
            gm, ga = float(v[0]), float(v[1])
            if abs(gm - mag) > 1e-12 * max(1.0, abs(mag)) or abs(ga - ang) > 1e-9:
                note = f'group {k}: (magnitude, angle) = ({gm!r}, {ga!r}); the model has ({mag!r}, {ang!r}) = (hypot, degrees(atan2(first, second)))'
                break
    st, val = _call2(P.zernikes_to_magnitude_angle, [tuple(x) for x in lst])
    if st != 'ok':
        return f'zernikes_to_magnitude_angle {st}: {val}', note
    named = val
    if not isinstance(named, dict) or len(named) != len(exp):
        return (f'zernikes_to_magnitude_angle returns {len(named) if hasattr(named, "__len__") else named!r} entries for {len(exp)} (n, |m|) '
                f'classes: two classes share a key and one overwrites the other (a term is lost)'), note
    if note is None and gk == ek:
        for (k, _), (nk, nv), v in zip(exp, named.items(), got.values()):
            full = P.nm_to_name(*k)
            st_ = _parse_name(_zk()[1], full) if isinstance(full, str) else None
            want = full if (st_ is None or st_[0] in (0, 2, 3)) else ' '.join(full.split(' ')[:-1])
            try:
                same_v = (float(nv[0]), float(nv[1])) == (float(v[0]), float(v[1]))
            except Exception:   # noqa
                same_v = False
            if nk != want or not same_v:
                note = f'class {k}: entry {nk!r}: {nv}; the model has the class name without suffix, {want!r}: {v}'
                break
    return None, note


def _magang_check(P, lst, groups):
    """property-level predicate only (see _magang_check2)"""
    return _magang_check2(P, lst, groups)[0]


def _topn_check(P, lst, k):
    d = {(n, m): c for n, m, c in lst}
    st, val = _call2(P.top_n, d, k)
    if st != 'ok':
        return f'top_n {st}: {val}'
    res = list(val)
    keys, vals = list(d.keys()), list(d.values())
    order = sorted(range(len(vals)), key=lambda i: -abs(vals[i]))[:k]
    if len(res) != k:
        return f'top_n(…, {k}) returned {len(res)} entries'
    for rank, ((v, i, name), j) in enumerate(zip(res, order)):
        if int(i) != j or float(v) != float(vals[j]) or str(name) != P.nm_to_name(*keys[j]):
            return (f'entry {rank} is ({v}, {i}, {name}); the term with the {rank + 1}-largest |coefficient| is position {j}, '
                    f'{keys[j]} = {vals[j]}, {P.nm_to_name(*keys[j])}')
    return None


def _barplot_check(P, lst, sort, orientation, with_err):
    """barplot_magnitudes: one bar per (n, |m|) class, labelled with the class name, height |magnitude|; sort=True orders
    bars, labels (and error bars) by the SAME permutation, ascending magnitude.  Returns a detail string or None."""
    import matplotlib
    matplotlib.use('Agg')
    from matplotlib import pyplot as plt
    nms = [(n, m) for n, m, _ in lst]
    cs = np.array([c for _, _, c in lst])
    named = P.zernikes_to_magnitude_angle([tuple(x) for x in lst])
    exp = [(k, abs(float(v[0]))) for k, v in named.items()]
    if sort:
        exp = sorted(exp, key=lambda kv: kv[1])
    st, val = _call2(P.zernike_barplot_magnitudes, cs, nms, 0.1 * abs(cs) if with_err else None, orientation, sort)
    if st != 'ok':
        return f'barplot_magnitudes {st}: {val}'
    fig, ax = val
    try:
        if orientation == 'h':
            labels = [t.get_text() for t in ax.get_xticklabels()]
            sizes = [float(q.get_height()) for q in ax.patches]
        else:
            labels = [t.get_text() for t in ax.get_yticklabels()]
            sizes = [float(q.get_width()) for q in ax.patches]
        segs = [np.asarray(sg) for c_ in ax.collections for sg in c_.get_segments()] if with_err else []
    finally:
        plt.close(fig)
    got = list(zip(labels, sizes))
    if with_err:
        # the error of a class is the magnitude of its error-bar coefficients = 0.1 * magnitude (all coefficients scaled by 0.1)
        ax_ = 1 if orientation == 'h' else 0
        half = [abs(float(sg[1][ax_] - sg[0][ax_])) / 2 for sg in segs]
        if len(half) != len(exp):
            return f'{len(half)} error bars for {len(exp)} classes'
        for i, (hf, (el, es)) in enumerate(zip(half, exp)):
            if abs(hf - 0.1 * es) > 1e-9 * max(1.0, es):
                return f'error bar {i} ({el!r}) has half-length {hf!r}, the class has error {0.1 * es!r}: error bars are not in the order of the bars'
    if len(got) != len(exp):
        return f'{len(got)} bars for {len(exp)} classes'
    for i, ((gl, gs), (el, es)) in enumerate(zip(got, exp)):
        if gl != el or abs(gs - es) > 1e-12 * max(1.0, es):
            return f'bar {i} is ({gl!r}, {gs!r}), expected ({el!r}, {es!r})' + (' (bars and labels sorted by ascending magnitude)' if sort else '')
    return None


def _coef_lists(ctx, fwd, count):
    """coefficient lists [(n, m, c)] as users build them: the first N orders of a convention (Noll / ANSI / Fringe), natural,
    reversed or shuffled, optionally with terms dropped (unpaired +-m), a rotationally symmetric-only list, a single column"""
    rng = ctx.rng
    out = []
    for t in range(count):
        conv = ('noll', 'ansi', 'fringe')[t % 3]
        N = int(rng.integers(1, 90 if t % 7 else 400))
        js = list(range(FIRST[conv], FIRST[conv] + N))
        nms = [tuple(closed_form(conv, j)) for j in js]
        mode = ('natural', 'reversed', 'shuffled', 'dropped', 'column')[t % 5]
        if mode == 'reversed':
            nms = nms[::-1]
        elif mode == 'shuffled':
            nms = [nms[i] for i in rng.permutation(len(nms))]
        elif mode == 'dropped':
            keep = rng.random(len(nms)) < 0.6
            nms = [x for x, kp in zip(nms, keep) if kp] or nms[:1]
        elif mode == 'column':
            a = int(rng.integers(0, 9))
            nms = [x for x in nms if abs(x[1]) == a] or nms[:1]
        if t % 4 == 3:      # integer coefficients with pairwise different magnitudes (as in hand-written tables)
            cs = [int(v) * (1 if sg else -1) for v, sg in zip(rng.permutation(len(nms)) + 1, rng.random(len(nms)) < 0.5)]
            mode += '+int'
        else:
            cs = rng.standard_normal(len(nms)) + 0.05 * np.sign(rng.standard_normal(len(nms)))
            cs = [float(c) if c != 0 else 0.5 for c in cs]
        out.append((f'{conv}:{mode}', [(int(n), int(m), c) for (n, m), c in zip(nms, cs)]))
    return out


NAME_ITEMS = ('name_accessor', 'spherical_accessor', 'nm_to_name', 'magang_key', 'magang_name_rule', 'names_table', 'names_m_table')


def _names_correspondence(ctx):
    """SCOPE: the names, the magnitude/angle dict, top_n and the bar plots CONSUME the index conventions; the property does not
    say how names are spelled, numbered or ordered.  Property-level failures (red) are only: an exception on a valid order / a
    valid coefficient list, two valid orders with one name (a term of an expansion is lost where names are keys), a wrong +-m
    pairing, a lost term in zernikes_to_magnitude_angle(_nmkey).  Every other difference from the hand model (structure of the
    string, word count, ordinal scheme, order of dict / top_n / bars, angle convention) is recorded as a consumer NOTE in the
    evidence (`consumer-note:<family>` counters + notes) and never makes the run red."""
    P, Z = _zk()
    wide = getattr(ctx, 'widen_names', ctx.widen)
    NN = ctx.scale(80, 400)
    if wide:
        NN = max(NN, 200)
    pairs = [(n, m) for n in range(NN + 1) for m in range(-n, n + 1, 2)]
    lists = _coef_lists(ctx, None, ctx.scale(120, 1200) * (3 if wide else 1))      # degraded tie: three times the lists
    lines = []
    for a in range(0, len(pairs), 4000):
        lines.append('namekeys ' + ' '.join(f'{n} {m}' for n, m in pairs[a:a + 4000]))
    for _, lst in lists:
        lines.append('group ' + ' '.join(f'{n} {m}' for n, m, _ in lst))
    rep = iter(C.lean_driver('C11', lines))
    keys = []
    for a in range(0, len(pairs), 4000):
        t = list(map(int, next(rep).split()))
        keys += [tuple(t[i:i + 5]) for i in range(0, len(t), 5)]
    first_note = {}

    def note(family, text):
        ctx.hist[f'consumer-note:{family}'] += 1
        first_note.setdefault(family, text)

    # ---- names: one-to-one (property level); structure = model (consumer note)
    seen = {}
    nbad = 0
    for (n, m), key5 in zip(pairs, keys):
        key, words = key5[:4], key5[4]
        case = {'n': n, 'm': m}
        ctx.case('name', case, nontrivial=n >= 2, tag=f'kind{key[0]}' + (f'suf{key[3]}' if key[0] == 4 else ''))
        args = (n, m) if (n + m) % 3 else (np.int64(n), np.int64(m))
        st, name = _call2(P.nm_to_name, *args)
        if st != 'ok':
            if nbad < 3:
                nbad += 1
                ctx.disagree('name', case, f'{st}: {name}', 'a name')
                ctx.pred_fail('name', case, f'nm_to_name({n}, {m}) {st}: {name} (a valid order has no name)')
            continue
        got = _parse_name(Z, name)
        if got != key:
            note('name', f'nm_to_name({n}, {m}) = {name!r}: structure {got}, the hand model has (kind, ordinal, |m|, suffix) = {key}')
        elif isinstance(name, str) and len(name.split(' ')) != words:
            note('name', f'nm_to_name({n}, {m}) = {name!r} has {len(name.split(" "))} words, the hand model {words}')
        try:
            dup = name in seen
        except TypeError:
            dup = False
        if dup and nbad < 3:
            nbad += 1
            n0, m0 = seen[name]
            c2 = {'n': n, 'm': m, 'n2': n0, 'm2': m0}
            ctx.disagree('name', c2, name, 'a name of its own')
            ctx.pred_fail('name', c2, f'nm_to_name({n0}, {m0}) = nm_to_name({n}, {m}) = {name!r}: two valid orders share one name '
                          '(where names are keys — zernikes_to_magnitude_angle — one term overwrites the other)')
        if not dup:
            try:
                seen[name] = (n, m)
            except TypeError:
                pass
    # ---- pairing of the +-m terms / no lost term (property level); conventions of the consumers (notes)
    nbad = 0
    for (tag, lst) in lists:
        t = next(rep).split()
        groups = []
        i = 0
        while i < len(t):
            n_, a_, ln = int(t[i]), int(t[i + 1]), int(t[i + 2])
            groups.append(((n_, a_), [int(x) for x in t[i + 3:i + 3 + ln]]))
            i += 3 + ln
        npair = sum(1 for _, p in groups if len(p) == 2)
        ctx.case('magang', {'tag': tag, 'len': len(lst), 'first': list(lst[0]), 'c': lst[-1][2]}, nontrivial=npair > 0 and len(groups) > npair,
                 tag=tag.split(':')[1].split('+')[0] + (':int' if tag.endswith('+int') else '') + (':pairs+singles' if 0 < npair < len(groups) else ':pairs' if npair else ':singles'))
        d, nt = _magang_check2(P, lst, groups)
        if nt:
            note('magang', nt)
        if d and nbad < 2:
            nbad += 1
            small = _shrink_coefs(P, lst, lambda l: _magang_check(P, l, _py_groups(l)))
            ctx.disagree('magang', {'coefs': small}, d, 'groups of the model')
            ctx.pred_fail('magang', {'coefs': small}, _magang_check(P, small, _py_groups(small)) or d)
        # top_n ordering on the same coefficients (distinct |c| almost surely): consumer, notes only
        k = int(ctx.rng.integers(1, len(lst) + 1))
        ctx.case('top_n', {'tag': tag, 'len': len(lst), 'k': k, 'c': lst[0][2]}, nontrivial=1 < k, tag='all' if k == len(lst) else 'some')
        try:
            d = _topn_check(P, lst, k)
        except Exception as ex:   # noqa
            d = f'result of top_n not understood ({type(ex).__name__}: {ex})'
        if d:
            note('top_n', d)

    # ---- barplot_magnitudes: bars, labels and sort permutation (a few lists; matplotlib, Agg): consumer, notes only; the
    #      family is skipped (with a note) when matplotlib / its Agg backend cannot be used
    nb = ctx.scale(10, 60) * (3 if wide else 1)
    try:
        import matplotlib
        matplotlib.use('Agg')
        from matplotlib import pyplot as _plt    # noqa
        have_mpl = True
    except BaseException as ex:   # noqa  (a broken backend may raise anything)
        have_mpl = False
        ctx.notes.append(f'barplot family skipped: matplotlib / Agg backend not usable ({type(ex).__name__}: {ex})')
    for t, (tag, lst) in enumerate(lists[:nb] if have_mpl else []):
        lst = lst[:60]
        sort, orient, err = bool(t % 2), ('h', 'v')[(t // 2) % 2], bool((t // 4) % 2)
        try:
            d = _barplot_check(P, lst, sort, orient, err)
        except BaseException as ex:   # noqa
            if isinstance(ex, KeyboardInterrupt):
                raise
            ctx.notes.append(f'barplot family stopped: {type(ex).__name__}: {ex}')
            break
        ctx.case('barplot', {'tag': tag, 'len': len(lst), 'sort': sort, 'orientation': orient, 'c': lst[0][2]}, nontrivial=len(lst) > 2,
                 tag=('sorted' if sort else 'unsorted') + ':' + orient + (':err' if err else ''))
        if d:
            note('barplot', d)
    for fam, text in first_note.items():
        ctx.notes.append(f'consumer layer ({fam}), not part of the property — {ctx.hist[f"consumer-note:{fam}"]} difference(s) from the hand '
                         f'model, recorded only; first: {text}')


def _shrink_coefs(P, lst, fails):
    """greedy removal of terms while the predicate still fails"""
    cur = [list(x) for x in lst]
    changed = True
    while changed and len(cur) > 1:
        changed = False
        for i in range(len(cur) - 1, -1, -1):
            if len(cur) <= 1:
                break
            trial = cur[:i] + cur[i + 1:]
            try:
                bad = fails([tuple(x) for x in trial])
            except Exception:
                bad = None
            if bad:
                cur = trial
                changed = True
    return cur


def _names_search(ctx):
    """property-level predicates of the name layer only: an exception on a valid order, two valid orders with one name, wrong
    pairing / lost term in zernikes_to_magnitude_angle(_nmkey)"""
    P, Z = _zk()
    seen = {}
    for n in range(0, ctx.scale(60, 120)):
        for m in range(-n, n + 1, 2):
            st, name = _call2(P.nm_to_name, n, m)
            if st != 'ok':
                return {'item': 'name', 'input': {'n': n, 'm': m}, 'detail': f'nm_to_name({n}, {m}) {st}: {name}'}
            try:
                if name in seen:
                    n0, m0 = seen[name]
                    return {'item': 'name', 'input': {'n': n, 'm': m, 'n2': n0, 'm2': m0},
                            'detail': f'nm_to_name({n0}, {m0}) = nm_to_name({n}, {m}) = {name!r}: two valid orders share one name'}
                seen[name] = (n, m)
            except TypeError:
                pass
    for tag, lst in _coef_lists(ctx, None, 60):
        d = _magang_check(P, lst, _py_groups(lst))
        if d:
            small = _shrink_coefs(P, lst, lambda l: _magang_check(P, l, _py_groups(l)))
            return {'item': 'magang', 'input': {'coefs': small}, 'detail': _magang_check(P, small, _py_groups(small)) or d}
    return None


def _names_replay(item, c):
    P, Z = _zk()
    if item == 'name':
        n, m = c['n'], c['m']
        st, val = _call2(P.nm_to_name, n, m)
        name = val
        print(f'nm_to_name({n}, {m}) -> {st} {name!r}; structure {_parse_name(Z, name) if st == "ok" else None}, the hand model has {_name_key(n, m)} '
              '(a different spelling / scheme is not a violation; an exception or a shared name is)')
        bad = st != 'ok'
        if 'n2' in c:
            other = _call2(P.nm_to_name, c['n2'], c['m2'])
            print(f'nm_to_name({c["n2"]}, {c["m2"]}) -> {other}')
            bad = bad or (other[0] == 'ok' and other[1] == val)
        return bad
    lst = [tuple(x) for x in c['coefs']]
    if item == 'magang':
        print('zernikes_to_magnitude_angle_nmkey ->', _call2(P.zernikes_to_magnitude_angle_nmkey, lst))
        print('zernikes_to_magnitude_angle       ->', _call2(P.zernikes_to_magnitude_angle, lst))
        d = _magang_check(P, lst, _py_groups(lst))
        print('predicate:', d or 'holds')
        return bool(d)
    if item == 'barplot':
        d = _barplot_check(P, lst, c['sort'], c['orientation'], c['errorbars'])
        print(f"barplot_magnitudes(sort={c['sort']}, orientation={c['orientation']!r}) on {lst}")
        print('predicate:', d or 'holds')
        return bool(d)
    if item == 'top_n':
        print('top_n ->', _call2(P.top_n, {(n, m): v for n, m, v in lst}, c['k']))
        d = _topn_check(P, lst, c['k'])
        print('predicate:', d or 'holds')
        return bool(d)
    return False


# ------------------------------------------------------------------------------------------------
# search: the property's predicates on the real code, smallest failing input first
# ------------------------------------------------------------------------------------------------
def _first_failure(conv, f, g, hi):
    """smallest index in [first, hi] at which a predicate of the property fails; None if none"""
    seen = {}
    prev_n = -1
    lo = FIRST[conv]
    for j in range(lo, hi + 1):
        st, val = _call(f, j, limit=10.0)
        if st != 'ok' or len(val) != 2:
            return j, f'{conv}({j}) {st}: {val}'
        n, m = val
        if conv == 'xy':
            if n < 0 or m < 0:
                return j, f'xy({j}) = {val}: negative exponent'
            d = n + m
            if j != tri(d) + m + 1:
                return j, f'xy({j}) = {val}: j != d(d+1)/2 + n + 1 with d = m + n (Code V order)'
        else:
            if not valid(n, m):
                return j, f'{conv}({j}) = {val}: not a valid order'
        if val in seen:
            return j, f'{conv}({j}) = {conv}({seen[val]}) = {val}: not one-to-one'
        seen[val] = j
        if conv == 'noll':
            if n < prev_n:
                return j, f'noll({j}) has n = {n} after n = {prev_n}: radial order decreases'
            prev_n = n
            if m != 0 and ((j % 2 == 0) != (m > 0)):
                return j, f'noll({j}) = {val}: even index <-> cosine term violated'
        if conv == 'ansi' and 2 * j != n * (n + 2) + m:
            return j, f'ansi({j}) = {val}: j != (n(n+2)+m)/2'
        if g is not None:
            r = _call(g, n, m)
            if r != ('ok', (j,)):
                return j, f'inverse of {conv}({j}) = {val} gives {r[1]}'
    # onto (below the bound)
    bad = _array_predicates(None, conv, lo, np.array([k for k, _ in sorted(seen.items(), key=lambda kv: kv[1])], dtype=np.int64))
    for j, detail in bad:
        if 'not onto' in detail:
            return j, detail
    return None


def search(ctx, hints):
    fwd, inv = _impl()
    _DEAD.clear()
    # corpus / hints first
    for pf in hints.get('pred_failures', []):
        c = pf['case']
        if 'j' in c or pf['item'] in ('name', 'magang'):
            return {'item': pf['item'], 'input': c, 'detail': pf['detail']}
    best = None
    for conv in CONVS:
        r = _first_failure(conv, fwd[conv], inv.get(conv), ctx.scale(3000, 20000))
        if r and (best is None or r[0] < best[1]['j']):
            best = (conv, {'j': r[0]}, r[1])
    if best:
        return {'item': best[0], 'input': best[1], 'detail': best[2]}
    # order independence (small scope, exact rule as the oracle): a history-dependent answer is a failing input
    for conv in CONVS:
        seq = _order_sequence(ctx, conv, 20000, wide=True)
        n0 = len(ctx.pred_failures)
        if not _order_check(ctx, conv, fwd[conv], seq, [closed_form(conv, j) for j in seq], f'{conv}_order'):
            pf = ctx.pred_failures[n0]
            del ctx.pred_failures[n0:]
            ctx.disagreements.pop()
            return {'item': pf['item'], 'input': pf['case'], 'detail': pf['detail']}
    r = _names_search(ctx)
    if r:
        return r
    # valid pairs through the real inverses
    for conv in ('ansi', 'fringe'):
        for n in range(0, 60):
            for m in range(-n, n + 1, 2):
                st, val = _call(inv[conv], n, m)
                ok = st == 'ok' and val[0] >= FIRST[conv] and _call(fwd[conv], val[0]) == ('ok', (n, m))
                if not ok:
                    return {'item': f'{conv}_inverse', 'input': {'n': n, 'm': m},
                            'detail': f'inverse map gives {val} for ({n}, {m}) and the forward map does not return the pair'}
    # seeded random large indices, against the exact integer rule
    for conv in ('ansi', 'fringe'):
        for j in [int(x) for x in ctx.rng.integers(10 ** 6, 2 ** 40, size=400)]:
            st, val = _call(fwd[conv], j)
            if st != 'ok' or not valid(*val) or _call(inv[conv], *val) != ('ok', (j,)):
                return {'item': conv, 'input': {'j': j}, 'detail': f'{conv}({j}) = {val}: invalid or does not round-trip'}
    return None


def replay(inp):
    fwd, inv = _impl()
    _DEAD.clear()
    item, c = inp['item'], inp['input']
    conv = item.split('_')[0]
    print('replaying', item, {k: v for k, v in c.items() if k != 'sequence'})
    if item in ('name', 'magang', 'top_n', 'barplot'):
        return _names_replay(item, c)
    if 'dtype' in c:
        r = _raw()
        kinds = {**_NPKINDS, **_NARROW}
        if 'j' in c:
            j = c['j']
            x = kinds[c['dtype']](j)
            got = _call(r[conv], x)
            rule = closed_form(conv, j)
            print(f'{conv}({c["dtype"]}({j})) -> {got}; {conv}({j}) on a Python int -> {_call(r[conv], j)}; the convention has {rule}')
            return got != ('ok', tuple(rule))
        n, m = c['n'], c['m']
        got = _call(r['inv_' + conv], kinds[c['dtype']](n), kinds[c['dtype']](m))
        ref = _call(r['inv_' + conv], n, m)
        back = _call(r[conv], got[1][0]) if got[0] == 'ok' else None
        print(f'inverse({c["dtype"]}({n}), {c["dtype"]}({m})) -> {got}; on Python ints -> {ref}; forward of it -> {back}')
        return back != ('ok', (n, m))
    if 'sequence' in c:
        # a call SEQUENCE: executed in order on the real functions of this (fresh) process; the last call is the witness
        seq = c['sequence']
        show = seq if len(seq) <= 12 else seq[:3] + [['…', len(seq) - 9, 'more calls']] + seq[-6:]
        print('call sequence:', show)
        r = _raw()
        last = None
        for k, e in enumerate(seq):
            if e[0] == 'range':
                last = _run_history([e])
                print(f'  {e[1]}(j) for j in [{e[2]}, {e[3]}) -> last {last}')
            else:
                last = _call(r[e[0]], *e[1:], limit=10.0)
                if k >= len(seq) - 8:
                    print(f'  {e[0]}{tuple(e[1:])} -> {last[1]}')
        j = c['j']
        rule = closed_form(conv, j)
        print(f'last call {conv}({j}) -> {last}; the convention has {rule} at this index (recorded expectation {tuple(c["expected"])})')
        return last != ('ok', tuple(rule))
    if 'j' in c:
        j = c['j']
        if conv == 'xy' and j < 1:
            st, val = _call(fwd['xy'], j)
            print(f'xy_j_to_mn({j}) ->', st, val)
            return st != 'raised'
        r = _first_failure(conv, fwd[conv], inv.get(conv), min(j, 200000)) if j <= 200000 else None
        if r is not None:
            print(f'first failing index <= {j}: {r[0]}: {r[1]}')
            return True
        st, val = _call(fwd[conv], j, limit=60.0)
        print(f'{conv}({j}) ->', st, val)
        if st != 'ok' or len(val) != 2:
            return True
        if conv == 'xy':
            d = val[0] + val[1]
            ok = val[0] >= 0 and val[1] >= 0 and j == tri(d) + val[1] + 1
        else:
            ok = valid(*val)
            if conv in inv:
                back = _call(inv[conv], *val)
                print('inverse ->', back)
                ok = ok and back == ('ok', (j,))
            if conv == 'ansi':
                ok = ok and 2 * j == val[0] * (val[0] + 2) + val[1]
            if conv == 'noll':
                n, m = val
                p = j - tri(n) - 1
                am = (2 * ((p + 1) // 2)) if n % 2 == 0 else (2 * (p // 2) + 1)
                ok = ok and 0 <= p <= n and abs(m) == am and (m == 0 or ((j % 2 == 0) == (m > 0)))
        return not ok
    if 'n' in c and conv in inv:
        n, m = c['n'], c['m']
        st, val = _call(inv[conv], n, m)
        print(f'inverse({n}, {m}) ->', st, val)
        if st != 'ok' or val[0] < FIRST[conv]:
            return True
        back = _call(fwd[conv], val[0])
        print(f'{conv}({val[0]}) ->', back)
        return back != ('ok', (n, m))
    print('no replay routine for item', item)
    return False


MANIFEST_ENTRY = {
    'technique': ('Lean 4 proof over whole-function translations of the index maps (Nat.sqrt arithmetic, list and loop '
                  'semantics, correctly-rounded-sqrt lemma) + exhaustive integer-exact correspondence with the real functions'),
    'text': ('Machine-checked, for EVERY index and EVERY valid pair of the exact-arithmetic reading (no bound): ansi_j_to_nm / '
             'fringe_to_nm / noll_to_nm map the indices j>=0 / j>=1 / j>=1 one-to-one onto exactly the pairs with n>=|m|, n-|m| '
             'even, and xy_j_to_mn maps j>=1 one-to-one onto the non-negative exponent pairs (Set.BijOn, via explicit inverses); '
             'nm_to_ansi_j and nm_to_fringe undo the forward maps for every index and vice versa on every valid pair; ANSI rule '
             '2j = n(n+2)+m; Noll radial order non-decreasing and, for m != 0, even index <-> m > 0; XY closed form (d-p, p). The '
             'subjects of these theorems are re-translated from the current source on every run: the complete bodies of the six '
             'functions plus mathops.sign / is_odd, including the list noll_to_nm builds and indexes with a negative index '
             '(proved in range: no IndexError) and the three while loops of xy_j_to_mn (fuel-bounded recursion; proved that the '
             'fuel j never runs out); the translated obligations are proved semantically (outermost operator matched, arguments '
             'by ring/omega), so reordered summands, a conditional instead of (1+sign m)/2, // for int(/) etc. do not alarm. '
             'NAMES / PAIRING (session 3): also re-translated every run: _name_accessor (whole body), the spherical ordinal of nm_to_name, '
             'nm_to_name + _name_helper as a whole with every string replaced by its structure code (kind, ordinal, column word, suffix), the '
             'grouping key of zernikes_to_magnitude_angle_nmkey, the whole-name / strip-last-word rule of zernikes_to_magnitude_angle, and the tables '
             '_names / _names_m; proved for every valid order: nm_to_name '
             'returns (never raises) the structure of the model (gen_nameKey), that structure is one-to-one on the valid orders '
             '(name_injective, name_key_injective; the ordinal of a column is (n-|m|)/2+1 for even m, (n-1)/2 for odd m), table keys and '
             'words pairwise different; two coefficients are grouped exactly when they are the +m / -m terms of one (n,|m|) '
             '(magang_pairs_exactly_pm), a list naming each order once has groups of at most two (no 3-argument arctan2), the grouping '
             'specification partitions the positions (magang_grouping_partition), the dict keys of zernikes_to_magnitude_angle are one-to-one on '
             'the classes at structure level (gen_keepsWholeName + magang_name_keys_injective), suffix X/00 <-> m>0 and Noll even index <-> '
             'cosine NAME (name_suffix_iff_cosine, noll_even_iff_cosine_name). '
             'SCOPE GUARD: names, the magnitude/angle dict, top_n and the bar plots are CONSUMERS of the conventions, not part of the statement. '
             'Every name-layer translator item is first executed on a grid of valid orders (n<=40); when the source follows another naming '
             'scheme / spelling / key rule than the hand model the item is untranslatable (TIE-DEGRADED, name families widened, index sweeps not) '
             'and its theorems speak about the hand model only. RED at the name layer is only what follows from the statement: an exception on '
             'a valid order / list, two valid orders with ONE name (terms collapse where names are keys), a wrong +-m grouping (set of (n,|m|) keys), '
             'a lost term (sum of magnitude^2 != sum of c^2, or fewer named entries than classes). String structure, word count, ordinal scheme, '
             'X/Y or degree glyph, order of dict / top_n / bars, angle convention are recorded as consumer notes in the evidence and never make '
             'the run red; the barplot family is skipped with a note when matplotlib/Agg is unusable. Wall-clock guards are CPU-time limits '
             '(a stalled machine is not a non-terminating map). '
             'Compared only: that the real strings have that structure and are pairwise different (all valid n<=80/400), magnitude = hypot, '
             'angle = degrees(atan2(first, second)), order of groups = first appearance, zernikes_to_magnitude_angle loses no class, '
             'top_n returns the k largest |c| in descending order with matching position and name; barplot_magnitudes draws one bar per class, label and height '
             'from the same class, sort=True permutes bars and labels together (ascending). '
             'The floating-point idioms ceil(sqrt(D)) and ceil((A+sqrt(D))/2) are read as exact integers; proved: that reading is '
             'the real-number ceiling (ceil_sqrt_exact, ceil_half_sqrt_exact) AND, for any rounding fl with relative error <= 2^-53, '
             'monotone, exact on integers <= 2^26 (the IEEE binary64 round-to-nearest contract), ceil(fl(sqrt D)) = ceil(sqrt D) '
             'for every D < 2^52 (float_ceil_sqrt_exact; ansi/noll/fringe_float_formula state it for the generated maps; sharp: '
             'false at 2^52+1). Assumed, and validated by execution: np.sqrt honours that contract and the integer-valued double '
             'arithmetic around it (-3+y, /2, squares, floor, mod) is exact. Compared only (integer-exact, model vs the functions '
             'imported through prysm.polynomials.<name>): every index up to 10^5 (quick) / 10^6 (thorough) in all four conventions; '
             'k^2-1,k^2,k^2+1 / triangular numbers +-1 and log-uniform random indices with square-root arguments up to just below '
             '2^52 (Noll / XY up to the rows their O(sqrt j) list / loops reach); every valid (n,m), n<=400, through the inverse '
             'maps; NumPy integer inputs (np.int64, np.int32 scalars, 0-d arrays; inverse maps too); narrow NumPy integers (int8, '
             'uint8, int16, uint16) on EVERY argument of the range where the pinned tree is right (table NARROW_FWD / NARROW_INV in '
             'harness/c11.py, e.g. fringe_to_nm all of the type, nm_to_fringe int16 up to n+|m| = 32766; beyond it the pinned '
             'tree itself overflows, documented outside the property); order independence '
             '(non-ascending call sequences before and after the sweeps, replay carries the call sequence). The property '
             'predicates are evaluated directly on the real outputs as well. When a translator item is untranslatable (module '
             'state, unknown construct, keyword on sqrt/ceil, decorator, extra parameters, re-bound public name) the run prints '
             'TIE-DEGRADED, the gen_* obligation of that item is vacuous, and execution is widened: sweep to 2*10^5, Noll rows '
             'to 5*10^6 and XY rows to 3*10^6, 5x more random large indices, 60x60 ordered pairs.'),
    'note': ('Trusted: Lean kernel (+propext, Classical.choice, Quot.sound); the ast->Lean compiler in tools/gen_c11.py for the '
             'Python subset used (ints, exact rationals, lists, for/while/if) - validated each run by model-vs-code execution; '
             'IEEE-754 conformance of np.sqrt / np.ceil and exactness of the small-integer double arithmetic (validated by the '
             'sweeps). Out of scope: indices with sqrt argument >= 2^52 (first Fringe failure j=2^52+1); fixed-width NumPy '
             'integers narrower than the arithmetic needs (8*idx overflows for uint8 from j=32, int16 from j=4096, int32 from '
             'j=2^28: observed, outside the stated quantifier, not fixed); the string layer of nm_to_name (f-string layout, that different structure codes print differently) '
             'is compared, not proved; top_n with ties in |c| or k > len (unspecified / raises); barplot (plain) not covered; barplot_magnitudes only for bar / label order (matplotlib Agg, a few lists). With a degraded tie a defect that '
             'only shows beyond Noll row 5*10^6 / XY row 3*10^6 would pass.'),
}
