"""C02 — propagators conserve energy and invert each other.

correspondence: the Lean model (Drivers/C02.lean: padded FFT route, pad2d, unfocus∘focus, band-complete dft2/idft2 and
czt2/iczt2 round trips, angular-spectrum transfer function and operator) against the real prysm functions; the property
predicates (energy out == energy in, round trip == input, A_0 = id, A_-z A_z = id, A_z1 A_z2 = A_(z1+z2)) are
evaluated on the real outputs of every case.
"""
import itertools
import os
import numpy as np
from harness import common as C
from harness import c01 as H1

RULE = ('Every case evaluates the property predicate on the real code; the Lean model comparison runs on all cases in the thorough / '
        'widened tiers and on a sample in quick (the fixed near-symmetric block always; 60-70% of small, 25-30% of larger random cases).  '
        'FFT cases: every shape in {1..9}^2 (all parity pairs, square and not) plus a few up to 24x17, Q in {1,2,3,1.5,2.37,1.2}, '
        'complex (70%) / real input, float64 (85%) / float32 configuration: energy of focus/unfocus/pad2d, unfocus(focus)=id, '
        'focus(unfocus)=id, unfocus(focus(f,Q),1)=pad2d(f,Q) and its dual, focus(f,Q)=focus(pad2d(f,Q),1), Wavefront.focus (given and DEFAULT Q) / unfocus incl. space and dx '
        'round trip; band-complete cases: (m,Qy) and (n,Qx) drawn from all pairs with m*Q integer, '
        'Q in {1,1.5,2,2.5,3,4/3,5/3,1.25}, shifts from {0,+-1,+-2.5,(1.5,-2.25)}, input dtype from {complex128, float64, complex64, '
        'float32, int64, bool}, memory layouts C/F/transposed/strided/negative-stride/read-only, arguments as tuple/list/ndarray/'
        'generator/one-shot iterator/NumPy scalars: energy of the forward AND of the inverse transform of the caller\'s array, '
        'idft2(dft2 f)=f and dft2(idft2 f)=f (same for czt2/iczt2), iczt2(f)=idft2(f), the same round trips through '
        'focus_fixed_sampling/unfocus_fixed_sampling when M=N, input array unmodified; a near-symmetric block; '
        'free-space cases: shapes as above, wavelength in [0.4,2] um (= lambda/1000 mm), dx (mm) log-uniform within one of four '
        'regimes relative to the wavelength: sub-wavelength lambda/40..lambda/2 (30%, the sampled band reaches beyond 1/lambda), '
        'lambda/2..4 lambda (15%), ordinary 0.01..1 mm (40%), coarse 1..200 mm (15%); z of both signs, zero (12%), well conditioned '
        '(largest phase on the band 0.01..300 rad) or large (300..1e6 rad); Q in {1,1.5,2,3} and the function DEFAULT (Q=2); samples '
        'given as tuple/list/int/np.int64: |H| = 1 at every sample of the transfer '
        'function, energy, identity at z=0, inverse at -z, additivity in z (tolerance widened by 16 eps x largest phase), '
        'the precomputed tf= branch of angular_spectrum and of Wavefront.free_space (with nonsense for the clobbered arguments), '
        'Wavefront.free_space(dz, Q) incl. the returned object and a +z / -z chain; wvl, dx, z (and Q of focus, the scalars of the '
        'fixed-sampling calls) also as 0-d / one-element ndarrays REUSED across the calls of a case: unchanged afterwards, repeated '
        'call repeats its answer; the literal "A_0 f == f" is evaluated for every Q and is filtered as '
        'the known finding asp-pads-never-crops exactly when the output equals pad2d(f, Q). '
        'Non-trivial = not 1x1; distinct = distinct (item, input) tuples')
ASSUMPTIONS = ['scipy.fft.fft2/ifft2 compute the iterated 1-D DFT sums (1/(MN) on the inverse, 1/sqrt(MN) with norm=ortho); '
               'fftfreq(n,d)[k] = (k if k < (n+1)//2 else k-n)/(n d) (modelled; compared every run)',
               'energies compared at 1e-10 relative (float64) / 2e-4 (float32); arrays at 1e-9 / 5e-5 times max(1,|x|max)']

ETOL64, ETOL32 = 1e-10, 2e-4
TOL64, TOL32 = 1e-9, 5e-5


def _impl():
    from prysm import fttools, propagation
    from prysm.conf import config
    return fttools, propagation, config


def energy(a):
    a = np.asarray(a)
    return float((np.abs(a.astype(complex)) ** 2).sum())


def eclose(a, b, tol):
    return abs(a - b) <= tol * max(abs(b), 1e-300), abs(a - b) / max(abs(b), 1e-300)


def tols(c):
    low = c.get('precision', 64) == 32 or c.get('dtype') in ('complex64', 'float32')
    if not low:
        return (ETOL64, TOL64)
    sizes = [int(np.ceil(x * (c['Q'] if isinstance(c.get('Q'), (int, float)) else 2))) for x in c.get('shape', [1])] \
        + list(c.get('samples', []))
    # single precision: array tolerance grows with the axis length and with the largest chirp phase (see harness/c01.py)
    return (ETOL32, max(H1.tol32(max(sizes)), 8 * 1.2e-7 * H1.phase_max(c)))


arr2w, w2arr, close = H1.arr2w, H1.w2arr, H1.close


def driver(lines):
    """Drivers/C02.lean, in parallel chunks"""
    if not lines:
        return []
    import subprocess
    import threading
    nproc = max(1, min(10, (os.cpu_count() or 4) // 2, len(lines) // 8 + 1))
    order = sorted(range(len(lines)), key=lambda i: -len(lines[i]))
    buckets = [[] for _ in range(nproc)]
    for r, i in enumerate(order):
        buckets[r % nproc].append(i)
    out = [None] * len(lines)
    errs = []

    def work(b, tag):
        if not b:
            return
        os.makedirs(C.WORK, exist_ok=True)
        inp = os.path.join(C.WORK, f'C02.{os.getpid()}.{tag}.in')
        with open(inp, 'w') as f:
            f.write('\n'.join(lines[i] for i in b) + '\n')
        try:
            with open(inp) as fin:
                p = subprocess.run(['lake', 'env', 'lean', '--run', 'Drivers/C02.lean'], cwd=C.LEAN, stdin=fin,
                                   stdout=subprocess.PIPE, stderr=subprocess.STDOUT, text=True, timeout=3000)
            rows = p.stdout.split('\n')
            if rows and rows[-1] == '':
                rows.pop()
            if p.returncode != 0 or len(rows) != len(b):
                errs.append(f'driver C02 chunk {tag}: rc={p.returncode}, {len(rows)} replies for {len(b)} requests\n{p.stdout[-1500:]}')
                return
            for i, r in zip(b, rows):
                out[i] = r
        except subprocess.TimeoutExpired:
            errs.append(f'driver C02 chunk {tag}: timeout')
        finally:
            os.unlink(inp)
    ths = [threading.Thread(target=work, args=(b, t)) for t, b in enumerate(buckets)]
    for t in ths:
        t.start()
    for t in ths:
        t.join()
    if errs:
        raise C.ToolError(errs[0])
    return out


def make_input(shape, dtype, seed, layout=None):
    return H1.make_input(tuple(shape), dtype, seed, layout)


DTYPE_FAMILY = ['complex128', 'float64', 'complex64', 'float32', 'int64', 'bool']


def gen_dtype(r, p=(0.4, 0.25, 0.1, 0.1, 0.08, 0.07)):
    """every dtype family at every entry point: complex AND real (float64/float32/int/bool) fields"""
    return DTYPE_FAMILY[int(r.choice(6, p=list(p)))]


def unchanged(f, c):
    """the implementation must not write to the caller's array"""
    return np.array_equal(f, H1.make_input(tuple(c['shape']), c['dtype'], c['seed']))


# ------------------------------------------------------------------------------------------------
# predicates on the real code (shared by correspondence, search, replay); each returns (ok, detail, extras)
# ------------------------------------------------------------------------------------------------
def pred_fft(c, verbose=False):
    """focus / unfocus: energy with padding, mutual inverse; pad2d energy"""
    ft, pr, config = _impl()
    et, at = tols(c)
    f = make_input(c['shape'], c['dtype'], c['seed'], c.get('layout'))
    config.precision = c.get('precision', 64)
    try:
        Q = c['Q']
        if c.get('scalar_form') == '0d':
            Q = np.array(float(Q))           # the same 0-d array object handed to every call below
        E0 = energy(f)
        out = {}
        try:
            foc = pr.focus(f, Q)
            unf = pr.unfocus(f, Q)
            pad = ft.pad2d(f, Q=Q) if Q != 1 else f
            if float(Q) != float(c['Q']) or not np.array_equal(foc, pr.focus(f, Q)):
                return False, 'focus / unfocus / pad2d modified Q in place, or a second focus call with the same objects differs', {}
        except Exception as ex:
            return False, f'raised {type(ex).__name__}: {str(ex)[:160]}', {}
        for nm, a in (('focus', foc), ('unfocus', unf), ('pad2d', pad)):
            ok, rel = eclose(energy(a), E0, et)
            if verbose:
                print(f'  energy({nm}(f, Q={Q})) / energy(f) - 1 = {energy(a) / E0 - 1:.3g}')
            if not ok:
                return False, f'{nm} changes the energy by a factor {energy(a) / E0:.12g} (shape {c["shape"]}, Q={Q})', {}
        if not unchanged(f, c):
            return False, 'focus / unfocus / pad2d modified the input array in place', {}
        back = pr.unfocus(pr.focus(f, 1), 1)
        ok, err = close(back, f, at)
        if verbose:
            print(f'  max |unfocus(focus(f)) - f| = {err:.3g}')
        if not ok:
            return False, f'unfocus(focus(f,1),1) != f: max err {err:.3g}', {}
        back = pr.focus(pr.unfocus(f, 1), 1)
        ok, err = close(back, f, at)
        if not ok:
            return False, f'focus(unfocus(f,1),1) != f: max err {err:.3g}', {}
        if Q != 1:
            back = pr.unfocus(foc, 1)
            ok, err = close(back, pad, at)
            if not ok:
                return False, f'unfocus(focus(f,Q),1) != pad2d(f,Q): max err {err:.3g}', {}
            back = pr.focus(unf, 1)
            ok, err = close(back, pad, at)
            if not ok:
                return False, f'focus(unfocus(f,Q),1) != pad2d(f,Q): max err {err:.3g}', {}
            # theorem focus_is_focus_of_pad: the padded route is the unpadded route applied to the padded array
            for nm, fn_, a in (('focus', pr.focus, foc), ('unfocus', pr.unfocus, unf)):
                ok, err = close(fn_(pad, 1), a, at)
                if not ok:
                    return False, f'{nm}(f,Q) != {nm}(pad2d(f,Q),1): max err {err:.3g}', {}
        # the Wavefront methods: energy, spaces, and the sample spacing must come back after unfocus(focus(.))
        try:
            efl, wvl_, dx_ = 123.4, 0.55, 0.731
            wf = pr.Wavefront(np.asarray(f, dtype=complex), wvl_, dx_, space='pupil')
            wq = wf.focus(efl, Q=Q)
            w1 = wf.focus(efl, Q=1)
            wb = w1.unfocus(efl, Q=1)
            wd = wf.focus(efl)                     # default Q (= 2)
        except Exception as ex:
            return False, f'Wavefront.focus/unfocus raised {type(ex).__name__}: {str(ex)[:160]}', {}
        ok, rel = eclose(energy(wq.data), E0, et)
        if not ok or wq.space != 'psf' or wq.data.shape != foc.shape:
            return False, f'Wavefront.focus(Q={Q}): energy ratio {energy(wq.data) / E0:.12g}, space {wq.space!r}, shape {wq.data.shape}', {}
        ok, rel = eclose(energy(wd.data), E0, et)
        if not ok:
            return False, f'Wavefront.focus() with its default Q changes the energy by a factor {energy(wd.data) / E0:.12g}', {}
        ok, err = close(wb.data, np.asarray(f, dtype=complex), at)
        if verbose:
            print(f'  Wavefront: max |unfocus(focus(wf)) - wf| = {err:.3g}; dx {dx_} -> {_sc(w1.dx):.6g} -> {_sc(wb.dx):.6g}')
        if not ok or wb.space != 'pupil' or abs(wb.dx - dx_) > 1e-12 * dx_ or wb.wavelength != wvl_:
            return False, (f'Wavefront.unfocus(Wavefront.focus(wf, Q=1), Q=1) != wf: max err {err:.3g}, space {wb.space!r}, '
                           f'dx {wb.dx!r} (was {dx_})'), {}
        return True, '', {'focus': foc, 'unfocus': unf, 'pad': pad}
    finally:
        config.precision = 64


def pred_band(c, verbose=False):
    """dft2/idft2 and czt2/iczt2 onto the full band and back, IN BOTH ORDERS (forward then inverse, and inverse then forward: the
    second hands the caller's own - possibly real-dtype - array to the inverse transform), the two engines against each other on
    the same array, and the same two round trips through focus_fixed_sampling / unfocus_fixed_sampling"""
    ft, pr, config = _impl()
    et, at = tols(c)
    m, n = c['shape']
    M, N = c['samples']
    Q = (c['Q'][0], c['Q'][1])
    shift = tuple(c['shift'])
    forms = c.get('forms')
    f = make_input((m, n), c['dtype'], c['seed'], c.get('layout'))
    config.precision = c.get('precision', 64)

    def call(fn, a, q, mn, sh):
        q, mn, sh = H1.apply_forms(q, mn, sh, forms)
        return fn(a, q, mn, sh)
    try:
        res = {}
        for meth, fwd, inv in (('mdft', ft.mdft.dft2, ft.mdft.idft2), ('czt', ft.czt.czt2, ft.czt.iczt2)):
            try:
                F = call(fwd, f, Q, (M, N), shift)
                back = call(inv, F, (1, 1), (m, n), shift)
                G = call(inv, f, Q, (M, N), shift)              # the inverse transform of the caller's own array
                back2 = call(fwd, G, (1, 1), (m, n), shift)
            except Exception as ex:
                return False, f'{meth} raised {type(ex).__name__}: {str(ex)[:160]}', {}
            if not unchanged(f, c):
                return False, f'{meth} modified the input array in place', {}
            if verbose:
                print(f'  {meth}: energy ratio - 1 = {energy(F) / energy(f) - 1:.3g} (forward), {energy(G) / energy(f) - 1:.3g} (inverse); '
                      f'max |inverse(forward(f)) - f| = {float(np.abs(back - f).max()):.3g}; '
                      f'max |forward(inverse(f)) - f| = {float(np.abs(back2 - f).max()):.3g}')
            for nm, X in (('forward', F), ('inverse', G)):
                ok, rel = eclose(energy(X), energy(f), et)
                if not ok:
                    return False, f'{meth}: {nm} transform onto the full band changes the energy by {energy(X) / energy(f):.12g}', {}
            ok, err = close(back, f, at)
            if not ok:
                return False, f'{meth}: inverse(forward(f)) != f on the band-complete grid: max err {err:.3g}', {}
            ok, err = close(back2, f, at)
            if not ok:
                return False, (f'{meth}: forward(inverse(f)) != f on the band-complete grid ({c["dtype"]} input handed to the '
                               f'inverse transform): max err {err:.3g}'), {}
            res[meth] = (F, back, G)
        # the inverse of the SAME array by the two engines (model: iczt2 == idft2 sample for sample)
        ok, err = close(res['czt'][2], res['mdft'][2], at)
        if not ok:
            return False, f'iczt2(f) != idft2(f) for the same {c["dtype"]} array: max err {err:.3g}', {}
        # the same round trips through the fixed-sampling entry points.  One output spacing serves both axes, and the full band
        # has lambda f/(dx_in dx_out) samples on EITHER axis, so this applies when M == N (any m, n <= M)
        if M == N:
            dx_in, efl, wvl = 0.731, 123.4, 0.55
            dx_out = wvl * efl / (dx_in * M)
            if c['seed'] % 3 == 0:           # the scalars as 0-d arrays, the same objects for all eight calls
                dx_in, efl, wvl, dx_out = (np.array(v) for v in (dx_in, efl, wvl, dx_out))
            scal0 = tuple(float(v) for v in (dx_in, efl, wvl, dx_out))
            sh_out = (shift[0] * dx_out, shift[1] * dx_out)
            sh_in = (shift[0] * dx_in, shift[1] * dx_in)
            for method in ('mdft', 'czt'):
                try:
                    U = pr.unfocus_fixed_sampling(f, dx_in, efl, wvl, dx_out, (M, N), shift=sh_out, method=method)
                    b3 = pr.focus_fixed_sampling(U, dx_out, efl, wvl, dx_in, (m, n), shift=sh_in, method=method)
                    V = pr.focus_fixed_sampling(f, dx_in, efl, wvl, dx_out, (M, N), shift=sh_out, method=method)
                    b4 = pr.unfocus_fixed_sampling(V, dx_out, efl, wvl, dx_in, (m, n), shift=sh_in, method=method)
                except Exception as ex:
                    return False, f'fixed-sampling round trip ({method}) raised {type(ex).__name__}: {str(ex)[:140]}', {}
                if tuple(float(v) for v in (dx_in, efl, wvl, dx_out)) != scal0:
                    return False, f'a fixed-sampling call ({method}) modified a caller-owned scalar argument in place', {}
                for nm, x in (('focus_fixed_sampling(unfocus_fixed_sampling(f))', b3), ('unfocus_fixed_sampling(focus_fixed_sampling(f))', b4)):
                    ok, err = close(x, f, at)
                    if not ok:
                        return False, f'{nm} != f with method={method!r} on the band-complete grid: max err {err:.3g}', {}
        return True, '', {k: v[:2] for k, v in res.items()}
    finally:
        config.precision = 64


KNOWN = {}


def _asp_call(pr, f, wvl, dx, z, Q):
    """Q == 'default' exercises the function's own default argument"""
    return pr.angular_spectrum(f, wvl, dx, z) if Q == 'default' else pr.angular_spectrum(f, wvl, dx, z, Q=Q)


def asp_known_pads(c):
    """exact description of the known finding `asp-pads-never-crops`: with Q != 1 (the default is Q = 2) angular_spectrum
    returns the field on the zero-padded grid, so at z = 0 the result is pad2d(f, Q) (not f).  True iff THIS case shows exactly
    that and nothing else (same values as pad2d(f, Q) to tolerance)."""
    ft, pr, config = _impl()
    if c['Q'] == 1:
        return False
    f = make_input(c['shape'], c['dtype'], c['seed'])
    Qn = 2 if c['Q'] == 'default' else c['Q']
    a0 = _asp_call(pr, f, c['wvl'], c['dx'], 0.0, c['Q'])
    want = ft.pad2d(f, Q=Qn)
    return a0.shape == want.shape and a0.shape != f.shape and close(a0, want, tols(c)[1])[0]


def _known_witness():
    c = {'shape': [4, 6], 'Q': 'default', 'wvl': 0.6328, 'dx': 0.05, 'z': 1.0, 'z2': 0.5, 'dtype': 'complex128',
         'precision': 64, 'seed': 3}
    return asp_known_pads(c)


KNOWN['asp-pads-never-crops'] = {'witness': _known_witness}


def _sc(v):
    """a scalar that may have been handed over as a 0-d / one-element ndarray -> Python float (for messages)"""
    return float(np.asarray(v).ravel()[0])


def pred_asp(c, verbose=False):
    """free space.  extras['known'] counts literal checks skipped because they are exactly the known finding"""
    ft, pr, config = _impl()
    et, at = tols(c)
    f = make_input(c['shape'], c['dtype'], c['seed'], c.get('layout'))
    wvl, dx, z, z2, Q = c['wvl'], c['dx'], c['z'], c['z2'], c['Q']
    Qn = 2 if Q == 'default' else Q
    known = 0
    # scalar physical parameters handed over as 0-d / one-element ndarrays, the SAME objects reused by every call below:
    # they must come back unchanged, and a repeated call must repeat its answer
    scf = c.get("scalar_form")
    wrap = (lambda v: np.array(float(v))) if scf == "0d" else (lambda v: np.array([float(v)])) if scf == "1el" else (lambda v: v)
    vals0 = (float(wvl), float(dx), float(z), float(z2))
    wvl, dx, z, z2 = wrap(wvl), wrap(dx), wrap(z), wrap(z2)

    def params_intact():
        return all(float(np.asarray(o).ravel()[0]) == v for o, v in zip((wvl, dx, z, z2), vals0))
    config.precision = c.get('precision', 64)
    try:
        try:
            g = ft.pad2d(f, Q=Qn) if Qn != 1 else f          # the grid the propagation works on
            shp = g.shape
            sform = c.get('samples_form', 'tuple')
            samples = {'tuple': tuple(shp), 'list': list(shp), 'npint': np.int64(shp[0]), 'int': int(shp[0])}[
                sform if (shp[0] == shp[1] or sform in ('tuple', 'list')) else 'tuple']
            tf = pr.angular_spectrum_transfer_function(samples, wvl, dx, z)
            if not params_intact():
                return False, ('angular_spectrum_transfer_function modified a caller-owned argument (wvl / dx / z given as '
                               f'{"0-d" if scf == "0d" else "one-element"} ndarray) in place'), {}
            tf_again = pr.angular_spectrum_transfer_function(samples, wvl, dx, z)
            if not np.array_equal(tf, tf_again):
                return False, 'a second angular_spectrum_transfer_function call with the same argument objects differs from the first', {}
            a = _asp_call(pr, f, wvl, dx, z, Q)
            if not params_intact() or not np.array_equal(a, _asp_call(pr, f, wvl, dx, z, Q)):
                return False, ('angular_spectrum modified a caller-owned scalar argument in place, or a second call with the same '
                               'argument objects differs from the first'), {}
            a0 = _asp_call(pr, f, wvl, dx, 0.0, Q)
            # inverse and additivity on the grid the propagation works on
            b = pr.angular_spectrum(pr.angular_spectrum(g, wvl, dx, z, Q=1), wvl, dx, -z, Q=1)
            s12 = pr.angular_spectrum(pr.angular_spectrum(g, wvl, dx, z2, Q=1), wvl, dx, z, Q=1)
            s = pr.angular_spectrum(g, wvl, dx, z + z2, Q=1)
            az = pr.angular_spectrum(g, wvl, dx, z, Q=1)
            # the precomputed-transfer-function branch ("clobbers all other arguments": give it nonsense for them)
            # ... and the SAME precomputed transfer-function object serves several propagations (that is what it is precomputed
            # for): it must come back unchanged from every use, and a second use must repeat the first
            tf_before = tf.copy()
            g_before = g.copy()
            btf = pr.angular_spectrum(g, wvl * 3, dx * 7, -z - 1.0, Q=5, tf=tf)
            if not np.array_equal(tf, tf_before):
                return False, ('angular_spectrum(field, ..., tf=tf) modified the caller\'s precomputed transfer function in place '
                               f'(max change {float(np.abs(tf - tf_before).max()):.3g}): the next propagation with it is wrong'), {}
            btf2 = pr.angular_spectrum(g, wvl, dx, z, Q=1, tf=tf)
            if not np.array_equal(btf, btf2) or not np.array_equal(g, g_before):
                return False, ('a second angular_spectrum(field, tf=tf) with the same field and transfer-function objects differs '
                               'from the first, or the field was modified in place'), {}
            w0 = pr.Wavefront(np.asarray(f, dtype=complex), wvl, dx)
            wq = w0.free_space(dz=z, Q=Qn)
            wt = pr.Wavefront(np.asarray(g, dtype=complex), wvl, dx).free_space(tf=tf)
            wt2 = pr.Wavefront(np.asarray(g, dtype=complex), wvl, dx).free_space(tf=tf)
            if not np.array_equal(tf, tf_before) or not np.array_equal(wt.data, wt2.data):
                return False, ('Wavefront.free_space(tf=tf) modified the caller\'s precomputed transfer function in place, or a second '
                               'propagation with the same transfer-function object differs from the first'), {}
            # a chain of Wavefront.free_space calls: +z then -z comes back (the Wavefront carries the caller's wvl / dx objects)
            wg = pr.Wavefront(np.asarray(g, dtype=complex), wvl, dx)
            wchain = wg.free_space(dz=z, Q=1).free_space(dz=-z, Q=1)
            if not params_intact():
                return False, 'a free-space call modified a caller-owned scalar argument (wvl / dx / z) in place', {}
        except Exception as ex:
            return False, f'raised {type(ex).__name__}: {str(ex)[:160]}', {}
        if tf.shape != tuple(shp):
            return False, f'transfer function has shape {tf.shape}, field {tuple(shp)}', {}
        if not unchanged(f, c) or (Qn == 1 and not np.array_equal(g, f)):
            return False, 'angular_spectrum modified the input field in place', {}
        # |H| == 1 at EVERY frequency sample (exp of a purely imaginary number: exact to an ulp whatever the phase)
        um = float(np.abs(np.abs(tf) - 1).max())
        eps = 1.2e-7 if et == ETOL32 else 2.3e-16
        phase = asp_phase_max(c)
        # two evaluations of the exponent that associate differently (z1 + z2 vs z1, z2) differ by a few eps * phase
        at_add = max(at, 16 * eps * phase)
        if verbose:
            print(f'  dx / lambda = {_sc(dx) / (_sc(wvl) / 1e3):.3g}; max phase on the band {phase:.3g} rad; max ||tf|-1| = {um:.3g} '
                  f'(min |tf| = {float(np.abs(tf).min()):.3g}); energy ratio - 1 = {energy(a) / energy(f) - 1:.3g}; '
                  f'A_0 f has shape {a0.shape} (f: {f.shape}); max |A_-z A_z g - g| = {float(np.abs(b - g).max()):.3g}; '
                  f'max |A_z A_z2 g - A_(z+z2) g| = {float(np.abs(s12 - s).max()):.3g}; '
                  f'max |A(tf=tf) g - A_z g| = {float(np.abs(btf - az).max()):.3g}')
        if not (um <= (1e-6 if et == ETOL32 else 1e-12)):
            return False, (f'transfer function is not unit modulus: max ||H|-1| = {um:.3g}, min |H| = {float(np.abs(tf).min()):.3g} '
                           f'(dx = {_sc(dx) / (_sc(wvl) / 1e3):.3g} wavelengths)'), {}
        ok, rel = eclose(energy(a), energy(f), et)
        if not ok:
            return False, f'free-space propagation changes the energy by a factor {energy(a) / energy(f):.12g}', {}
        # the literal clause "is the identity at zero distance": A_0 f == f
        if a0.shape != f.shape:
            if asp_known_pads(c):
                known += 1           # exactly the known finding (output on the padded grid == pad2d(f, Q)); anything else is reported
            else:
                return False, f'A_0 f has shape {a0.shape} and is not pad2d(f, Q) either', {}
        else:
            ok, err = close(a0, f, at)
            if not ok:
                return False, f'A_0 f != f: max err {err:.3g}', {}
        ok, rel = eclose(energy(btf), energy(g), et)
        if not ok:
            return False, f'angular_spectrum(f, tf=tf) changes the energy by a factor {energy(btf) / energy(g):.12g}', {}
        # float64 configuration: tf(-z) is the exact conjugate of tf(z), the inverse is exact.  Single-precision configuration: the
        # phase is formed from float32 frequencies and (with NumPy-array scalars) mixed-precision products, so tf(z) tf(-z) = 1 only
        # to ~eps32 x phase: same conditioning-aware tolerance as additivity
        inv_tol = at_add if et == ETOL32 else at
        checks = []
        if inv_tol < 1e-3:
            checks += [('A_-z A_z f != f', b, g, inv_tol), ('Wavefront.free_space(+z).free_space(-z) != f', wchain.data, g, inv_tol)]
        checks += [
                  ('angular_spectrum(f, tf=H(z)) != angular_spectrum(f, z)', btf, az, at),
                  ('Wavefront.free_space(tf=H(z)) != angular_spectrum(f, z)', wt.data, az, at),
                  ('Wavefront.free_space(dz, Q) != angular_spectrum(f, z, Q)', wq.data, a, at)]
        if at_add < 1e-3:       # beyond that the phases themselves are lost to rounding: additivity is not testable
            checks.append(('A_z A_z2 f != A_(z+z2) f', s12, s, at_add))
        for nm, x, y, tl in checks:
            ok, err = close(x, y, tl)
            if not ok:
                return False, f'{nm}: max err {err:.3g} (tolerance {tl:.3g})', {}
        if not (float(np.asarray(wq.dx).ravel()[0]) == vals0[1] and float(np.asarray(wq.wavelength).ravel()[0]) == vals0[0]
                and wq.space == w0.space):
            return False, f'Wavefront.free_space returned dx={wq.dx}, wavelength={wq.wavelength}, space={wq.space!r}', {}
        return True, '', {'tf': tf, 'a': az, 'g': g, 'btf': btf, 'tol_model': max(at, 32 * eps * phase), 'known': known}
    finally:
        config.precision = 64


# ------------------------------------------------------------------------------------------------
# generators
# ------------------------------------------------------------------------------------------------
BAND_Q = [1, 1.5, 2, 2.5, 3, 4 / 3, 5 / 3, 1.25]


def band_pairs(maxn=9, maxM=24):
    out = []
    for n in range(1, maxn + 1):
        for Q in BAND_Q:
            M = n * Q
            if abs(M - round(M)) < 1e-9 and round(M) <= maxM:
                out.append((n, Q, int(round(M))))
    return out


def gen_fft(r, shape, big=False):
    return {'shape': list(shape), 'Q': [1, 2, 3, 1.5, 2.37, 1.2][int(r.integers(6))] if not big else [1, 2, 1.5][int(r.integers(3))],
            'dtype': gen_dtype(r), 'precision': 32 if r.random() < 0.15 else 64, 'layout': H1.gen_layout(r),
            'scalar_form': '0d' if r.random() < 0.25 else None, 'seed': int(r.integers(1 << 30))}


def gen_band(r, pairs):
    (m, Qy, M), (n, Qx, N) = pairs[int(r.integers(len(pairs)))], pairs[int(r.integers(len(pairs)))]
    if r.random() < 0.35:          # same full-band sample count on both axes: the fixed-sampling round trips apply
        same = [p for p in pairs if p[2] == M]
        (n, Qx, N) = same[int(r.integers(len(same)))]
    return {'shape': [m, n], 'Q': [Qy, Qx], 'samples': [M, N], 'shift': list(H1.SHIFTS[int(r.integers(len(H1.SHIFTS)))]),
            'dtype': gen_dtype(r), 'precision': 32 if r.random() < 0.12 else 64, 'seed': int(r.integers(1 << 30)),
            'layout': H1.gen_layout(r), 'forms': H1.gen_forms(r)}


def asp_phase_max(c, shape=None):
    """largest phase (radians) of the transfer function on the sampled band: pi * lambda_mm * |z| * (kx^2 + ky^2)_max,
    with |k|max = 1/(2 dx) per axis.  Rounding of the phase (a few eps * phase_max) is the conditioning of every comparison
    that involves two differently-associated evaluations of the exponent."""
    zmag = max(abs(c['z']), abs(c.get('z2', 0.0)), abs(c['z'] + c.get('z2', 0.0)))
    return np.pi * (c['wvl'] / 1e3) * zmag * 2.0 / (2.0 * c['dx']) ** 2


def gen_asp(r, shape):
    """wavelength in MICRONS, dx in MILLIMETRES.  Sampling regimes relative to the wavelength (lambda_mm = wvl/1000):
    sub-wavelength (dx < lambda/2: the sampled band reaches beyond 1/lambda), around the wavelength, ordinary optics
    (dx >> lambda), very coarse.  Distances: zero, well-conditioned (phase <= ~300 rad), and large (phase up to ~1e6 rad)."""
    wvl = float(np.exp(r.uniform(np.log(0.4), np.log(2.0))))
    lam = wvl / 1e3
    regime = ['sub', 'near', 'ordinary', 'coarse'][int(r.choice(4, p=[0.3, 0.15, 0.4, 0.15]))]
    lo, hi = {'sub': (lam / 40, lam / 2), 'near': (lam / 2, 4 * lam), 'ordinary': (0.01, 1.0), 'coarse': (1.0, 200.0)}[regime]
    dx = float(np.exp(r.uniform(np.log(lo), np.log(hi))))
    unit = 2 * dx * dx / (np.pi * lam)          # |z| giving a maximal phase of 1 rad on the sampled band

    def zz():
        x = r.random()
        if x < 0.12:
            return 0.0
        if x < 0.75:
            mag = unit * float(np.exp(r.uniform(np.log(1e-2), np.log(300.0))))
        else:
            mag = unit * float(np.exp(r.uniform(np.log(300.0), np.log(1e6))))
        return mag if r.random() < 0.5 else -mag
    return {'shape': list(shape), 'wvl': wvl, 'dx': dx, 'z': zz(), 'z2': zz(),
            'Q': [1, 1, 1, 1.5, 2, 3, 'default'][int(r.integers(7))],
            'samples_form': ['tuple', 'list', 'npint', 'int'][int(r.integers(4))],
            'scalar_form': [None, None, None, '0d', '1el'][int(r.integers(5))],
            'dtype': gen_dtype(r, (0.55, 0.2, 0.05, 0.05, 0.08, 0.07)), 'precision': 32 if r.random() < 0.12 else 64,
            'layout': H1.gen_layout(r), 'seed': int(r.integers(1 << 30)), 'regime': regime}


# ------------------------------------------------------------------------------------------------
# correspondence
# ------------------------------------------------------------------------------------------------
def correspondence(ctx):
    ft, pr, config = _impl()
    config.precision = 64
    try:
        _corr(ctx, ft, pr, config)
    finally:
        config.precision = 64
        ft.mdft.clear()
        ft.czt.clear()


def _corr(ctx, ft, pr, config):
    import os, sys, time
    _t = [time.time()]

    def _prof(name):
        if os.environ.get('VERIF_PROFILE'):
            print(f'profile C02 {name}: {time.time() - _t[0]:.1f} s', file=sys.stderr)
        _t[0] = time.time()
    shapes = list(itertools.product(range(1, 10), repeat=2))
    lines, todo = [], []

    # ---- FFT route: energy, inverses, pad
    cases = [gen_fft(ctx.rng, s) for _ in range(ctx.scale(2, 14)) for s in shapes]
    cases += [gen_fft(ctx.rng, (int(ctx.rng.integers(10, 25)), int(ctx.rng.integers(10, 18))), big=True)
              for _ in range(ctx.scale(12, 120))]
    for c in cases:
        m, n = c['shape']
        ctx.case('fft_energy', c, nontrivial=not (m == n == 1),
                 tag=f'par{m % 2}{n % 2}/{"sq" if m == n else "ns"}/Q{c["Q"]}/{c["dtype"]}/p{c["precision"]}')
        ok, detail, ex = pred_fft(c)
        if not ok:
            ctx.pred_fail('fft_energy', c, detail)
            continue
        # the Lean model side is an interpreted double sum and dominates the run time: the quick tier sends a sample of the cases
        # to it (every case still evaluates the property's predicate on the real code); widened / thorough: all small cases
        M, N = ex['focus'].shape
        p_model = 1.0 if (ctx.thorough or ctx.widen) else (0.7 if M * N <= 120 else 0.25)
        if (m * n <= 81 or ctx.rng.random() < 0.3) and ctx.rng.random() < p_model:
            f = make_input(c['shape'], c['dtype'], c['seed'])
            lines.append(f'fft2 -1 {m} {n} {M} {N} {arr2w(f)}')
            lines.append(f'pad {m} {n} {M} {N} {arr2w(f)}')
            todo.append(('fft', c, ex, (M, N), len(lines) - 2))

    # ---- band-complete round trips
    pairs = band_pairs(9, ctx.scale(14, 24))
    bcases = [gen_band(ctx.rng, pairs) for _ in range(ctx.scale(250, 3000))]
    # near-symmetric block: square input, equal shift components, then exactly one per-axis parameter made different
    k_ = 0
    for dtype in ('complex128', 'float64'):
        for sh in ([0, 0], [1.5, 1.5]):
            for shp, Qp, smp in (([4, 4], [2, 2], [8, 8]), ([4, 4], [2, 1.5], [8, 6]), ([4, 4], [1.5, 2], [6, 8]),
                                 ([4, 6], [1.5, 1], [6, 6]), ([6, 6], [1.5, 1.5], [9, 9])):
                for shv in (sh, [sh[0], sh[1] + 1.25]):
                    k_ += 1
                    bcases.append({'shape': shp, 'Q': Qp, 'samples': smp, 'shift': shv, 'dtype': dtype, 'precision': 64,
                                   'seed': 5000 + k_, 'layout': 'C', 'forms': None})
    for c in bcases:
        m, n = c['shape']
        M, N = c['samples']
        zero = c['shift'] == [0, 0]
        ctx.case('band', c, nontrivial=not (m == n == 1),
                 tag=f'par{m % 2}{n % 2}->{M % 2}{N % 2}/{"Q1" if c["Q"] == [1, 1] else "Qint" if all(float(q).is_integer() for q in c["Q"]) else "Qfrac"}/'
                     f'{"s0" if zero else "s"}/{c["dtype"]}/p{c["precision"]}')
        ok, detail, ex = pred_band(c)
        if not ok:
            ctx.pred_fail('band', c, detail)
            continue
        f = make_input(c['shape'], c['dtype'], c['seed'])
        q = f'{C.f2w(c["Q"][0])} {C.f2w(c["Q"][1])} {C.f2w(c["shift"][0])} {C.f2w(c["shift"][1])}'
        K1, L1 = ft.next_fast_len(m + M - 1), ft.next_fast_len(n + N - 1)
        cost = m * n * M * N + (K1 * L1 * (K1 + L1) if K1 * L1 * (K1 + L1) <= 5000 else 0)
        fixed_block = c['seed'] >= 5000 and c['seed'] < 5100 and c.get('forms') is None and c.get('layout') == 'C'
        if cost > ctx.scale(6000, 12000) and ctx.rng.random() < 0.8:
            continue
        if not (ctx.thorough or ctx.widen or fixed_block) and ctx.rng.random() > (0.6 if cost <= 2000 else 0.3):
            continue          # the model side is an interpreted O(n^4) double sum: run it on the smaller cases and a sample of the rest
        lines.append(f'rtmdft {m} {n} {M} {N} {q} {arr2w(f)}')
        lines.append(f'dftband {m} {n} {M} {N} {q} {arr2w(f)}')
        if K1 * L1 * (K1 + L1) <= 5000:
            lines.append(f'rtczt {m} {n} {M} {N} {K1} {L1} {K1} {L1} {q} {arr2w(f)}')
            todo.append(('band', c, ex, (M, N), len(lines) - 3))
        else:
            todo.append(('band_nocz', c, ex, (M, N), len(lines) - 2))

    _prof('fft+band python')
    # ---- free space
    acases = [gen_asp(ctx.rng, s) for _ in range(ctx.scale(2, 14)) for s in shapes]
    acases += [gen_asp(ctx.rng, (int(ctx.rng.integers(10, 25)), int(ctx.rng.integers(10, 18)))) for _ in range(ctx.scale(10, 120))]
    for c in acases:
        m, n = c['shape']
        ctx.case('free_space', c, nontrivial=not (m == n == 1),
                 tag=f'{c.get("regime", "?")}/{"z0" if c["z"] == 0 else "z+" if c["z"] > 0 else "z-"}/{c.get("samples_form")}/'
                     f'{"phase<=300" if asp_phase_max(c) <= 300 else "phase>300"}/Q{c["Q"]}/p{c["precision"]}')
        ok, detail, ex = pred_asp(c)
        if not ok:
            ctx.pred_fail('free_space', c, detail)
            continue
        if ex.get('known'):
            ctx.filtered_known['asp-pads-never-crops'] += ex['known']
        if m * n <= 81:
            g = ex['g']
            mm, nn = g.shape
            if mm * nn <= 200 and (ctx.thorough or ctx.widen or mm * nn <= 60 or ctx.rng.random() < 0.5):
                hdr = f'{mm} {nn} {C.f2w(c["wvl"])} {C.f2w(c["dx"])} {C.f2w(c["z"])}'
                lines.append(f'asptf {hdr}')
                lines.append(f'asp {hdr} {arr2w(g)}')
                lines.append(f'asptfb {mm} {nn} {arr2w(ex["tf"])} {arr2w(g)}')
                todo.append(('asp', c, ex, (mm, nn), len(lines) - 3))

    _prof('free_space python')
    # ---- fftfreq table
    nmax = ctx.scale(40, 200)
    ff_at = len(lines)
    lines += [f'fftfreq {n}' for n in range(1, nmax + 1)]

    rep = driver(lines)
    _prof('lean driver')
    for kind, c, ex, (M, N), at in todo:
        et, tol = tols(c)
        m, n = c['shape']
        if kind == 'fft':
            for nm, a, row in (('focus', ex['focus'], rep[at]), ('pad2d', ex['pad'], rep[at + 1])):
                ok, err = close(a, w2arr(row, M, N), tol)
                if not ok:
                    ctx.disagree('fft_energy', dict(c, what=nm), f'max |impl - model| = {err:.3g}', f'model {nm}')
        elif kind in ('band', 'band_nocz'):
            rt, F = w2arr(rep[at], m, n), w2arr(rep[at + 1], M, N)
            rtc = w2arr(rep[at + 2], m, n) if kind == 'band' else rt
            for nm, a, b in (('idft2(dft2)', ex['mdft'][1], rt), ('dft2', ex['mdft'][0], F), ('iczt2(czt2)', ex['czt'][1], rtc),
                             ('czt2', ex['czt'][0], F)):
                ok, err = close(a, b, tol)
                if not ok:
                    ctx.disagree('band', dict(c, what=nm), f'max |impl - model| = {err:.3g}', f'model {nm}')
        else:
            tf, a = w2arr(rep[at], M, N), w2arr(rep[at + 1], M, N)
            tol = ex.get('tol_model', tol)      # phase conditioning: a few eps * (largest phase on the band)
            if tol > 1e-3:
                continue
            ok, err = close(ex['tf'], tf, tol)
            if not ok:
                ctx.disagree('free_space', dict(c, what='transfer function'), f'max |impl - model| = {err:.3g}', 'model aspTf2')
            ok, err = close(ex['a'], a, tol)
            if not ok:
                ctx.disagree('free_space', dict(c, what='angular_spectrum'), f'max |impl - model| = {err:.3g}', 'model asp')
            ok, err = close(ex['btf'], w2arr(rep[at + 2], M, N), tol)
            if not ok:
                ctx.disagree('free_space', dict(c, what='angular_spectrum(tf=)'), f'max |impl - model| = {err:.3g}', 'model aspApplyG')
    for n in range(1, nmax + 1):
        ctx.case('fftfreq', {'n': n}, nontrivial=n > 1)
        mine = [int(x) for x in rep[ff_at + n - 1].split()]
        impl = np.round(np.asarray(ft.fftfreq(n, 1.0)) * n).astype(int).tolist()
        if mine != impl:
            ctx.disagree('fftfreq', {'n': n}, impl[:6], mine[:6])


# ------------------------------------------------------------------------------------------------
# search / replay
# ------------------------------------------------------------------------------------------------
PREDS = {'fft_energy': pred_fft, 'band': pred_band, 'free_space': pred_asp}


def search(ctx, hints):
    cdir = os.path.join(C.VERIF, 'corpus', 'C02')
    if os.path.isdir(cdir):
        import json
        for fn in sorted(os.listdir(cdir)):
            inp = json.load(open(os.path.join(cdir, fn)))
            if not PREDS[inp['item']](inp['input'])[0]:
                return inp
    # small scope first
    for total in range(2, 13):
        for m in range(1, total):
            n = total - m
            if n > 7 or m > 7:
                continue
            for Q in (1, 2, 1.5, 3):
                for dtype in ('complex128', 'float64'):
                    c = {'shape': [m, n], 'Q': Q, 'dtype': dtype, 'precision': 64, 'seed': 3}
                    ok, detail, _ = pred_fft(c)
                    if not ok:
                        return {'item': 'fft_energy', 'input': c, 'detail': detail}
    pairs = band_pairs(7, 16)
    for (m, Qy, M), (n, Qx, N) in itertools.product(pairs, repeat=2):
        if m + n > 9:
            continue
        for shift in ((0, 0), (1, 0), (1.5, -2.25)):
            for dtype in ('complex128', 'float64'):
                c = {'shape': [m, n], 'Q': [Qy, Qx], 'samples': [M, N], 'shift': list(shift), 'dtype': dtype,
                     'precision': 64, 'seed': 3}
                ok, detail, _ = pred_band(c)
                if not ok:
                    return {'item': 'band', 'input': c, 'detail': detail}
    for (m, n) in itertools.product(range(1, 7), repeat=2):
        # (wavelength um, dx mm): ordinary, sub-wavelength (dx = lambda/6, lambda/2.5), about one wavelength, very coarse
        for wvl, dx in ((0.6, 0.1), (0.6328, 1e-4), (1.55, 6e-4), (0.5, 5e-4), (1.0, 50.0)):
            unit = 2 * dx * dx / (np.pi * wvl / 1e3)
            for z, z2 in ((0.0, unit), (5.0 * unit, -2.0 * unit), (-3.0 * unit, 3.0 * unit), (1e5 * unit, unit)):
                for Q, sf in ((1, None), (1, '0d'), (1, '1el'), ('default', None), (1.5, '0d')):
                    c = {'shape': [m, n], 'wvl': wvl, 'dx': dx, 'z': z, 'z2': z2, 'Q': Q, 'dtype': 'complex128', 'precision': 64,
                         'seed': 3, 'samples_form': 'npint' if m == n else 'list', 'scalar_form': sf}
                    ok, detail, _ = pred_asp(c)
                    if not ok:
                        return {'item': 'free_space', 'input': c, 'detail': detail}
    # seeded random
    pairs = band_pairs()
    for _ in range(ctx.scale(150, 1500)):
        shp = (int(ctx.rng.integers(1, 13)), int(ctx.rng.integers(1, 13)))
        for item, c in (('fft_energy', gen_fft(ctx.rng, shp)), ('band', gen_band(ctx.rng, pairs)), ('free_space', gen_asp(ctx.rng, shp))):
            ok, detail, _ = PREDS[item](c)
            if not ok:
                return {'item': item, 'input': c, 'detail': detail}
    return None


def replay(inp):
    item, c = inp['item'], inp['input']
    c = {k: v for k, v in c.items() if k != 'what'}
    print('replaying', item, c)
    if item not in PREDS:
        print('no replay routine for item', item)
        return False
    ok, detail, _ = PREDS[item](c, verbose=True)
    if not ok:
        print(' ', detail)
    return not ok


MANIFEST_ENTRY = {
    'technique': 'Lean 4 proofs: root-of-unity orthogonality derived from the character laws (geometric sum), Gram matrix of the '
                 'centred/shifted DFT kernel = identity, abstract Parseval and left-inverse lemmas over finite sums, lifted to 2-D by '
                 'separability; model routes parameterised by translator-generated flags / signs / wiring / coefficients; differential '
                 'correspondence of the executable model with prysm',
    'text': ('PROVED for all inputs (every shape m x n of any parity, every padded/output shape, every shift, every field; kernel e any '
             'faithful character, conj any ring involution with conj(e t) = e(-t), nrm(1/N)^2 = 1/N; instantiated with exp(-2 pi i t), '
             'sqrt, complex conjugation): (1) orthogonality sum_k e(k d/L) = L [L | d]; (2) E E^H = 1 for the normalised centred / '
             'shifted DFT kernel over a full period, and abstract Parseval from it; (3) focus and unfocus with the generated shift order / '
             'norm / transform / pad offset conserve energy INCLUDING the zero padding, for every padded shape >= the input; pad2d alone '
             'conserves energy; unfocus(focus(f,1),1) = f and focus(unfocus(F,1),1) = F for every shape; focus(f,Q) = focus(pad2d(f,Q),1) '
             'as arrays (likewise unfocus) and hence unfocus(focus(f,Q),1) = pad2d(f,Q), focus(unfocus(F,Q),1) = pad2d(F,Q) sample for '
             'sample for every padded shape of any parity (every Q >= 1); (4) dft2 / idft2 with the '
             'generated kernel sign, flags, wiring, scalars and norms conserve energy onto the full band (M = m Qy, N = n Qx integers >= '
             'm, n) and idft2(dft2 f) = f for every shift; the same (energy and round trip) for czt2 / iczt2 as interpreters over the '
             'generated statement list, signs, glue, wiring and constants; (5) the transfer function built from the GENERATED coefficient '
             '(additive in z: the one fact about the source these laws need), signs and axis order is a character in z (unit modulus at '
             'EVERY sample - the translator also certifies that no sample is overwritten/masked after the exponential -, 1 at z=0, '
             'tf(z1+z2) = tf(z1) tf(z2), tf(-z) tf(z) = 1) and equals the model one; the operator ifft2(fft2(f) tf) with the generated '
             'norm flags of BOTH branches of angular_spectrum conserves energy, is the identity at z=0, composes additively and is undone '
             'at -z on the grid it works on; the tf= branch conserves energy for every unit-modulus tf and equals the z branch; for Q != 1 '
             'the output at z=0 is pad2d(f,Q) (theorem asp_padded_at_zero_is_pad = the known finding). ONLY COMPARED (no theorem): '
             'the Wavefront wrappers (spaces, dx round trip); fftfreq table.'),
    'note': ('Known finding asp-pads-never-crops: angular_spectrum with Q != 1 (default Q=2) returns the padded grid and never crops, so '
             'the literal "identity at zero distance / undoes itself / composes additively" hold on the padded grid only; no safe repair '
             '(cropping back loses the diffracted energy). Evanescent-wave physics is out of scope (the Fresnel transfer function is what '
             'the code implements); scipy.fft enters with the contract "computes the DFT sum"; rounding is not covered (float64 energies '
             'at 1e-10, arrays 1e-9; float32 2e-4 / max(5e-5, 5e-7 n), comparisons involving two evaluations of the exponent widened by '
             '16-32 eps x the largest phase on the band). Trusted: Lean kernel, Mathlib, translator, NumPy/SciPy primitives.'),
}
