"""C03 — output sampling and coordinates are physically correct.

correspondence: the Lean model (`Drivers/C03.lean`: per-axis Q from each axis's own sample count, shift in output
samples, separable matrix-DFT sum; FFT route = pad / rotate / DFT / rotate, spacing reported from axis 1) against
prysm on the same inputs, complex values at 1e-9.  The property's own predicates are evaluated on the real outputs
with oracles that do not go through the model: the analytic diffraction pattern of a tilted flat aperture and a
direct physical-units Fourier integral, both evaluated AT THE COORDINATES THE ROUTE REPORTS (`.intensity.x/.y`).
"""
import glob
import itertools
import json
import os
import numpy as np
from harness import common as C
from harness import c03lib as L

RULE = ('scalar conversions: log-uniform arguments; fixed-sampling routes: random fields of dtype complex128 / float64 / int64 / bool '
        'in C, Fortran, transposed-view and strided-view layout on m x n grids (m,n in 1..12 quick / ..22 thorough, every parity '
        'pair, square and not, 1-sample axes included), output grids of every parity given as int / tuple / list / ndarray, shifts '
        'given as tuple / list / ndarray / left at the default, '
        'requested spacing 0.31..1.7 x the FFT spacing, shifts 0 / integer / fractional output samples on either axis, '
        'methods mdft and czt, both directions; FFT route: Q in {1,2,3,1.5,2.37}; spot predicates: flat pupils with '
        'k in {0,+-1,+-2.5,3,-1.75} waves of tilt on either axis; route chains on Wavefront objects (focus(Q).unfocus(1) and back, FFT route against the fixed-sampling route asked for the reported dx and shape, focus(Q) -> unfocus_fixed_sampling(original dx, shape), fixed sampling on the complete FFT grid -> unfocus(1); both directions, both methods, every dtype/layout, 1-sample axes); coordinate grids (make_xy_grid with dx, with diameter, as vectors, int shape; RichData.x/.y in either access order; Wavefront.intensity/.phase). A case is non-trivial unless the array is 1x1 or '
        'the tilt and shift are all zero; distinct = distinct (item, input) tuples')
ASSUMPTIONS = ['cases whose shift is handed over as a float32 ndarray are compared at 2e-4 (NumPy divides a float32 array by '
               'output_dx in float32: the precision of the argument the user chose), all others at 1e-9',
               'numpy matmul / exp / scipy.fft are trusted primitives (the model plugs Float.cos/sin/sqrt into the same sums)',
               'comparison tolerance 1e-9 relative to the largest modulus of the reference (fields are O(1), sizes <= 24x24: '
               'observed agreement 1e-14)',
               'FFT route on a non-square padded array: only axis 1 and the complex data are checked; the y-coordinate '
               'claim is the known finding fft-nonsquare-dx']
TOL = 1e-9
KNOWN_KEY = 'fft-nonsquare-dx'


def _impl():
    from prysm import propagation as pr, fttools as ft
    return pr, ft


def _cen(n):
    return np.arange(n) - n // 2


def dirichlet(n, u):
    """|sum_{i<n} exp(2 pi i (i - n//2) u)| for an array of u"""
    return np.abs(np.exp(2j * np.pi * np.outer(np.atleast_1d(u), _cen(n))).sum(axis=1))


def phys_integral(f, dx_in, lam, z, eta, xi, sign):
    """sum_{j,i} f[j,i] exp(sign 2 pi i (y_j eta + x_i xi)/(lam z)) at physical output coordinates eta (rows), xi (cols)"""
    m, n = f.shape
    y, x = _cen(m) * dx_in, _cen(n) * dx_in
    Ey = np.exp(sign * 2j * np.pi * np.outer(eta, y) / (lam * z))
    Ex = np.exp(sign * 2j * np.pi * np.outer(x, xi) / (lam * z))
    return Ey @ f @ Ex


def tilted_pupil(pr, m, n, dx, lam, ky, kx):
    """flat pupil carrying ky / kx waves of tilt across its full height / width, built through the public constructor"""
    y, x = _cen(m) * dx, _cen(n) * dx
    X, Y = np.meshgrid(x, y)
    opd_nm = (kx * X / (n * dx) + ky * Y / (m * dx)) * lam * 1e3
    return pr.Wavefront.from_amp_and_phase(np.ones((m, n)), opd_nm, lam, dx)


def _relerr(a, b):
    return float(np.abs(a - b).max() / max(1.0, np.abs(b).max()))


# ------------------------------------------------------------------------------------------------
# property predicates on the real code.  Each returns None (holds) or a string (what is wrong).
# ------------------------------------------------------------------------------------------------
def pred_conv(c):
    pr, _ = _impl()
    x, N, lam, efl = c['x'], c['N'], c['lam'], c['efl']
    s = pr.pupil_sample_to_psf_sample(x, N, lam, efl)
    back = pr.psf_sample_to_pupil_sample(s, N, lam, efl)
    if abs(back - x) > 1e-12 * abs(x):
        return f'psf_sample_to_pupil_sample(pupil_sample_to_psf_sample({x})) = {back}'
    fwd = pr.pupil_sample_to_psf_sample(pr.psf_sample_to_pupil_sample(x, N, lam, efl), N, lam, efl)
    if abs(fwd - x) > 1e-12 * abs(x):
        return f'pupil_sample_to_psf_sample(psf_sample_to_pupil_sample({x})) = {fwd}'
    if abs(s * x * N - lam * efl) > 1e-12 * lam * efl:
        return f'dx_psf*dx_pupil*N = {s * x * N} != lambda*efl = {lam * efl}'
    Q = pr.Q_for_sampling(N * x, efl, lam, s / c['q'])
    if abs(Q - c['q']) > 1e-12 * c['q']:
        return f'Q_for_sampling for 1/{c["q"]} of the FFT spacing = {Q}'
    return None


def _expected_peak(coords, target, period, lobe_ok):
    """index of the sample nearest to `target`, or None when the brightest-sample test is not meaningful:
    target outside the window, an alias replica (target +- period) inside it, a near tie between two samples, or
    sampling coarser than the width of the main lobe (then a side lobe can out-shine the nearest sample)"""
    if len(coords) < 2 or not lobe_ok:
        return None
    step = abs(coords[1] - coords[0])
    lo, hi = coords[0] - 0.5 * step, coords[-1] + 0.5 * step
    if not (coords[0] <= target <= coords[-1]):
        return None
    if target - period >= lo or target + period <= hi:
        return None
    d = np.abs(coords - target)
    order = np.argsort(d)
    if d[order[1]] - d[order[0]] < 1e-3 * step:
        return None
    return int(order[0])


def _spot_check(I_data, xs, ys, m, n, dx, lam, efl, ky, kx, norm, sx=0.0, sy=0.0, tol=TOL):
    """the intensity of a tilted flat aperture at the coordinates the route reports (minus the requested shift)
    must be the analytic pattern centred on (kx, ky) lambda f / D, and its brightest sample the one nearest to it"""
    xi, eta = xs - sx, ys - sy
    amp = np.sqrt(I_data)
    ex = dirichlet(n, kx / n - xi * dx / (lam * efl))
    ey = dirichlet(m, ky / m - eta * dx / (lam * efl))
    ref = norm * np.outer(ey, ex)
    err = _relerr(amp, ref)
    if err > tol:
        k, l = np.unravel_index(np.argmax(np.abs(amp - ref)), amp.shape)
        return (f'|field| at reported coordinates (x={xs[l]:.6g}, y={ys[k]:.6g}) is {amp[k, l]:.6g}, the aperture tilted by '
                f'({kx},{ky}) waves gives {ref[k, l]:.6g} there (rel. err {err:.3g})')
    period = lam * efl / dx
    for axis, coords, kk, size, s in ((1, xi, kx, n, sx), (0, eta, ky, m, sy)):
        if size < 2 or len(coords) < 2:
            continue
        target = kk * lam * efl / (size * dx)
        lobe_ok = abs(coords[1] - coords[0]) * dx * size / (lam * efl) <= 1 + 1e-9
        want = _expected_peak(coords, target, period, lobe_ok)
        if want is None:
            continue
        prof = I_data.max(axis=1 - axis)
        got = int(np.argmax(prof))
        if got != want and prof[got] > prof[want] * (1 + 1e-9):
            return (f'brightest sample along axis {axis} is at reported coordinate {coords[got]:.6g} (shift removed); '
                    f'k*lambda*f/D = {target:.6g} is nearest to sample {want} at {coords[want]:.6g}')
    return None


def pred_spot_fixed(c):
    pr, _ = _impl()
    m, n, M, N = c['m'], c['n'], c['M'], c['N']
    lam, efl, dx, dxo = c['lam'], c['efl'], c['dx'], c['dxo']
    sx, sy = L.eff_shift(c, dxo)
    wf = tilted_pupil(pr, m, n, dx, lam, c['ky'], c['kx'])
    A = L.Args()
    kw = {} if c.get('hform') == 'default' else {'shift': L.shift_arg(c.get('hform', 'tuple'), sx, sy, A)}
    so = L.samples_arg(c.get('sform', 'tuple'), M, N, A)
    wf.focus_fixed_sampling(efl, dxo, so, method=c['method'], **kw)      # a first call with the same argument objects
    if A.changed():
        return A.changed()
    psf = wf.focus_fixed_sampling(efl, dxo, so, method=c['method'], **kw)
    bad = L.check_wavefront(psf, 'focus_fixed_sampling(...)', (M, N), dxo, lam, 'psf')
    if bad:
        return bad
    I = psf.intensity
    return _spot_check(I.data, I.x[0], I.y[:, 0], m, n, dx, lam, efl, c['ky'], c['kx'], dx * dxo / (lam * efl), sx, sy,
                       tol=L.tol_of(c, TOL))


def pred_spot_fft(c, axis1_only=False):
    pr, _ = _impl()
    m, n, Q = c['m'], c['n'], c['Q']
    lam, efl, dx = c['lam'], c['efl'], c['dx']
    wf = tilted_pupil(pr, m, n, dx, lam, c['ky'], c['kx'])
    psf = wf.focus(efl, Q)
    Mp, Np = psf.data.shape
    I = psf.intensity
    ys = I.y[:, 0]
    if axis1_only:
        # known finding: the y coordinates of a non-square padded array are not the reported ones; use the true spacing of
        # axis 0 so that everything else (axis 1, values, origin) is still checked
        ys = _cen(Mp) * lam * efl / (Mp * dx)
    return _spot_check(I.data, I.x[0], ys, m, n, dx, lam, efl, c['ky'], c['kx'], 1 / np.sqrt(Mp * Np))


def fft_padded_shape(c):
    import math
    Q = c['Q']
    if Q == 1:
        return c['m'], c['n']
    return math.ceil(c['m'] * Q), math.ceil(c['n'] * Q)


def pred_phys_fixed(c):
    """out[k,l] = norm * physical integral at ((k-M//2) dxo - shift_y, (l-N//2) dxo - shift_x) for an arbitrary field of any
    dtype / layout: as complex numbers when no shift is requested (no free phase then), in modulus otherwise.  Called through the
    Wavefront wrapper or the free function, with every documented spelling of the sample counts and the shift."""
    pr, _ = _impl()
    m, n, M, N = c['m'], c['n'], c['M'], c['N']
    lam, z, dx, dxo = c['lam'], c['efl'], c['dx'], c['dxo']
    sx, sy = L.eff_shift(c, dxo)
    f = L.case_field(c)
    f0 = f.copy()
    A = L.Args()
    kw = {} if c.get('hform') == 'default' else {'shift': L.shift_arg(c.get('hform', 'tuple'), sx, sy, A)}
    so = L.samples_arg(c.get('sform', 'tuple'), M, N, A)
    if c.get('repeat', True):
        # the same argument objects are used for an earlier call (a loop over methods / wavelengths in user code)
        (pr.focus_fixed_sampling if c['dir'] == 'fwd' else pr.unfocus_fixed_sampling)(
            f, dx, z, lam, dxo, so, method='mdft' if c['method'] == 'czt' else 'czt', **kw)
        if A.changed():
            return A.changed()
    fwd = c['dir'] == 'fwd'
    sign, space = (-1, 'psf') if fwd else (+1, 'pupil')
    name = f'{"" if fwd else "un"}focus_fixed_sampling(...)'
    if c.get('api') == 'function':
        fn = pr.focus_fixed_sampling if fwd else pr.unfocus_fixed_sampling
        data = fn(f, dx, z, lam, dxo, so, method=c['method'], **kw)
        if not isinstance(data, np.ndarray) or data.shape != (M, N):
            return f'{name} returned {type(data).__name__} of shape {getattr(data, "shape", None)}, expected an ({M},{N}) array'
        xs, ys = _cen(N) * dxo, _cen(M) * dxo
    else:
        wf = pr.Wavefront(f, lam, dx, 'pupil' if fwd else 'psf')
        out = (wf.focus_fixed_sampling if fwd else wf.unfocus_fixed_sampling)(z, dxo, so, method=c['method'], **kw)
        bad = L.check_wavefront(out, name, (M, N), dxo, lam, space)
        if bad:
            return bad
        data = out.data
        I = out.intensity
        xs, ys = I.x[0], I.y[:, 0]
    if f.dtype != f0.dtype or not np.array_equal(f, f0):
        return 'the input array was modified in place'
    if A.changed():
        return A.changed()
    ref = (dx * dxo / (lam * z)) * phys_integral(L.as_complex(f), dx, lam, z, ys - sy, xs - sx, sign)
    if any(c['shift']):
        err = _relerr(np.abs(data), np.abs(ref))
        what = '|out| differs from the modulus of the physical integral at the reported coordinates minus the shift'
    else:
        err = _relerr(data, ref)
        what = 'out differs (as complex numbers, no shift requested) from the physical integral at the reported coordinates'
    if err > L.tol_of(c, TOL):
        return f'{what} (rel. err {err:.3g}; dtype {f0.dtype}, method {c["method"]})'
    return None


def pred_pure(c):
    """the propagation functions are pure: same answer when called twice on the same objects, inputs left untouched"""
    pr, _ = _impl()
    f = L.case_field(c)
    f0 = f.copy()
    if 'Q' in c:
        wf = pr.Wavefront(f, c['lam'], c['dx'], 'pupil' if c['dir'] == 'fwd' else 'psf')
        call = lambda: (wf.focus if c['dir'] == 'fwd' else wf.unfocus)(c['efl'], c['Q']).data   # noqa: E731
    else:
        fn = pr.focus_fixed_sampling if c['dir'] == 'fwd' else pr.unfocus_fixed_sampling
        sx, sy = L.eff_shift(c, c['dxo'])
        call = lambda: L.call_fixed(fn, f, c['dx'], c['efl'], c['lam'], c['dxo'], c['M'], c['N'], sx, sy, c['method'],   # noqa: E731
                                    c.get('sform', 'tuple'), c.get('hform', 'tuple'), A)
    A = L.Args()
    a = np.array(call())
    if f.dtype != f0.dtype or not np.array_equal(f, f0):
        return 'implementation modified a caller-owned argument array in place'
    if A.changed():
        return A.changed()
    b = np.array(call())
    if a.shape != b.shape or not np.array_equal(a, b):
        return 'second evaluation with the same arguments differs from the first (history dependence)'
    return None


def pred_shift_fixed(c):
    """asking for p more output samples of shift moves the modulus by exactly p samples"""
    pr, _ = _impl()
    m, n, M, N = c['m'], c['n'], c['M'], c['N']
    lam, z, dx, dxo = c['lam'], c['efl'], c['dx'], c['dxo']
    f = L.case_field(c)
    fn = pr.focus_fixed_sampling if c['dir'] == 'fwd' else pr.unfocus_fixed_sampling
    s0 = (c['shift'][0] * dxo, c['shift'][1] * dxo)
    px, py = c['p']
    s1 = (s0[0] + px * dxo, s0[1] + py * dxo)
    if c.get('hform') in ('array', 'list'):
        s0, s1 = (np.array(s0), np.array(s1)) if c['hform'] == 'array' else (list(s0), list(s1))
    a = np.abs(fn(f, dx, z, lam, dxo, (M, N), shift=s0, method=c['method']))
    b = np.abs(fn(f, dx, z, lam, dxo, (M, N), shift=s1, method=c['method']))
    # b[k+py, l+px] == a[k, l] on the overlap
    ks = np.arange(max(0, -py), min(M, M - py))
    ls = np.arange(max(0, -px), min(N, N - px))
    if len(ks) == 0 or len(ls) == 0:
        return None
    A = a[np.ix_(ks, ls)]
    B = b[np.ix_(ks + py, ls + px)]
    err = _relerr(B, A)
    if err > TOL:
        return f'shift + ({px},{py}) output samples does not translate |out| by ({px},{py}) samples (rel. err {err:.3g})'
    return None


def pred_tilt_unfocus_fixed(c):
    """a point source at focal sample (py, px) from the origin unfocuses to exp(+2 pi i (x xi0 + y eta0)/(lam f))"""
    pr, _ = _impl()
    M, N, m, n = c['M'], c['N'], c['m'], c['n']     # focal shape, pupil shape
    lam, efl, dxf, dxp = c['lam'], c['efl'], c['dx'], c['dxo']
    F = np.zeros((M, N), dtype=complex)
    F[M // 2 + c['pos'][0], N // 2 + c['pos'][1]] = 1.5 - 0.5j
    wf = pr.Wavefront(F, lam, dxf, 'psf')
    I0 = wf.intensity
    eta0, xi0 = I0.y[M // 2 + c['pos'][0], 0], I0.x[0, N // 2 + c['pos'][1]]
    pup = wf.unfocus_fixed_sampling(efl, dxp, L.samples_arg(c.get('sform', 'tuple'), m, n), method=c['method'])
    bad = L.check_wavefront(pup, 'unfocus_fixed_sampling(...)', (m, n), dxp, lam, 'pupil')
    if bad:
        return bad
    P = pup.phase
    X, Y = P.x, P.y
    ref = np.exp(2j * np.pi * (X * xi0 + Y * eta0) / (lam * efl))
    got = pup.data / pup.data[m // 2, n // 2]
    err = _relerr(got, ref)
    if err > TOL:
        return (f'pupil field of a spot at ({xi0:.6g},{eta0:.6g}) is not the tilt exp(2 pi i (x xi0 + y eta0)/(lambda f)) '
                f'in the reported pupil coordinates (rel. err {err:.3g})')
    return None


def pred_tilt_unfocus_fft(c, axis1_only=False):
    pr, _ = _impl()
    M, N, Q = c['m'], c['n'], c['Q']
    lam, efl, dxf = c['lam'], c['efl'], c['dx']
    F = np.zeros((M, N), dtype=complex)
    F[M // 2 + c['pos'][0], N // 2 + c['pos'][1]] = 1.5 - 0.5j
    wf = pr.Wavefront(F, lam, dxf, 'psf')
    eta0, xi0 = c['pos'][0] * dxf, c['pos'][1] * dxf
    pup = wf.unfocus(efl, Q)
    Mp, Np = pup.data.shape
    P = pup.phase
    X, Y = P.x, P.y
    if axis1_only:
        Y = np.broadcast_to((_cen(Mp) * lam * efl / (Mp * dxf))[:, None], (Mp, Np))
    ref = np.exp(2j * np.pi * (X * xi0 + Y * eta0) / (lam * efl))
    got = pup.data / pup.data[Mp // 2, Np // 2]
    err = _relerr(got, ref)
    if err > TOL:
        return (f'pupil field of a spot at ({xi0:.6g},{eta0:.6g}) is not the corresponding tilt in the reported pupil '
                f'coordinates (dx={pup.dx:.6g}; rel. err {err:.3g})')
    return None


def _pad_ref(f, shape):
    """zero-pad with the origin sample (i//2) of every axis on the origin sample of the output"""
    out = np.zeros(shape, dtype=complex)
    m, n = f.shape
    b0, b1 = shape[0] // 2 - m // 2, shape[1] // 2 - n // 2
    out[b0:b0 + m, b1:b1 + n] = f
    return out


def pred_chain(c, axis1_only=False):
    """chains of routes on Wavefront objects (the spacing one route REPORTS is what the next one ACCEPTS):
    fft-fft     focus(Q).unfocus(1) / unfocus(Q).focus(1): spacing, space and (padded) field come back
    fft-fixed   focus(Q) against focus_fixed_sampling(dx = the reported dx, samples = the padded shape): the same array
                (same for unfocus / unfocus_fixed_sampling)
    fft-ufs     focus(Q) then unfocus_fixed_sampling(original dx, original shape): the original field
    ffs-fft     focus_fixed_sampling on the complete N x N FFT grid then unfocus(1): the padded original field, original dx
    A non-square padded array is the known finding (one dx for two spacings): then only row Mp//2 (eta = 0) is compared for
    fft-fixed, and fft-ufs is compared through the true per-axis spacings (executor-level per-axis Q) -- see is_known."""
    pr, ft = _impl()
    m, n, Q = c['m'], c['n'], c['Q']
    lam, efl, dx = c['lam'], c['efl'], c['dx']
    fwd = c['dir'] == 'fwd'
    f = L.case_field(c)
    f0 = f.copy()
    fc = L.as_complex(f)
    sp_in, sp_out = ('pupil', 'psf') if fwd else ('psf', 'pupil')
    wf = pr.Wavefront(f, lam, dx, sp_in)
    go, back = (('focus', 'unfocus') if fwd else ('unfocus', 'focus'))
    go_fs, back_fs = (('focus_fixed_sampling', 'unfocus_fixed_sampling') if fwd else ('unfocus_fixed_sampling', 'focus_fixed_sampling'))
    kind = c['chain']
    if kind in ('fft-fft', 'fft-fixed', 'fft-ufs'):
        mid = getattr(wf, go)(efl, Q)
        Mp, Np = mid.data.shape
        dx_mid = lam * efl / (Np * dx)
        bad = L.check_wavefront(mid, f'{go}(...)', None, dx_mid, lam, sp_out)
        if bad:
            return bad
        if Mp < m or Np < n:
            return f'{go}(Q={Q}) returned a {Mp}x{Np} array for a {m}x{n} input'
        if kind == 'fft-fft':
            end = getattr(mid, back)(efl, 1)
            bad = L.check_wavefront(end, f'{go}(Q).{back}(1)', (Mp, Np), dx, lam, sp_in)
            if bad:
                return bad
            err = _relerr(end.data, _pad_ref(fc, (Mp, Np)))
            if err > TOL:
                return f'{go}(efl, {Q}).{back}(efl, 1) does not return the zero-padded field (rel. err {err:.3g})'
        elif kind == 'fft-fixed':
            fs = getattr(wf, go_fs)(efl, mid.dx, (Mp, Np), method=c['method'])
            bad = L.check_wavefront(fs, f'{go_fs}(...)', (Mp, Np), dx_mid, lam, sp_out)
            if bad:
                return bad
            # non-square padded array (known finding): the rows at eta = 0 still agree, up to the ratio of the norms
            # (FFT: 1/sqrt(Mp Np); fixed sampling at one dx for both axes: dx dxo/(lam f) = 1/Np)
            a, b = (fs.data, mid.data) if not axis1_only else (fs.data[Mp // 2] * np.sqrt(Np / Mp), mid.data[Mp // 2])
            err = _relerr(a, b)
            if err > TOL:
                return (f'{go_fs}(dx = the dx {go}(efl, {Q}) reports, samples = its shape, method={c["method"]}) is not the array '
                        f'{go} returns (rel. err {err:.3g}{", row eta=0 only" if axis1_only else ""})')
        else:
            if axis1_only:
                # per-axis true spacings through the executor (the Wavefront API has one dx): Q_a = lam efl/(N_a dx_a_mid dx)
                ex = ft.mdft if c['method'] == 'mdft' else ft.czt
                inv = (ex.idft2 if c['method'] == 'mdft' else ex.iczt2) if fwd else (ex.dft2 if c['method'] == 'mdft' else ex.czt2)
                end_data = inv(mid.data, (1.0, 1.0), (m, n))
            else:
                end = getattr(mid, back_fs)(efl, dx, (m, n), method=c['method'])
                bad = L.check_wavefront(end, f'{go}(Q).{back_fs}(...)', (m, n), dx, lam, sp_in)
                if bad:
                    return bad
                end_data = end.data
            err = _relerr(end_data, fc)
            if err > TOL:
                return (f'{go}(efl, {Q}) followed by {back_fs}(efl, original dx, original shape, method={c["method"]}) does not '
                        f'return the original field (rel. err {err:.3g})')
    elif kind == 'ffs-fft':
        N = c['N']
        dxo = lam * efl / (N * dx)
        mid = getattr(wf, go_fs)(efl, dxo, N if c.get('sform') == 'int' else (N, N), method=c['method'])
        bad = L.check_wavefront(mid, f'{go_fs}(...)', (N, N), dxo, lam, sp_out)
        if bad:
            return bad
        end = getattr(mid, back)(efl, 1)
        bad = L.check_wavefront(end, f'{go_fs}(...).{back}(1)', (N, N), dx, lam, sp_in)
        if bad:
            return bad
        err = _relerr(end.data, _pad_ref(fc, (N, N)))
        if err > TOL:
            return (f'{go_fs}(complete {N}x{N} FFT grid, method={c["method"]}) followed by {back}(efl, 1) does not return the '
                    f'zero-padded field (rel. err {err:.3g})')
    else:
        return f'unknown chain {kind}'
    if f.dtype != f0.dtype or not np.array_equal(f, f0):
        return 'the input array was modified in place'
    return None


def pred_grid(c):
    """coordinates attached to data: make_xy_grid(shape, dx=...) / (shape, diameter=...) / RichData.x,.y / Wavefront.x,.y:
    sample [k,l] sits at ((k - m//2) step, (l - n//2) step), step = dx or diameter / max(shape); x varies along axis 1"""
    pr, _ = _impl()
    from prysm.coordinates import make_xy_grid
    from prysm._richdata import RichData
    m, n, dx = c['m'], c['n'], c['dx']
    xr, yr = _cen(n) * dx, _cen(m) * dx

    def cmp(x, y, what, step_ratio=1.0, grid=True):
        X, Y = np.meshgrid(xr * step_ratio, yr * step_ratio)
        if not grid:
            X, Y = xr * step_ratio, yr * step_ratio
        x, y = np.asarray(x), np.asarray(y)
        if x.shape != X.shape or y.shape != Y.shape:
            return f'{what}: x has shape {x.shape}, y has shape {y.shape}; expected {X.shape}, {Y.shape}'
        if np.abs(x - X).max() > 1e-12 * max(1.0, np.abs(X).max()) or np.abs(y - Y).max() > 1e-12 * max(1.0, np.abs(Y).max()):
            return f'{what}: sample [k,l] is not at ((k - {m}//2) step, (l - {n}//2) step)'
        return None
    kind = c['kind']
    if kind == 'dx':
        return cmp(*make_xy_grid((m, n), dx=dx), 'make_xy_grid(shape, dx=dx)')
    if kind == 'dx-vectors':
        return cmp(*make_xy_grid((m, n), dx=dx, grid=False), 'make_xy_grid(shape, dx=dx, grid=False)', grid=False)
    if kind == 'diameter':
        D = c['D']
        return cmp(*make_xy_grid((m, n), diameter=D), 'make_xy_grid(shape, diameter=D)', step_ratio=D / max(m, n) / dx)
    if kind == 'int':
        x, y = make_xy_grid(m, dx=dx)
        X, Y = np.meshgrid(_cen(m) * dx, _cen(m) * dx)
        if x.shape != X.shape or np.abs(x - X).max() > 1e-12 * max(1, np.abs(X).max()) or np.abs(y - Y).max() > 1e-12 * max(1, np.abs(Y).max()):
            return 'make_xy_grid(int, dx=dx) is not the square grid of that size'
        return None
    data = np.zeros((m, n))
    if kind == 'richdata':
        rdt = RichData(data, dx, 0.5)
        bad = cmp(rdt.x, rdt.y, 'RichData.x/.y')
        if bad is None:
            rdt2 = RichData(data, dx, 0.5)
            bad = cmp(rdt2.x, rdt2.y[:], 'RichData.x/.y') or cmp(RichData(data, dx, 0.5).x, RichData(data, dx, 0.5).y, 'RichData.y first')
            r3 = RichData(data, dx, 0.5)
            y3 = r3.y          # .y asked for first
            bad = bad or cmp(r3.x, y3, 'RichData (.y read before .x)')
        return bad
    if kind == 'wavefront':
        wf = pr.Wavefront(data + 1.0, 0.5, dx, c.get('space', 'pupil'))
        for view in ('intensity', 'phase'):
            v = getattr(wf, view)
            bad = cmp(v.x, v.y, f'Wavefront.{view}.x/.y')
            if bad:
                return bad
        return None
    return f'unknown grid kind {kind}'


def pred_tilt(c):
    """the pupil `Wavefront.from_amp_and_phase` builds from an OPD of k waves across the aperture is the tilt
    exp(2 pi i (kx (i - n//2)/n + ky (j - m//2)/m))"""
    pr, _ = _impl()
    m, n = c['m'], c['n']
    wf = tilted_pupil(pr, m, n, c['dx'], c['lam'], c['ky'], c['kx'])
    ref = np.exp(2j * np.pi * (np.outer(c['ky'] * _cen(m) / m, np.ones(n)) + np.outer(np.ones(m), c['kx'] * _cen(n) / n)))
    err = _relerr(wf.data, ref)
    if err > TOL:
        return f'from_amp_and_phase pupil is not the ({c["kx"]},{c["ky"]})-wave tilt (rel. err {err:.3g})'
    return None


PREDS = {'phys_vs_model': pred_phys_fixed, 'ffs': pred_pure, 'ufs': pred_pure, 'fft_focus': pred_pure, 'fft_unfocus': pred_pure, 'conv': pred_conv, 'spot_fixed': pred_spot_fixed, 'spot_fft': pred_spot_fft, 'phys_fixed': pred_phys_fixed,
         'shift_fixed': pred_shift_fixed, 'tilt_unfocus_fixed': pred_tilt_unfocus_fixed,
         'tilt_unfocus_fft': pred_tilt_unfocus_fft, 'chain': pred_chain, 'grid': pred_grid, 'tilt_vs_model': pred_tilt}


def is_known(item, c):
    """the listed known finding: FFT route whose padded array is not square (one dx reported for two different spacings)"""
    if item in ('spot_fft', 'tilt_unfocus_fft'):
        Mp, Np = fft_padded_shape(c)
        return Mp != Np
    if item == 'chain' and c['chain'] in ('fft-fixed', 'fft-ufs'):
        Mp, Np = fft_padded_shape(c)
        return Mp != Np
    return False


def eval_pred(item, c, ctx=None):
    """-> None or detail string; exceptions count as failures.  Known-finding inputs are checked on axis 1 only."""
    try:
        if is_known(item, c):
            if ctx is not None:
                ctx.filtered_known[KNOWN_KEY] += 1
            return PREDS[item](c, axis1_only=True)
        return PREDS[item](c)
    except Exception as ex:   # noqa
        return f'raised {type(ex).__name__}: {ex}'


def _witness():
    """True while Wavefront.focus reports, for a non-square padded array, a dx that is not the spacing of axis 0
    (evaluated directly; an unrelated exception does not count as the finding)"""
    try:
        pr, _ = _impl()
        lam, efl, dx = 0.5, 100.0, 0.5
        psf = pr.Wavefront(np.ones((8, 12), dtype=complex), lam, dx).focus(efl, Q=1)
        true_dy = lam * efl / (psf.data.shape[0] * dx)
        return psf.data.shape[0] != psf.data.shape[1] and abs(float(psf.dx) - true_dy) > 1e-9 * true_dy
    except Exception:
        return False


KNOWN = {KNOWN_KEY: {'witness': _witness}}


# ------------------------------------------------------------------------------------------------
# case generation
# ------------------------------------------------------------------------------------------------
TILTS = [0, 1, -1, 2.5, -2.5, 3, -1.75, 2]
SHIFTS = [(0, 0), (1, 0), (0, -2), (2.5, 0), (0, -2.5), (1.5, -2.25), (-3, 2), (0.5, 0.5)]
FACT = [1.0, 0.5, 1.7, 0.31, 0.8]
QS = [1, 2, 3, 1.5, 2.37]


def _optics(rng):
    lam = float(np.exp(rng.uniform(np.log(0.4), np.log(2.0))))
    efl = float(np.exp(rng.uniform(np.log(50), np.log(2000))))
    dx = float(np.exp(rng.uniform(np.log(0.05), np.log(2.0))))
    return lam, efl, dx


def _shape(rng, hi, lo=3):
    m, n = int(rng.integers(lo, hi + 1)), int(rng.integers(lo, hi + 1))
    return m, n


def gen_fixed(rng, hi, i, direction='fwd', lo=1):
    m, n = _shape(rng, hi, lo)
    if rng.integers(4) == 0:
        n = m
    M, N = _shape(rng, hi + 4, 1 if lo == 1 else 2)
    if rng.integers(4) == 0:
        N = M
    lam, efl, dx = _optics(rng)
    fac = FACT[int(rng.integers(len(FACT)))]
    ref = n if rng.integers(2) else m
    dxo = fac * lam * efl / (ref * dx)
    sh = SHIFTS[int(rng.integers(len(SHIFTS)))] if rng.integers(3) else (0, 0)
    dtype, layout = L.draw_kind(rng)
    sform, hform = L.draw_forms(rng, M, N, sh)
    return {'dir': direction, 'm': m, 'n': n, 'M': M, 'N': N, 'lam': lam, 'efl': efl, 'dx': dx, 'dxo': dxo,
            'shift': list(sh), 'method': 'czt' if (i + int(rng.integers(2))) % 2 else 'mdft', 'seed': int(rng.integers(1 << 30)),
            'dtype': dtype, 'layout': layout, 'sform': sform, 'hform': hform, 'api': 'function' if rng.integers(3) == 0 else 'wrapper'}


def gen_spot_fixed(rng, hi, i):
    c = gen_fixed(rng, hi, i, lo=3)
    m, n = c['m'], c['n']
    # window large enough to contain the spot: up to ~2x the samples of the pupil
    c['M'], c['N'] = int(rng.integers(max(4, m), 2 * m + 3)), int(rng.integers(max(4, n), 2 * n + 3))
    k = TILTS[int(rng.integers(len(TILTS)))]
    k2 = TILTS[int(rng.integers(len(TILTS)))] if i % 5 == 0 else 0
    c['ky'], c['kx'] = (k, k2) if i % 2 else (k2, k)
    del c['dir'], c['seed'], c['dtype'], c['layout'], c['api']
    return c


def gen_spot_fft(rng, hi, i):
    m, n = _shape(rng, hi, 4)
    if rng.integers(3):
        n = m
    lam, efl, dx = _optics(rng)
    k = TILTS[int(rng.integers(len(TILTS)))]
    k2 = TILTS[int(rng.integers(len(TILTS)))] if i % 5 == 0 else 0
    ky, kx = (k, k2) if i % 2 else (k2, k)
    return {'m': m, 'n': n, 'Q': QS[i % len(QS)], 'lam': lam, 'efl': efl, 'dx': dx, 'ky': ky, 'kx': kx}


def gen_tilt_unfocus(rng, hi, i, fft):
    M, N = _shape(rng, hi, 4)
    if fft and rng.integers(3):
        N = M
    lam, efl, dxf = _optics(rng)
    dxf = dxf * 10     # microns in the focal plane
    pos = [int(rng.integers(-(M // 2), M - M // 2)), int(rng.integers(-(N // 2), N - N // 2))]
    if fft:
        return {'m': M, 'n': N, 'Q': QS[i % len(QS)], 'lam': lam, 'efl': efl, 'dx': dxf, 'pos': pos}
    m, n = _shape(rng, hi, 3)
    fac = FACT[int(rng.integers(len(FACT)))]
    dxp = fac * lam * efl / ((N if i % 2 else M) * dxf)
    return {'M': M, 'N': N, 'm': m, 'n': n, 'lam': lam, 'efl': efl, 'dx': dxf, 'dxo': dxp, 'pos': pos,
            'method': 'czt' if i % 2 else 'mdft'}


def gen_chain(rng, hi, i):
    m, n = _shape(rng, hi, 1 if i % 7 == 0 else 2)
    if rng.integers(3) == 0:
        n = m
    lam, efl, dx = _optics(rng)
    dtype, layout = L.draw_kind(rng)
    kind = ('fft-fft', 'fft-fixed', 'fft-ufs', 'ffs-fft')[i % 4]
    c = {'chain': kind, 'dir': 'fwd' if (i // 4) % 2 == 0 else 'inv', 'm': m, 'n': n, 'Q': QS[int(rng.integers(len(QS)))],
         'lam': lam, 'efl': efl, 'dx': dx * (1 if (i // 4) % 2 == 0 else 10), 'method': 'czt' if int(rng.integers(2)) else 'mdft',
         'seed': int(rng.integers(1 << 30)), 'dtype': dtype, 'layout': layout}
    if kind == 'ffs-fft':
        c['N'] = max(m, n) + int(rng.integers(0, 6))
        c['sform'] = 'int' if rng.integers(2) else 'tuple'
    return c


def gen_grid(rng, hi, i):
    m, n = _shape(rng, hi + 4, 1)
    kinds = ('dx', 'dx-vectors', 'diameter', 'int', 'richdata', 'wavefront')
    return {'kind': kinds[i % len(kinds)], 'm': m, 'n': n, 'dx': float(np.exp(rng.uniform(-3, 3))), 'D': float(np.exp(rng.uniform(-2, 4))),
            'space': 'psf' if rng.integers(2) else 'pupil'}


def _nontrivial_spot(c):
    return (c['m'] > 1 and c['n'] > 1) and (c['ky'] != 0 or c['kx'] != 0 or any(c.get('shift', [0, 0])))


# ------------------------------------------------------------------------------------------------
# correspondence
# ------------------------------------------------------------------------------------------------
def _wire_field(f):
    out = []
    for v in f.ravel():
        out.append(C.f2w(v.real))
        out.append(C.f2w(v.imag))
    return out


def _unwire_field(tokens, shape):
    vals = np.array([C.w2f(t) for t in tokens])
    return (vals[0::2] + 1j * vals[1::2]).reshape(shape)


def correspondence(ctx):
    pr, ft = _impl()
    rng = ctx.rng
    hi = ctx.scale(12, 22)
    if ctx.widen:
        hi = max(hi, 16)
    n_model = ctx.scale(150, 500) * (2 if ctx.widen else 1)
    n_fft = ctx.scale(60, 200)
    n_pred = ctx.scale(400, 1500) * (2 if ctx.widen else 1)
    n_scal = ctx.scale(200, 2000)

    # ---------------- requests for the model
    lines, meta = [], []
    for i in range(n_scal):
        D, z, lam, dxo = [float(np.exp(rng.uniform(-3, 3))) for _ in range(4)]
        lines.append('q ' + ' '.join(C.f2w(v) for v in (D, z, lam, dxo)))
        meta.append(('q', (D, z, lam, dxo)))
        N = float(rng.integers(1, 4096))
        lines.append('p2s ' + ' '.join(C.f2w(v) for v in (D, N, lam, z)))
        meta.append(('p2s', (D, N, lam, z)))
        lines.append('s2p ' + ' '.join(C.f2w(v) for v in (D, N, lam, z)))
        meta.append(('s2p', (D, N, lam, z)))
    for i in range(n_model):
        for direction in ('fwd', 'inv'):
            c = gen_fixed(rng, hi, i, direction)
            f = L.case_field(c)
            sx, sy = L.eff_shift(c, c['dxo'])
            head = ['fs', direction, str(c['m']), str(c['n']), str(c['M']), str(c['N'])]
            nums = [C.f2w(v) for v in (c['dx'], c['efl'], c['lam'], c['dxo'], sx, sy)]
            lines.append(' '.join(head + nums + _wire_field(L.as_complex(f))))
            meta.append(('fs', (c, f, sx, sy)))
    for i in range(n_fft):
        for direction in ('fwd', 'inv'):
            m, n = _shape(rng, hi, 1)
            if i % 3 == 0:
                n = m
            lam, efl, dx = _optics(rng)
            Q = QS[i % len(QS)]
            seed = int(rng.integers(1 << 30))
            dtype, layout = L.draw_kind(rng)
            c = {'dir': direction, 'm': m, 'n': n, 'Q': Q, 'lam': lam, 'efl': efl, 'dx': dx, 'seed': seed, 'dtype': dtype, 'layout': layout}
            f = L.case_field(c)
            item = 'fft_focus' if direction == 'fwd' else 'fft_unfocus'
            try:
                wf = pr.Wavefront(f, lam, dx, 'pupil' if direction == 'fwd' else 'psf')
                out = C.pure_call(ctx, item, c, wf.focus if direction == 'fwd' else wf.unfocus, efl, Q)
                Mp, Np = out.data.shape
            except Exception as ex:
                ctx.case(item, c, nontrivial=m * n > 1, tag=f'Q{Q}/raised')
                ctx.disagree(item, c, f'raised {type(ex).__name__}: {ex}', 'model returns a field')
                continue
            if Mp < m or Np < n:
                ctx.case(item, c, nontrivial=m * n > 1, tag=f'Q{Q}/shrunk')
                ctx.disagree(item, c, [Mp, Np], f'>= {[m, n]}', note='padded array smaller than the input')
                continue
            lines.append(' '.join(['fft', direction, str(m), str(n), str(Mp), str(Np)] + [C.f2w(v) for v in (dx, lam, efl)]
                                  + _wire_field(L.as_complex(f))))
            meta.append(('fft', (c, f, out)))
    # a few points straight from Model.C03.fixedSampling (no memoisation in the driver): ties the table to the definition
    pts = []
    for i in range(6):
        c = gen_fixed(rng, 7, i, 'fwd' if i % 2 else 'inv')
        f = L.case_field(c)
        sx, sy = L.eff_shift(c, c['dxo'])
        k, l = int(rng.integers(c['M'])), int(rng.integers(c['N']))
        head = ['fspt', c['dir'], str(c['m']), str(c['n']), str(c['M']), str(c['N']), str(k), str(l)]
        nums = [C.f2w(v) for v in (c['dx'], c['efl'], c['lam'], c['dxo'], sx, sy)]
        lines.append(' '.join(head + nums + _wire_field(L.as_complex(f))))
        meta.append(('fspt', (c, f, sx, sy, k, l)))
    # the physical integral Model.C03.F2 and the tilt Model.C03.tilt THEMSELVES (the subjects of the spot / tilt theorems), against
    # the real code at the coordinates the real code reports
    for i in range(ctx.scale(40, 150)):
        c = gen_fixed(rng, min(hi, 10), i, 'fwd' if i % 2 else 'inv', lo=1)
        c['api'], c['sform'], c['hform'] = 'wrapper', 'tuple', 'tuple'
        f = L.case_field(c)
        sx, sy = L.eff_shift(c, c['dxo'])
        fwd = c['dir'] == 'fwd'
        try:
            wf = pr.Wavefront(f, c['lam'], c['dx'], 'pupil' if fwd else 'psf')
            out = (wf.focus_fixed_sampling if fwd else wf.unfocus_fixed_sampling)(c['efl'], c['dxo'], (c['M'], c['N']),
                                                                                  shift=(sx, sy), method=c['method'])
            I = out.intensity
            k, l = int(rng.integers(c['M'])), int(rng.integers(c['N']))
            eta, xi = float(I.y[k, 0]) - sy, float(I.x[0, l]) - sx
            val = complex(out.data[k, l])
        except Exception as ex:
            ctx.case('phys_vs_model', c, nontrivial=c['m'] * c['n'] > 1, tag='raised')
            ctx.disagree('phys_vs_model', c, f'raised {type(ex).__name__}: {ex}', 'model returns a value')
            continue
        lines.append(' '.join(['F2', c['dir'], str(c['m']), str(c['n'])] + [C.f2w(v) for v in (c['dx'], c['lam'], c['efl'], eta, xi)]
                              + _wire_field(L.as_complex(f))))
        meta.append(('F2', (c, k, l, val, float(np.abs(out.data).max()))))
    for i in range(ctx.scale(30, 100)):
        c = gen_spot_fixed(rng, hi, i)
        for ax, (size, kk) in enumerate(((c['m'], c['ky']), (c['n'], c['kx']))):
            lines.append(f"tilt {size} {C.f2w(float(kk))}")
            meta.append(('tilt', (c, ax)))
    replies = C.lean_driver('C03', lines)

    # ---------------- compare
    for (kind, dat), rep in zip(meta, replies):
        if rep == 'bad-op':
            raise C.ToolError(f'driver rejected a {kind} request')
        if kind in ('q', 'p2s', 's2p'):
            fn = {'q': pr.Q_for_sampling, 'p2s': pr.pupil_sample_to_psf_sample, 's2p': pr.psf_sample_to_pupil_sample}[kind]
            case = {'op': kind, 'args': list(dat)}
            ctx.case('scalar', case, nontrivial=True, tag=kind)
            try:
                got = float(fn(*dat))
            except Exception as ex:
                ctx.disagree('scalar', case, f'raised {type(ex).__name__}: {ex}', C.w2f(rep))
                continue
            mod = C.w2f(rep)
            if not abs(got - mod) <= 1e-13 * abs(mod):
                ctx.disagree('scalar', case, got, mod)
            continue
        if kind in ('fs', 'fspt'):
            c, f, sx, sy = dat[:4]
            fn = pr.focus_fixed_sampling if c['dir'] == 'fwd' else pr.unfocus_fixed_sampling
            item = 'ffs' if c['dir'] == 'fwd' else 'ufs'
            tag = (f"{c['method']}/{'sq' if c['m'] == c['n'] else 'nonsq'}/par{c['m'] % 2}{c['n'] % 2}/"
                   f"{'shift' if any(c['shift']) else 'noshift'}/{c['dtype']}-{c['layout']}/samples-{c['sform']}/shift-{c['hform']}")
            ctx.case(item, c, nontrivial=c['m'] * c['n'] > 1, tag=tag)
            try:
                A = L.Args()
                out = C.pure_call(ctx, item, c, L.call_fixed, fn, f, c['dx'], c['efl'], c['lam'], c['dxo'], c['M'], c['N'], sx, sy,
                                  c['method'], c['sform'], c['hform'], A)
                if A.changed():
                    ctx.pred_fail(item, c, A.changed())
            except Exception as ex:
                ctx.disagree(item, c, f'raised {type(ex).__name__}: {ex}', 'model returns a field')
                continue
            if kind == 'fspt':
                k, l = dat[4], dat[5]
                re, im = rep.split()
                mod = C.w2f(re) + 1j * C.w2f(im)
                if out.shape != (c['M'], c['N']):
                    ctx.disagree(item, c, list(out.shape), list((c['M'], c['N'])), note='shape')
                    continue
                d = abs(out[k, l] - mod) if not any(c['shift']) else abs(abs(out[k, l]) - abs(mod))
                if d > L.tol_of(c, TOL) * max(1.0, np.abs(out).max()):
                    ctx.disagree(item, dict(c, point=[k, l]), complex(out[k, l]), mod, note='Model.C03.fixedSampling pointwise')
                continue
            mod = _unwire_field(rep.split(), (c['M'], c['N']))
            if out.shape != mod.shape:
                ctx.disagree(item, c, list(out.shape), list(mod.shape))
                continue
            # the property's equivalence: complex values at zero shift, moduli when a shift is requested (a shifted
            # transform is only defined up to a unit phase per output sample; C05 checks the phase consistency of the legs)
            a, b = (out, mod) if not (sx or sy) else (np.abs(out), np.abs(mod))
            err = _relerr(a, b)
            if err > L.tol_of(c, TOL):
                k, l = np.unravel_index(np.argmax(np.abs(a - b)), out.shape)
                ctx.disagree(item, c, f'out[{k},{l}]={complex(out[k, l]):.6g}', f'{complex(mod[k, l]):.6g} (rel. err {err:.3g})')
            continue
        if kind == 'F2':
            c, k, l, val, scale = dat
            ctx.case('phys_vs_model', dict(c, point=[k, l]), nontrivial=c['m'] * c['n'] > 1,
                     tag=f"{c['dir']}/{c['method']}/{'shift' if any(c['shift']) else 'noshift'}/{'sq' if c['m'] == c['n'] else 'nonsq'}")
            re, im = rep.split()
            mod = (c['dx'] * c['dxo'] / (c['lam'] * c['efl'])) * (C.w2f(re) + 1j * C.w2f(im))
            d = abs(val - mod) if not any(c['shift']) else abs(abs(val) - abs(mod))
            if d > TOL * max(1.0, scale):
                ctx.disagree('phys_vs_model', c, f'out[{k},{l}] = {val:.6g}', f'norm * Model.C03.F2 at the reported coordinates = {mod:.6g}')
            continue
        if kind == 'tilt':
            c, ax = dat
            size = c['m'] if ax == 0 else c['n']
            case = {'m': c['m'], 'n': c['n'], 'dx': c['dx'], 'lam': c['lam'], 'ky': c['ky'], 'kx': c['kx']}
            ctx.case('tilt_vs_model', dict(case, axis=ax), nontrivial=size > 1 and (c['ky'], c['kx'])[ax] != 0,
                     tag=f"axis{ax}/{'frac' if (c['ky'], c['kx'])[ax] % 1 else 'int'}")
            mod = _unwire_field(rep.split(), (size,)) if size else np.zeros(0)
            try:
                wf = tilted_pupil(pr, c['m'], c['n'], c['dx'], c['lam'], c['ky'], c['kx'])
                # along the axis, through the origin sample of the other axis (where the other tilt's phase is zero)
                got = wf.data[:, c['n'] // 2] if ax == 0 else wf.data[c['m'] // 2, :]
            except Exception as ex:
                ctx.disagree('tilt_vs_model', case, f'raised {type(ex).__name__}: {ex}', 'model returns a tilt')
                continue
            if got.shape != mod.shape or _relerr(got, mod) > TOL:
                ctx.disagree('tilt_vs_model', case, 'pupil built by from_amp_and_phase', 'Model.C03.tilt', note=f'axis {ax}')
            continue
        if kind == 'fft':
            c, f, out = dat
            item = 'fft_focus' if c['dir'] == 'fwd' else 'fft_unfocus'
            toks = rep.split()
            dxm = C.w2f(toks[0])
            Mp, Np = out.data.shape
            ctx.case(item, c, nontrivial=c['m'] * c['n'] > 1,
                     tag=f"Q{c['Q']}/{'sq' if Mp == Np else 'nonsq'}/par{c['m'] % 2}{c['n'] % 2}/{c['dtype']}-{c['layout']}")
            bad = L.check_wavefront(out, 'focus(...)' if c['dir'] == 'fwd' else 'unfocus(...)', (Mp, Np), dxm, c['lam'],
                                    'psf' if c['dir'] == 'fwd' else 'pupil')
            if bad:
                ctx.disagree(item, c, bad, f'dx = {dxm}', note='returned Wavefront')
            mod = _unwire_field(toks[1:], (Mp, Np))
            err = _relerr(out.data, mod)
            if err > TOL:
                ctx.disagree(item, c, 'field', f'rel. err {err:.3g}')

    # ---------------- property predicates on the real code
    def run(item, c, nontrivial=True, tag=None):
        ctx.case(item, c, nontrivial=nontrivial, tag=tag)
        d = eval_pred(item, c, ctx)
        if d is not None:
            ctx.pred_fail(item, c, d)

    for c in _corpus():
        run(c['item'], c['input'], tag='corpus')
    for i in range(ctx.scale(100, 1000)):
        x, lam, efl = [float(np.exp(rng.uniform(-3, 3))) for _ in range(3)]
        run('conv', {'x': x, 'N': int(rng.integers(1, 4096)), 'lam': lam, 'efl': efl, 'q': float(QS[i % len(QS)])})
    for i in range(n_pred):
        c = gen_spot_fixed(rng, hi, i)
        run('spot_fixed', c, _nontrivial_spot(c),
            tag=f"{c['method']}/{'sq' if c['m'] == c['n'] else 'nonsq'}/{'frac' if (c['kx'] % 1 or c['ky'] % 1) else 'int'}")
    for i in range(n_pred // 2):
        c = gen_spot_fft(rng, hi, i)
        Mp, Np = fft_padded_shape(c)
        run('spot_fft', c, _nontrivial_spot(c), tag=f"Q{c['Q']}/{'sq' if Mp == Np else 'nonsq-known'}")
    for i in range(n_pred // 2):
        for direction in ('fwd', 'inv'):
            c = gen_fixed(rng, hi, i, direction)
            run('phys_fixed', c, c['m'] * c['n'] > 1, tag=f"{direction}/{c['method']}/{'sq' if c['m'] == c['n'] else 'nonsq'}")
    for i in range(n_pred // 3):
        c = gen_fixed(rng, hi, i, 'fwd' if i % 2 else 'inv')
        c['p'] = [int(rng.integers(-3, 4)), int(rng.integers(-3, 4))]
        run('shift_fixed', c, any(c['p']), tag=c['method'])
    for i in range(n_pred // 3):
        c = gen_tilt_unfocus(rng, hi, i, fft=False)
        run('tilt_unfocus_fixed', c, any(c['pos']), tag=c['method'])
        c = gen_tilt_unfocus(rng, hi, i, fft=True)
        Mp, Np = fft_padded_shape(c)
        run('tilt_unfocus_fft', c, any(c['pos']), tag=f"Q{c['Q']}/{'sq' if Mp == Np else 'nonsq-known'}")
    for i in range(n_pred // 2):
        c = gen_chain(rng, hi, i)
        Mp, Np = fft_padded_shape(c) if c['chain'] != 'ffs-fft' else (c['N'], c['N'])
        run('chain', c, c['m'] * c['n'] > 1,
            tag=f"{c['chain']}/{c['dir']}/{c['method'] if c['chain'] != 'fft-fft' else '-'}/{'sq' if Mp == Np else 'nonsq'}/Q{c['Q'] if c['chain'] != 'ffs-fft' else '-'}")
    for i in range(n_pred // 4):
        c = gen_grid(rng, hi, i)
        run('grid', c, c['m'] * c['n'] > 1, tag=f"{c['kind']}/{'sq' if c['m'] == c['n'] else 'nonsq'}/par{c['m'] % 2}{c['n'] % 2}")


# ------------------------------------------------------------------------------------------------
# search / replay
# ------------------------------------------------------------------------------------------------
def _corpus():
    out = []
    for p in sorted(glob.glob(os.path.join(C.VERIF, 'corpus', 'C03', '*.json'))):
        try:
            out.append(json.load(open(p)))
        except Exception:
            pass
    return out


def _small_scope():
    """systematic small cases, smallest first"""
    lam, efl, dx = 0.5, 100.0, 0.5
    shapes = [(4, 4), (4, 6), (6, 4), (5, 5), (5, 8), (8, 5), (7, 7), (8, 8), (6, 9), (9, 6)]
    yield 'conv', {'x': 0.5, 'N': 8, 'lam': lam, 'efl': efl, 'q': 2.0}
    yield 'conv', {'x': 0.37, 'N': 9, 'lam': 0.6328, 'efl': 123.0, 'q': 1.5}
    for (m, n) in shapes:
        for method in ('mdft', 'czt'):
            for (ky, kx) in ((0, 0), (0, 1), (1, 0), (0, -1.5), (2.5, 0)):
                for sh in ((0, 0), (1, 0), (0, 1), (0.5, -1.5)):
                    for fac in (1.0, 0.5, 1.7):
                        for ref in (m, n):
                            yield 'spot_fixed', {'m': m, 'n': n, 'M': 2 * m + 1, 'N': 2 * n, 'lam': lam, 'efl': efl, 'dx': dx,
                                                 'dxo': fac * lam * efl / (ref * dx), 'shift': list(sh), 'method': method,
                                                 'ky': ky, 'kx': kx}
        for Q in (1, 2, 1.5):
            for (ky, kx) in ((0, 0), (0, 1), (1, 0), (-1.5, 2)):
                yield 'spot_fft', {'m': m, 'n': n, 'Q': Q, 'lam': lam, 'efl': efl, 'dx': dx, 'ky': ky, 'kx': kx}
            for pos in ((0, 0), (0, 1), (1, 0), (-1, 1), (-2, -1)):
                yield 'tilt_unfocus_fft', {'m': m, 'n': n, 'Q': Q, 'lam': lam, 'efl': efl, 'dx': 5.0, 'pos': list(pos)}
            for direction in ('fwd', 'inv'):
                for kind in ('fft-fft', 'fft-fixed', 'fft-ufs', 'ffs-fft'):
                    for method in (('mdft', 'czt') if kind != 'fft-fft' else ('mdft',)):
                        c = {'chain': kind, 'dir': direction, 'm': m, 'n': n, 'Q': Q, 'lam': lam, 'efl': efl,
                             'dx': dx if direction == 'fwd' else 5.0, 'method': method, 'seed': 11}
                        if kind == 'ffs-fft':
                            if Q != 1:
                                continue
                            c['N'] = max(m, n) + 1
                        yield 'chain', c
        for kind in ('dx', 'dx-vectors', 'diameter', 'int', 'richdata', 'wavefront'):
            yield 'grid', {'kind': kind, 'm': m, 'n': n, 'dx': 0.25, 'D': 3.0}
        for method in ('mdft', 'czt'):
            for direction in ('fwd', 'inv'):
                for sh in ((0, 0), (1, -2), (0.5, 1.25)):
                    c = {'dir': direction, 'm': m, 'n': n, 'M': n + 1, 'N': m + 2, 'lam': lam, 'efl': efl, 'dx': dx,
                         'dxo': 0.8 * lam * efl / (n * dx), 'shift': list(sh), 'method': method, 'seed': 7}
                    yield 'phys_fixed', c
                    yield 'shift_fixed', dict(c, p=[1, -2])
                    if (m, n) in ((4, 4), (4, 6), (5, 8)):
                        for dtype in ('f8', 'i8', 'b1'):
                            yield 'phys_fixed', dict(c, dtype=dtype, layout='T' if dtype == 'f8' else 'S', api='function')
                        if not any(sh):
                            yield 'phys_fixed', dict(c, hform='default', api='function')
                            yield 'phys_fixed', dict(c, hform='default', api='wrapper')
                        yield 'phys_fixed', dict(c, N=c['M'], sform='int', api='function')
                        yield 'phys_fixed', dict(c, N=c['M'], sform='int', api='wrapper')
                        yield 'phys_fixed', dict(c, sform='list', hform='array', api='function')
                        yield 'phys_fixed', dict(c, sform='array', hform='array', api='wrapper')
                        yield 'phys_fixed', dict(c, sform='array32', hform='array32', api='function')
                        yield 'phys_fixed', dict(c, sform='nptuple', hform='arrayint', api='wrapper')
                        yield 'phys_fixed', dict(c, hform='npscalars', api='function')
                        yield ('ffs' if direction == 'fwd' else 'ufs'), dict(c, sform='array', hform='array')
                        yield 'shift_fixed', dict(c, p=[1, -2], hform='array')
                        yield 'ffs' if direction == 'fwd' else 'ufs', c
            for pos in ((0, 0), (0, 1), (1, 0), (-1, 1), (-2, -1)):
                yield 'tilt_unfocus_fixed', {'M': m, 'N': n, 'm': n + 1, 'n': m + 2, 'lam': lam, 'efl': efl, 'dx': 5.0,
                                             'dxo': 0.8 * lam * efl / (n * 5.0), 'pos': list(pos), 'method': method}


def search(ctx, hints):
    # a case on which the correspondence saw the real code disagree with the model (or raise): evaluate the property's own
    # predicate for that item on exactly that input first
    for dg in (hints or {}).get('disagreements', [])[:50]:
        case = {k: v for k, v in dg['case'].items() if k != 'point'} if isinstance(dg.get('case'), dict) else None
        if case is not None and dg.get('item') in PREDS:
            d = eval_pred(dg['item'], case)
            if d is not None:
                return {'item': dg['item'], 'input': case, 'detail': d}
    for c in _corpus():
        d = eval_pred(c['item'], c['input'])
        if d is not None:
            return {'item': c['item'], 'input': c['input'], 'detail': d}
    for item, c in _small_scope():
        d = eval_pred(item, c)
        if d is not None:
            return {'item': item, 'input': c, 'detail': d}
    rng = np.random.Generator(np.random.PCG64(ctx.seed + 1000))
    for i in range(ctx.scale(300, 3000)):
        for item, c in (('spot_fixed', gen_spot_fixed(rng, 10, i)), ('spot_fft', gen_spot_fft(rng, 10, i)),
                        ('phys_fixed', gen_fixed(rng, 10, i, 'fwd' if i % 2 else 'inv')),
                        ('tilt_unfocus_fixed', gen_tilt_unfocus(rng, 10, i, False)),
                        ('tilt_unfocus_fft', gen_tilt_unfocus(rng, 10, i, True)), ('chain', gen_chain(rng, 10, i)),
                        ('grid', gen_grid(rng, 10, i))):
            d = eval_pred(item, c)
            if d is not None:
                return {'item': item, 'input': c, 'detail': d}
    return None


def replay(inp):
    item, c = inp['item'], inp['input']
    print('replaying', item, json.dumps(c))
    if item not in PREDS:
        print('no predicate for item', item)
        return False
    d = eval_pred(item, c)
    print('predicate on the real code, fresh process:', 'holds' if d is None else f'FAILS: {d}')
    if d is None:
        # the recorded failure may need earlier calls (state kept between calls): repeat after a deterministic history
        hist = L.prelude(c)
        d = eval_pred(item, c)
        print(f'after {hist}:', 'holds' if d is None else f'FAILS: {d}')
    return d is not None


MANIFEST_ENTRY = {
    'technique': 'Lean 4 proof (field algebra over translator-generated Q/shift/dx arithmetic; character-law Fourier lemmas; the '
                 "Bluestein / matrix-DFT theorems of C01 applied to this check's own re-translation of the executor glue) + "
                 'model-vs-implementation correspondence + physical-oracle predicates on the real outputs',
    'text': ('PROVED for all inputs (any field of scalars, any character e as the Fourier kernel, every array size/parity/shape): '
             'the pupil<->PSF spacing conversions are exact inverses; the per-axis Q that focus_fixed_sampling and '
             'unfocus_fixed_sampling hand to the transform satisfies 1/(n_a Q_a) = dx*dx_out/(lambda z) on BOTH axes; the shift '
             'reaches the transform as shift/dx_out on both axes; a single int sample count is broadcast to (M, M) and the default '
             'shift is zero; BOTH ENGINES over translated terms only: the matrix-DFT executor (wiring of shape/samples/shift to '
             'rows and columns, exponent scalars, norms) and the chirp-Z executor (index glue of _prepare_czt_basis, chirp '
             'constants, FFT convolution of any admissible length; inverse = conj o czt o conj), fed with the generated Q and '
             'shift pairs, equal the model fixedSampling sample for sample (so the two methods are one function), and the array '
             'the Lean driver prints is that model; every element of the model is norm * unit phase * the 2-D physical focusing '
             'integral at ((k-M//2) dx_out - shift_y, (l-N//2) dx_out - shift_x), also written in the reported coordinates '
             'fftrange(N)[l]*dx; the routes agree at the same physical place: a fixed-sampling sample (any requested dx, shift, generated Q/shift) and an FFT-route sample (as written: pad, rotate, DFT, rotate back) with the same physical coordinate are equal up to the unit phase of the shift, and focus_fixed_sampling asked for the reported FFT spacing and the padded length IS the FFT route sample for sample (both directions), and in 2-D with the norms of both routes (routes_agree_2d: x through the reported spacing, y through the true axis-0 spacing); the reported FFT spacing requested as output_dx makes both generated kernel constants 1/N1; focus(Q).unfocus(1) and unfocus(Q).focus(1) report the spacing they started from for every padded shape; the coordinate RichData.x/.y report, as translated (make_xy_grid step incl. the diameter branch, coordinate = fftrange value * step, which shape index feeds x / y, along which array axis each varies, unpack order), is (l - N//2) dx; tilt theorem (k waves across D move the focal field by exactly k lambda z/D, any real k) and spot '
             'location on both axes at once; a point source unfocuses to the corresponding 2-D tilt; p more output samples of '
             'shift (p any integer, either axis, either direction) translate the result by exactly p samples; FFT route: the '
             'transform / rotation names read off the source of focus and unfocus give the centred DFT (every length), which '
             'samples the integral at (l-N//2)*dx_reported on axis 1 always (focus and unfocus), spot location through the FFT '
             'route, and in 2-D with the ortho norm and the pad offset of the source the y coordinate is (k-M//2) times the TRUE '
             'axis-0 spacing, equal to the reported one iff the padded array is square (exact characterisation of the known '
             'finding); for a flat tilted pupil and the actual kernel exp(-2 pi i t) the continuous |F| is maximal at k lambda f/D. '
             'TRANSLATED from the current source each run (29 items): the three scalar conversions; the Q/shift/int-samples/'
             'default-shift/return-value glue of both fixed-sampling functions by symbolic execution (both method branches must '
             'receive the same arguments, the transform result must be returned untouched); which shape[k] feeds the dx of '
             'Wavefront.focus/unfocus and what they return; argument wiring, int broadcast and returned container of the Wavefront '
             'wrappers; transform and rotation names of the FFT one-liners; fftrange bounds; make_xy_grid / RichData.x,.y arithmetic (step, coordinate, axis assignment); and the engine glue of fttools.py '
             '(the items of tools/gen_c01.py re-emitted into Generated.C03). RECOGNISERS only (Bool facts, no arithmetic): '
             'spaces of returned Wavefronts, norm=ortho, make_xy_grid / RichData.x,.y / Wavefront.intensity carrying shape and dx. '
             'MODELLED AND COMPARED (not proved): that numpy/scipy execute the sums of the model (complex values at 1e-9 on fields '
             'of dtype complex/float/int/bool in C, Fortran, transposed and strided layout, 1-sample axes included, every documented '
             'spelling of sample counts and shifts, both methods and directions, purity of every call) and the property predicates '
             'on the real outputs (analytic pattern of a tilted aperture and direct physical integral at the REPORTED coordinates, '
             'complex at zero shift; brightest sample nearest to k lambda f/D; exact translation by shifts; spot -> tilt; dx, '
             'wavelength, space and shape of every returned Wavefront; route chains returning the padded / original field and the original dx, FFT route == fixed-sampling route at the reported dx; coordinate grids sample by sample; the Lean definitions the spot / tilt theorems are ABOUT are executed too: Model.C03.F2 (physical integral) at the coordinates the real result reports against the real array element, Model.C03.tilt against the pupil Wavefront.from_amp_and_phase builds). PARTIAL: FFT-route y-coordinate claims are restricted to '
             'square padded arrays (known finding fft-nonsquare-dx); the phase of a SHIFTED single transform is left free (moduli '
             'compared), its consistency between the legs is C05; "brightest array sample" is checked, only the continuous '
             'maximum is proved.'),
    'note': ('Trusted: Lean kernel + propext/Classical.choice/Quot.sound; the ast->Lean translator (validated by running model vs '
             'code each run); numpy/scipy primitives (contract: fft = DFT sum); float64 rounding (1e-9 tolerance, observed 1e-14). '
             'Not covered: cupy/torch backends, float32 precision mode, energy normalisation (C02), executor caches (C01).'),
}
