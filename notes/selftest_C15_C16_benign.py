#!/venv/bin/python
import os, subprocess, sys
sys.path.insert(0, os.path.dirname(os.path.abspath(__file__)))
import selftest_C15_C16_mutations as mut
B = {
 'conv-oneliner': ('C15', 'prysm/convolution.py', """    o = obj
    h = psf
    O = fft.fft2(fft.ifftshift(o))  # NOQA : O ambiguous (not, lowercase => uppercase notation)
    H = fft.fft2(fft.ifftshift(h))
    i = fft.fftshift(fft.ifft2(O*H)).real  # i = image
    return i
""", "    return fft.fftshift(fft.ifft2(fft.fft2(fft.ifftshift(obj)) * fft.fft2(fft.ifftshift(psf)))).real\n"),
 'otf-centre-floordiv': ('C15', 'prysm/otf.py', "    cy, cx = (int(np.floor(s / 2)) for s in data.shape)\n    dat = abs(data)", "    cy, cx = data.shape[0] // 2, data.shape[1] // 2\n    dat = abs(data)"),
 'conv-H-first': ('C15', 'prysm/convolution.py', "fft.ifft2(O*H)", "fft.ifft2(H*O)"),
 'adc-shift': ('C16', 'prysm/detector.py', "adc_cap = 2 ** self.bits - 1  # largest code of an n-bit ADC", "adc_cap = (1 << self.bits) - 1"),
 'adc-np-clip': ('C16', 'prysm/detector.py', "        output[output < 0] = 0\n        output[output > adc_cap] = adc_cap\n", "        output = np.clip(output, 0, adc_cap)\n"),
 'decomp-reordered': ('C16', 'prysm/bayer.py', "        r = img[top_left]\n        g1 = img[top_right]\n        g2 = img[bottom_left]\n        b = img[bottom_right]\n", "        b = img[bottom_right]\n        g2 = img[bottom_left]\n        g1 = img[top_right]\n        r = img[top_left]\n"),
 'tile-sf-prod': ('C16', 'prysm/detector.py', "        sf = functools.reduce(lambda x, y: x*y, factor)\n", "        sf = int(np.prod(factor))\n"),
 'tf-step-commuted': ('C15', 'prysm/convolution.py', "        O = O * tf  # NOQA", "        O = tf * O  # NOQA"),
 'tf-grid-two-statements': ('C15', 'prysm/convolution.py', "            fy, fx = [forward_ft_unit(dx, n, shift=shift) for n in obj.shape]", "            fy = forward_ft_unit(dx, obj.shape[0], shift=shift)\n            fx = forward_ft_unit(dx, obj.shape[1], shift=shift)"),
 'conv-real-before-shift': ('C15', 'prysm/convolution.py', "    i = fft.fftshift(fft.ifft2(O*H)).real  # i = image", "    i = fft.fftshift(fft.ifft2(O*H).real)  # i = image"),
 'mtf-np-abs-div': ('C15', 'prysm/otf.py', "    dat = abs(data)\n    dat /= dat[cy, cx]", "    dat = np.abs(data)\n    dat = dat / dat[cy, cx]"),
 'jitter-reordered': ('C15', 'prysm/degredations.py', "    core = (np.pi*scale*fr)", "    core = (fr*np.pi*scale)"),
 'expose-commuted-products': ('C16', 'prysm/detector.py', "        output = input_to_adc * scaling\n", "        output = scaling * input_to_adc\n"),
 'expose-time-first': ('C16', 'prysm/detector.py', "        electrons = aerial_img * self.exposure_time\n", "        electrons = self.exposure_time * aerial_img\n"),
 'malvar-int-divisor': ('C16', 'prysm/bayer.py', "    kgreen = np.array(kernel_G_at_R_or_B) / 8.", "    kgreen = np.array(kernel_G_at_R_or_B) / 8"),
 'decomp-inline-slices': ('C16', 'prysm/bayer.py', "    if cfa == 'rggb':\n        r = img[top_left]\n        g1 = img[top_right]", "    if cfa == 'rggb':\n        r = img[0::2, 0::2]\n        g1 = img[top_right]"),
 'bindown-chain-from-iterable': ('C16', 'prysm/detector.py', "    output_shape = tuple(itertools.chain(*zip(output_shape, factor)))", "    output_shape = tuple(itertools.chain.from_iterable(zip(output_shape, factor)))"),
 'wb-safe-ge': ('C16', 'prysm/bayer.py', "        ratio = 1  # descaling ratio\n        for i in range(3):\n            plane = rgb[..., i]\n            sat = saturation[i]\n            mx = plane.max()\n            rat = mx / sat\n            if rat > 1 and rat > ratio:", "        ratio = 1  # descaling ratio\n        for i in range(3):\n            plane = rgb[..., i]\n            sat = saturation[i]\n            mx = plane.max()\n            rat = mx / sat\n            if rat > ratio:"),
}
for name,(pid,rel,old,new) in B.items():
    if sys.argv[1:] and name not in sys.argv[1:]: continue
    path=os.path.join(mut.REPO,rel); s=open(path).read()
    assert s.count(old)==1,(name,s.count(old))
    open(path,'w').write(s.replace(old,new))
    try:
        out=mut.sh(f'cd {mut.VERIF} && PRYSM_REPO={mut.REPO} ./run {pid} quick; echo EXIT=$?')
        print('==',name,'|',' | '.join(l for l in out.splitlines() if l.startswith(('VIOLATION','EXIT','TOOL', pid+' '))))
    finally:
        mut.sh(f'git -C {mut.REPO} reset -q --hard HEAD')
