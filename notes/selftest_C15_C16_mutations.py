#!/venv/bin/python
"""mutation self-test driver: apply one textual mutation to $AG/repo, run the check, replay, restore."""
import os
import re
import subprocess
import sys

AG = '/tmp/ag/c15'
REPO = f'{AG}/repo'
VERIF = f'{AG}/verif'

MUTS = {
    # ---- C15
    'c15-conv-drop-fftshift': ('C15', 'prysm/convolution.py', 'i = fft.fftshift(fft.ifft2(O*H)).real', 'i = fft.ifft2(O*H).real'),
    'c15-conv-conj-tf': ('C15', 'prysm/convolution.py', 'fft.ifft2(O*H)', 'fft.ifft2(O*H.conj())'),
    'c15-conv-drop-ifftshift-psf': ('C15', 'prysm/convolution.py', 'H = fft.fft2(fft.ifftshift(h))', 'H = fft.fft2(h)'),
    'c15-tf-shifted-drop-final-fftshift': ('C15', 'prysm/convolution.py', 'return fft.fftshift(fft.ifft2(fft.ifftshift(O))).real',
                                           'return fft.ifft2(fft.ifftshift(O)).real'),
    'c15-tf-grid-swap-axes': ('C15', 'prysm/convolution.py', 'fy, fx = [forward_ft_unit(dx, n, shift=shift) for n in obj.shape]',
                              'fx, fy = [forward_ft_unit(dx, n, shift=shift) for n in obj.shape]'),
    'c15-tf-kwargs-fx-gets-fy': ('C15', 'prysm/convolution.py', "kwargs['fx'] = fx", "kwargs['fx'] = fy"),
    'c15-tf-skip-first': ('C15', 'prysm/convolution.py', 'for tf in tfs:', 'for tf in tfs[1:]:'),
    'c15-mtf-centre-ceil': ('C15', 'prysm/otf.py', 'cy, cx = (int(np.floor(s / 2)) for s in data.shape)\n    dat = abs(data)',
                            'cy, cx = (int(np.ceil(s / 2)) for s in data.shape)\n    dat = abs(data)'),
    'c15-mtf-unnormalised': ('C15', 'prysm/otf.py', '    dat /= dat[cy, cx]\n', '    pass\n'),
    'c15-otf-drop-ifftshift': ('C15', 'prysm/otf.py', 'data = fft.fftshift(fft.fft2(fft.ifftshift(psf)))', 'data = fft.fftshift(fft.fft2(psf))'),
    'c15-jitter-drop-2': ('C15', 'prysm/degredations.py', 'out = np.exp(-2 * (core*core))', 'out = np.exp(-(core*core))'),
    # ---- C16
    'c16-clip-before-gain': ('C16', 'prysm/detector.py',
                             "        output = input_to_adc * scaling\n        adc_cap = 2 ** self.bits - 1  # largest code of an n-bit ADC\n        output[output < 0] = 0\n        output[output > adc_cap] = adc_cap\n",
                             "        output = input_to_adc\n        adc_cap = 2 ** self.bits - 1  # largest code of an n-bit ADC\n        output[output < 0] = 0\n        output[output > adc_cap] = adc_cap\n        output = output * scaling\n"),
    'c16-no-fwc-clip': ('C16', 'prysm/detector.py', '        input_to_adc[input_to_adc > self.fwc] = self.fwc\n', ''),
    'c16-cast-lt-8': ('C16', 'prysm/detector.py', 'if self.bits <= 8:', 'if self.bits < 8:'),
    'c16-bias-dropped': ('C16', 'prysm/detector.py', 'input_to_adc = (shot_noise + read_noise + self.bias)', 'input_to_adc = (shot_noise + read_noise)'),
    'c16-no-squeeze': ('C16', 'prysm/detector.py', 'if frames == 1:\n            output = output[0]', 'if frames == 0:\n            output = output[0]'),
    'c16-bin-reduce-even-axes': ('C16', 'prysm/detector.py', 'reduction_axes = tuple(range(1, 2*array.ndim, 2))', 'reduction_axes = tuple(range(0, 2*array.ndim, 2))'),
    'c16-tile-sum-unscaled': ('C16', 'prysm/detector.py', '        sf = 1 / sf\n', '        sf = sf\n'),
    'c16-bin-shape-swapped-interleave': ('C16', 'prysm/detector.py', 'output_shape = tuple(itertools.chain(*zip(output_shape, factor)))',
                                         'output_shape = tuple(itertools.chain(*zip(factor, output_shape)))'),
    'c16-bayer-bggr-greens-swapped': ('C16', 'prysm/bayer.py', "        b = img[top_left]\n        g1 = img[top_right]\n        g2 = img[bottom_left]",
                                      "        b = img[top_left]\n        g1 = img[bottom_left]\n        g2 = img[top_right]"),
    'c16-bayer-slice-offbyone': ('C16', 'prysm/bayer.py', 'bottom_right = (slice(1, None, 2), slice(1, None, 2))', 'bottom_right = (slice(1, None, 2), slice(0, None, 2))'),
    'c16-malvar-red-native-filtered': ('C16', 'prysm/bayer.py', '        red[top_left] = img[top_left]\n        red[top_right] = c1[top_right]',
                                       '        red[top_left] = c3[top_left]\n        red[top_right] = c1[top_right]'),
    'c16-malvar-kernel-entry': ('C16', 'prysm/bayer.py', '    [-1, 2,  4, 2, -1], # NOQA', '    [-1, 2,  5, 2, -1], # NOQA'),
    'c16-malvar-c1-c2-swapped': ('C16', 'prysm/bayer.py', '        red[top_right] = c1[top_right]\n        red[bottom_left] = c2[bottom_left]\n        red[bottom_right] = c3[bottom_right]\n\n        blue[top_left] = c3[top_left]',
                                 '        red[top_right] = c2[top_right]\n        red[bottom_left] = c1[bottom_left]\n        red[bottom_right] = c3[bottom_right]\n\n        blue[top_left] = c3[top_left]'),
    'c16-wb-prescale-bggr-wrong-gain': ('C16', 'prysm/bayer.py', "        mosaic[top_left] *= wb\n", "        mosaic[top_left] *= wr\n"),
    'c16-wb-pre-safe-no-division': ('C16', 'prysm/bayer.py', '        wg2 = wg2 / ratio\n        wb = wb / ratio\n\n        # make sure', '        wg2 = wg2 / ratio\n\n        # make sure'),
    'c16-wb-safe-ratio-min': ('C16', 'prysm/bayer.py', '            if rat > 1 and rat > ratio:\n                ratio = rat\n\n        wr = wr / ratio\n        wg1', '            if rat > 1 and rat < ratio:\n                ratio = rat\n\n        wr = wr / ratio\n        wg1'),
    'c16-recomposite-swap': ('C16', 'prysm/bayer.py', "        output[top_left] = r\n        output[top_right] = g1\n        output[bottom_left] = g2",
                             "        output[top_left] = r\n        output[top_right] = g2\n        output[bottom_left] = g1"),
}

REVERTS = {'c15-revert-31': ('C15', 'a4203e4'), 'c15-revert-grid-fix': ('C15', 'cd4bf3a'), 'c15-revert-2d-grids': ('C15', '07ebda6'), 'c16-revert-32': ('C16', '214bfcb'), 'c16-revert-prnu': ('C16', '37f6004'), 'c16-revert-wbpost': ('C16', '725cdcd'), 'c16-revert-cfa-case': ('C16', 'cc68984'), 'c16-revert-squeeze': ('C16', '91edc40')}


def sh(cmd, **kw):
    return subprocess.run(cmd, shell=True, stdout=subprocess.PIPE, stderr=subprocess.STDOUT, text=True, **kw).stdout


def run_check(pid, tier='quick'):
    out = sh(f'cd {VERIF} && PRYSM_REPO={REPO} ./run {pid} {tier}')
    viol = [l for l in out.splitlines() if l.startswith('VIOLATION')]
    summ = [l for l in out.splitlines() if l.startswith(f'{pid} ')]
    rep = None
    if viol:
        m = re.search(r'replay=(\S+)', viol[0])
        r = sh(f'cd {VERIF} && PRYSM_REPO={REPO} ./run --replay {m.group(1)}')
        rep = r.strip().splitlines()[-3:]
    return viol, summ, rep


def main(names):
    assert sh(f'git -C {REPO} status --short').strip() == '', 'repo not clean'
    for name in names:
        if name in MUTS:
            pid, rel, old, new = MUTS[name]
            path = os.path.join(REPO, rel)
            s = open(path).read()
            if s.count(old) != 1:
                print(f'{name}: pattern occurs {s.count(old)} times -- skipped')
                continue
            open(path, 'w').write(s.replace(old, new))
        else:
            pid, commit = REVERTS[name]
            print(sh(f'git -C {REPO} revert -n {commit}').strip()[-200:])
        try:
            viol, summ, rep = run_check(pid)
            print(f'== {name}: {"DETECTED" if viol else "MISSED"}')
            for l in viol + summ:
                print('   ', l)
            if rep:
                for l in rep:
                    print('      |', l[:200])
        finally:
            sh(f'git -C {REPO} revert --abort')
            sh(f'git -C {REPO} reset -q --hard HEAD')
    print(sh(f'git -C {REPO} status --short'))


if __name__ == '__main__':
    names = sys.argv[1:] or list(MUTS)
    main(names)
