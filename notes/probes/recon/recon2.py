import numpy as np, warnings
warnings.simplefilter('ignore')
from prysm import fttools, propagation as P
rng=np.random.default_rng(1)
def dft_ref(f,Q,so,shift=(0,0)):
    m,n=f.shape; M,N=so
    if not hasattr(Q,'__len__'): Q=(Q,Q)
    y=np.arange(m)-m//2; x=np.arange(n)-n//2; v=np.arange(M)-M//2-shift[1]; u=np.arange(N)-N//2-shift[0]
    Ey=np.exp(-2j*np.pi*np.outer(v,y)/(m*Q[0])); Ex=np.exp(-2j*np.pi*np.outer(x,u)/(n*Q[1]))
    return Ey@f@Ex/np.sqrt(m*Q[0]*n*Q[1])
def rel(a,b): return np.abs(a-b).max()/np.abs(b).max()
f=rng.normal(size=(8,8))+1j*rng.normal(size=(8,8))
for sh in [(0,0),(1,0),(0,2),(1.5,-2.25)]:
    r=dft_ref(f,2,(8,8),sh)
    a=fttools.mdft.dft2(f,2,8,shift=sh); b=fttools.czt.czt2(f,2,8,shift=sh)
    rneg=dft_ref(f,2,(8,8),(-sh[0],-sh[1])); rsw=dft_ref(f,2,(8,8),(sh[1],sh[0])); rswn=dft_ref(f,2,(8,8),(-sh[1],-sh[0]))
    print(sh,'mdft |.| vs ref',rel(abs(a),abs(r)),'czt |.| vs ref',rel(abs(b),abs(r)),'vs neg',rel(abs(b),abs(rneg)),'vs swapped',rel(abs(b),abs(rsw)),'vs swapped neg',rel(abs(b),abs(rswn)))
# tilt test: where does the spot go
from prysm.coordinates import make_xy_grid
from prysm.propagation import Wavefront
N=32; dx=1.0; x,y=make_xy_grid(N,dx=dx); D=N*dx; wvl=0.5; efl=100.
k=3
amp=np.ones((N,N)); phs=k*wvl*1e3*x/D  # nm: k waves across D along x
wf=Wavefront.from_amp_and_phase(amp,phs,wvl,dx)
E=wf.focus(efl,Q=2); I=E.intensity; iy,ix=np.unravel_index(np.argmax(I.data),I.data.shape)
print('FFT spot at x=',I.x[iy,ix],'y=',I.y[iy,ix],'expected x=',k*wvl*efl/D)
for meth in ['mdft','czt']:
    E2=wf.focus_fixed_sampling(efl,dx=E.dx/2,samples=64,method=meth); I2=E2.intensity; iy,ix=np.unravel_index(np.argmax(I2.data),I2.data.shape)
    print(meth,'spot at',I2.x[iy,ix],I2.y[iy,ix])
    E3=wf.focus_fixed_sampling(efl,dx=E.dx/2,samples=64,method=meth,shift=(2*E.dx,0)); I3=E3.intensity; iy,ix=np.unravel_index(np.argmax(I3.data),I3.data.shape)
    print(meth,'with shift +2dx in x: spot at',I3.x[iy,ix],I3.y[iy,ix])
