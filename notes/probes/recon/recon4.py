import numpy as np, warnings, tempfile, os, io
warnings.simplefilter('ignore')
from prysm.polynomials import qpoly
import prysm.polynomials as poly
rng=np.random.default_rng(3)
u=np.linspace(0.1,.9,4); t=np.linspace(0,1,4)
# sine-only content m=1
z,dr,dt=qpoly.compute_z_zprime_Q2d([0.,0.],[[]],[[1.,.5]],u,t)
print('C10 sine-only z',z, 'expected', sum(c*qpoly.Q2d(n,-1,u,t) for n,c in enumerate([1.,.5])))
try: print(qpoly.compute_z_zprime_Q2d([0.,0.],[[1.,.5]],[[]],u,t)[0])
except Exception as e: print('C10 cos-only raises',type(e).__name__,e)
try: print(qpoly.Q2d_nm_c_to_a_b([(1,1),(2,1)],[1.,2.]))
except Exception as e: print('C10 packer raises',type(e).__name__,e)
try: print('qbfs len1', qpoly.clenshaw_qbfs([1.],u**2))
except Exception as e: print('C10 clenshaw_qbfs len1 raises',type(e).__name__,e)
# C11
from prysm.polynomials import noll_to_nm, fringe_to_nm, nm_to_fringe, ansi_j_to_nm, nm_to_ansi_j, xy_j_to_mn
seen=set(); ok=True
for j in range(1,20001):
    n,m=noll_to_nm(j)
    if (n-abs(m))%2 or abs(m)>n or (n,m) in seen: ok=False;print('noll bad',j,n,m);break
    seen.add((n,m))
print('C11 noll valid+injective to 2e4',ok)
print('C11 fringe rt', all(nm_to_fringe(*fringe_to_nm(j))==j for j in range(1,20001)), 'ansi rt', all(nm_to_ansi_j(*ansi_j_to_nm(j))==j for j in range(0,20001)))
print('C11 xy', [xy_j_to_mn(j) for j in range(1,11)])
# C12
from prysm.interferogram import Interferogram
d=rng.normal(size=(8,8)); i=Interferogram(d.copy(),dx=1.)
_=i.r; i.latcal(2.0); print('C12 after latcal r max',i.r.max(),'expected',np.hypot(i.x,i.y).max())
i=Interferogram(d.copy(),dx=1.); _=i.r; i.pad(samples=2); print('C12 after pad shapes data',i.data.shape,'x',i.x.shape,'r',i.r.shape)
i=Interferogram(d.copy(),dx=2.); _=i.r; i.strip_latcal(); print('C12 strip r max',i.r.max(), np.hypot(i.x,i.y).max())
# C13 psd odd axis alignment
from prysm.interferogram import psd
h=np.ones((7,7)); ux,uy,p=psd(h,1.,window=np.ones((7,7)))
print('C13 DC power located at',np.unravel_index(np.argmax(p),p.shape),'freq zero at',np.argmin(abs(ux[0])),np.argmin(abs(uy[:,0])))
h=rng.normal(size=(6,9)); ux,uy,p=psd(h,.5,window=np.ones((6,9)))
df=(ux[0,1]-ux[0,0])*(uy[1,0]-uy[0,0]); print('C13 parseval', p.sum()*df, (h**2).mean())
# C14 codev all negative, zygo truncation
from prysm import io as pio
a=-rng.uniform(1,10,size=(4,4))
with tempfile.NamedTemporaryFile(delete=False) as tf: pass
pio.write_codev_gridint(a,tf.name); r,_=pio.read_codev_gridint(tf.name); print('C14 codev allneg max err',np.abs(r-a).max())
class NC(io.BytesIO):
    def close(self): pass
b=NC(); ph=rng.normal(size=(4,5))*50; pio.write_zygo_dat(b,ph,1.0); raw=b.getvalue()
for cut in (len(raw)-1,len(raw)-6,834+3,834,500):
    open(tf.name,'wb').write(raw[:cut])
    try:
        with warnings.catch_warnings(record=True) as w:
            warnings.simplefilter('always'); r=pio.read_zygo_dat(tf.name)['phase']
        print('C14 cut',cut-len(raw),'nan count',np.isnan(r).sum(),'warn',len(w))
    except Exception as e: print('C14 cut',cut-len(raw),'raises',type(e).__name__)
os.unlink(tf.name)
# C15 mtf
from prysm.otf import mtf_from_psf
p=rng.uniform(size=(7,8)); m=mtf_from_psf(p,1.).data; print('C15 mtf max',m.max(),'centre',m[3,4])
# C17 stack
from prysm import thinfilm as tfm
for pol in 'sp':
    r,t=tfm.multilayer_stack_rt([(1.38,0.1),(2.1,0.05),(1.52,0.0)],0.55,pol,aoi=35.)
    th_s=tfm.snell_aor(1.,1.52,35.).real
    print('C17 stack',pol,abs(r)**2+abs(t)**2*1.52*np.cos(th_s)/np.cos(np.radians(35.)))
# C18 hex
from prysm import segmented
print('C18 ring sizes',[len(set(segmented.hex_ring(k))) for k in range(1,5)])
# C19 refract
from prysm.x.raytracing import spencer_and_murty as sm, surfaces
s=surfaces.Surface.conic(0.01,-1,'refr',[0,0,0],n=lambda w:1.5)
P=np.array([[3.,4.,-10.],[0.,0.,-10.]]); S=np.array([[0.,0.,1.],[0.,0.,1.]])
ph,sh=sm.raytrace([s],P,S,0.5); print('C19 |S| after refraction',np.linalg.norm(sh[1],axis=1))
