import numpy as np, warnings, io, tempfile, os
warnings.simplefilter('ignore')
from prysm import fttools, propagation as P, psf, polynomials as poly, detector, thinfilm, io as pio, interferogram as ifg, convolution
from prysm.conf import config
rng=np.random.default_rng(0)
def dft_ref(f,Q,so,shift=(0,0)):
    m,n=f.shape; M,N=so
    if not hasattr(Q,'__len__'): Q=(Q,Q)
    y=np.arange(m)-m//2; x=np.arange(n)-n//2; v=np.arange(M)-M//2-shift[1]; u=np.arange(N)-N//2-shift[0]
    Ey=np.exp(-2j*np.pi*np.outer(v,y)/(m*Q[0])); Ex=np.exp(-2j*np.pi*np.outer(x,u)/(n*Q[1]))
    return Ey@f@Ex/np.sqrt(m*Q[0]*n*Q[1])
def rel(a,b): return np.abs(a-b).max()/np.abs(b).max()
for shp,so,Q in [((8,8),(8,8),2),((8,8),(9,9),2),((7,7),(8,8),2),((8,6),(8,6),2),((8,6),(5,9),(1.7,2.3))]:
    f=rng.normal(size=shp)+1j*rng.normal(size=shp)
    r=dft_ref(f,Q,so)
    a=fttools.mdft.dft2(f,Q,so); b=fttools.czt.czt2(f,Q,so)
    print('C01',shp,so,Q,'mdft',rel(a,r),'czt',rel(b,r))
# pad
a=np.zeros((4,4)); a[2,2]=1
p=fttools.pad2d(a,out_shape=(7,7)); print('C04 pad even->odd origin at',np.argwhere(p==1),'expect',7//2)
a=np.zeros((7,7)); a[3,3]=1; c=fttools.crop_center(a,(4,4)); print('C04 crop odd->even origin at',np.argwhere(c==1),'expect',2)
a=np.zeros((7,7)); a[3,3]=1; print('C04 centroid odd', psf.centroid(a,dx=1.))
a=np.zeros((8,8)); a[4,4]=1; print('C04 centroid even', psf.centroid(a,dx=1.))
x=np.linspace(-1,1,5)
print('C09 laguerre_der(2,0,x)',poly.laguerre_der(2,0.,x),'true', x-2)
print('C09 laguerre_der(0)',poly.laguerre_der(0,0.,x))
try:
    print('C08 cheby1_seq 2d', poly.cheby1_seq([0,1,2],np.ones((4,5))*.3).shape)
except Exception as e: print('C08 cheby1_seq 2d raises',type(e).__name__)
X,Y=np.meshgrid(np.linspace(-1,1,4),np.linspace(-1,1,3))
print('C08 xy_seq (0,1) vs xy', np.allclose(poly.xy_seq([(0,1)],X,Y)[0], poly.xy(0,1,X,Y)))
try: print('C10 clenshaw len1', poly.jacobi_sum_clenshaw([2.],0,0,x))
except Exception as e: print('C10 clenshaw len1 raises',type(e).__name__,e)
# clenshaw der j=2
s=rng.normal(size=6); al=poly.jacobi_sum_clenshaw_der(s,0.5,1.5,x,j=2)
ref=sum(s[n]*poly.jacobi(n,.5,1.5,x) for n in range(6))
from numpy.polynomial import polynomial as PP
xx=np.linspace(-1,1,41); co=np.polyfit(xx,sum(s[n]*poly.jacobi(n,.5,1.5,xx) for n in range(6)),5)
print('C09 clenshaw der j=2: got',al[2][0][:3],'true',np.polyval(np.polyder(co,2),x)[:3], 'j1 got',al[1][0][:3],'true',np.polyval(np.polyder(co,1),x)[:3])
# detector
class FakeRandom:
    def poisson(self,lam,size): return np.broadcast_to(lam,size).astype(float)
    def normal(self,mu,s,size): return np.zeros(size)
from prysm import mathops
class Shim:
    def __getattr__(self,k):
        if k=='random': return FakeRandom()
        return getattr(np,k)
mathops.np._srcmodule=Shim()
d=detector.Detector(0,0,0,1e9,1,8,1)
print('C16 expose', d.expose(np.array([[10.,254,255,256,1000]])))
mathops.np._srcmodule=np
# fresnel
n0,n1=1.,1.5; th0=np.radians(40); th1=thinfilm.snell_aor(n0,n1,th0,degrees=False).real
rp=thinfilm.fresnel_rp(n0,n1,th0,th1); tp=thinfilm.fresnel_tp(n0,n1,th0,th1)
print('C17 p R+T', rp**2+tp**2*n1*np.cos(th1)/(n0*np.cos(th0)))
rs=thinfilm.fresnel_rs(n0,n1,th0,th1); ts=thinfilm.fresnel_ts(n0,n1,th0,th1)
print('C17 s R+T', rs**2+ts**2*n1*np.cos(th1)/(n0*np.cos(th0)))
# vortex
from prysm.x import polarization as pol
J=pol.vector_vortex_retarder(2,np.array([[0.3]]),retardance=1.0)[0,0]
print('C20 vortex unitary err',np.abs(J@J.conj().T-np.eye(2)).max())
# zygo
ph=rng.normal(size=(5,7))*100; ph[0,1]=np.nan
b=io.BytesIO(); 
class NC(io.BytesIO):
    def close(self): pass
b=NC(); pio.write_zygo_dat(b,ph,dx=1.0)
with tempfile.NamedTemporaryFile(delete=False) as tf: tf.write(b.getvalue())
r=pio.read_zygo_dat(tf.name)['phase']; os.unlink(tf.name)
print('C14 zygo same', np.nanmax(np.abs(r-ph))<1, 'mirrored', np.nanmax(np.abs(r[:,::-1]-ph))<1)
# codev nonsquare
with tempfile.NamedTemporaryFile(delete=False) as tf: pass
ph2=np.abs(ph); pio.write_codev_gridint(ph2,tf.name); 
try:
    r,_=pio.read_codev_gridint(tf.name); print('C14 codev nonsquare shape',r.shape, 'match', r.shape==ph2.shape and np.nanmax(np.abs(r-ph2))<1)
except Exception as e: print('C14 codev raises',e)
# bandlimited rms
try:
    i=ifg.Interferogram(rng.normal(size=(16,16)),dx=1.); print('C13 blrms', i.bandlimited_rms(flow=0,fhigh=10))
except Exception as e: print('C13 raises',type(e).__name__,e)
# apply tf identity
o=rng.normal(size=(6,6)); print('C15 ones tf identity unshifted', np.allclose(convolution.apply_transfer_functions(o,1,[np.ones((6,6))]),o), 'shifted', np.allclose(convolution.apply_transfer_functions(o,1,[np.ones((6,6))],shift=True),o))
o=rng.normal(size=(5,7)); h=np.zeros((5,7)); h[2,3]=1; print('C15 conv identity odd', np.allclose(convolution.conv(o,h),o))
# precision cache
fttools.mdft.clear(); config.precision=32; f=rng.normal(size=(4,4)); a=fttools.mdft.dft2(f,2,4); config.precision=64; b=fttools.mdft.dft2(f,2,4); fttools.mdft.clear(); c=fttools.mdft.dft2(f,2,4); print('C01 cache precision', a.dtype,b.dtype,c.dtype, rel(b,c))
