import numpy as np, warnings
warnings.simplefilter('ignore')
rng=np.random.default_rng(5)
from prysm import detector, bayer, segmented, geometry
from prysm.coordinates import make_xy_grid, cart_to_polar
a=rng.normal(size=(6,8)); f=(3,2)
b=detector.bindown(a,f,'sum'); t=detector.tile(b,f,'sum')
print('C16 bin sum conserve',np.isclose(b.sum(),a.sum()),'tile sum conserve',np.isclose(t.sum(),b.sum()))
y=rng.normal(size=b.shape); print('C16 adjoint <y,bin_avg a> vs <tile_sum y,a>', np.vdot(y,detector.bindown(a,f,'avg')), np.vdot(detector.tile(y,f,'sum'),a))
for cfa in ('rggb','bggr'):
    m=rng.uniform(size=(6,8)); rgb=bayer.demosaic_malvar(m.copy(),cfa)
    planes=bayer.decomposite_bayer(m,cfa); print('C16',cfa,'recomp',np.array_equal(bayer.recomposite_bayer(*planes,cfa=cfa),m))
    r,g1,g2,bb=[bayer.decomposite_bayer(rgb[...,k],cfa)[i] for k,i in ((0,0),(1,1),(1,2),(2,3))]
    print('   native sites kept', np.array_equal(r,planes[0]),np.array_equal(g1,planes[1]),np.array_equal(g2,planes[2]),np.array_equal(bb,planes[3]))
for N in (256,255):
    x,y=make_xy_grid(N,diameter=8.); 
    h=segmented.CompositeHexagonalAperture(x,y,2,1.2,0.05)
    tot=np.zeros(x.shape,int)
    for w,m in zip(h.windows,h.local_masks): tot[w]+=m
    print('C18 hex',N,'segments',len(h.segment_ids),'max overlap',tot.max(),'union==amp',np.array_equal(tot>0,h.amp))
    k=segmented.CompositeKeystoneAperture(x,y,2.4,2,1.2,[6,12],0.05)
    tot=np.zeros(x.shape,int); tot[k.center_window]+=k.center_mask
    for w,m in zip(k.segment_windows,k.segment_masks): tot[w]+=m
    print('C18 key',N,'segments',len(k.segment_ids),'max overlap',tot.max(),'amp⊆union',bool(np.all(tot[k.amp]>=1)),'amp exactly-one',bool(np.all(tot[k.amp]==1)))
from prysm.x import polarization as pol
J=pol.linear_retarder(0.7,theta=0.3); print('C20 retarder unitary',np.abs(J@J.conj().T-np.eye(2)).max())
P=pol.linear_polarizer(0.4); print('C20 polarizer idempotent',np.abs(P@P-P).max())
A=rng.normal(size=(2,2))+1j*rng.normal(size=(2,2)); B=rng.normal(size=(2,2))+1j*rng.normal(size=(2,2))
print('C20 mueller mult',np.abs(pol.jones_to_mueller(A@B,broadcast=False)-pol.jones_to_mueller(A,False)@pol.jones_to_mueller(B,False)).max())
M=pol.jones_to_mueller(J,False); print('C20 unitary->orthogonal',np.abs(M@M.T-np.eye(4)).max(),M[0,0])
try:
    Jb=pol.linear_retarder(np.array([0.1,0.7]),theta=0.3,shape=(2,)); print('C20 batched retardance ok',np.abs(Jb[1]-J).max())
except Exception as e: print('C20 batched retardance raises',e)
try:
    Jb=pol.linear_retarder(0.7,theta=np.array([0.1,0.3]),shape=(2,)); print('C20 batched theta ok',np.abs(Jb[1]-J).max())
except Exception as e: print('C20 batched theta raises',type(e).__name__,e)
th=np.array([[0.3]]); pol.vector_vortex_retarder(2,th); print('C20 vortex mutates caller theta ->',th)
