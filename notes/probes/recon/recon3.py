import numpy as np, warnings
warnings.simplefilter('ignore')
from prysm import propagation as P
from prysm.propagation import Wavefront
from prysm.x.optym import operators, cost
rng=np.random.default_rng(2)
def cplx(*s): return rng.normal(size=s)+1j*rng.normal(size=s)
inner=lambda a,b: np.vdot(a,b)   # <a,b> = sum conj(a) b
# to_fpm_and_back adjoint test, real mask same shape
for (ps,ms,cm) in [((8,8),(8,8),False),((8,8),(8,8),True),((8,8),(12,12),False)]:
    x=cplx(*ps); y=cplx(*ps); m=rng.normal(size=ms)+(1j*rng.normal(size=ms) if cm else 0)
    dx=1.; efl=100.; wvl=.5; fdx=wvl*efl/(ps[0]*dx)/2
    Ax=P.to_fpm_and_back(x,dx,efl,wvl,m,fdx)
    Aty=P.to_fpm_and_back_backprop(y,dx,wvl,efl,m,fdx)
    print('fpm adjoint',ps,ms,'complex mask' if cm else 'real mask', inner(y,Ax), inner(Aty,x))
    w=Wavefront(x,wvl,dx); lyot=np.ones(ps)
    Bx=w.babinet(efl,lyot,m,fdx).data
    Bty=Wavefront(y,wvl,dx).babinet_backprop(efl,lyot,m,fdx).data
    print('  babinet adjoint', inner(y,Bx), inner(Bty,x))
# spatial gradient
sg=operators.SpatialGradient2D()
x=rng.normal(size=(5,5)); y=rng.normal(size=(5,5))
print('SG x', np.vdot(y,sg.forward_x(x)), np.vdot(sg.backprop_x(y),x))
print('SG y', np.vdot(y,sg.forward_y(x)), np.vdot(sg.backprop_y(y),x))
try:
    x2=rng.normal(size=(5,7)); print('SG y nonsquare', sg.forward_y(x2).shape, np.abs(sg.forward_y(x2)[1:-1]-(x2[2:]-x2[1:-1])).max())
except Exception as e: print('SG y nonsquare raises',e)
# costs
def numgrad(f,x,eps=1e-6):
    g=np.zeros_like(x)
    for i in np.ndindex(x.shape):
        d=np.zeros_like(x); d[i]=eps
        g[i]=(f(x+d)-f(x-d))/(2*eps)
    return g
I=rng.uniform(1,2,size=(4,4)); D=rng.uniform(1,2,size=(4,4))
c,g=cost.bias_and_gain_invariant_error(I,D,None); print('bgie grad err', np.abs(g-numgrad(lambda z: cost.bias_and_gain_invariant_error(z,D,None)[0],I)).max(), 'cost',c)
c,g=cost.mean_square_error(I,D); print('mse grad err', np.abs(g-numgrad(lambda z: cost.mean_square_error(z,D)[0],I)).max())
y=rng.uniform(.2,.8,size=(4,4)); yh=rng.uniform(.2,.8,size=(4,4))
c,g=cost.negative_loglikelihood(y,yh); print('nll grad err', np.abs(g-numgrad(lambda z: cost.negative_loglikelihood(z,yh)[0],y)).max())
# DM odd
from prysm.x.dm import DM
for n in (32,33):
    ifn=np.exp(-((np.arange(n)-n//2)[:,None]**2+(np.arange(n)-n//2)[None,:]**2)/8.)
    dm=DM(ifn,Nout=n,Nact=4,sep=4)
    a=rng.normal(size=dm.actuators.shape); dm.update(a); s=dm.render(wfe=False)
    yb=rng.normal(size=s.shape); gb=dm.render_backprop(yb.copy(),wfe=False)
    print('DM',n,'adjoint', np.vdot(yb,s), np.vdot(gb,a))
