"""throw-away probe: can a small AST walker pull the integer glue out of the real source?"""
import ast, sys
src = open('/repo/prysm/fttools.py').read()
mod = ast.parse(src)
funcs = {n.name: n for n in ast.walk(mod) if isinstance(n, ast.FunctionDef)}

class Tr(ast.NodeVisitor):
    """expression -> Lean term over Int/Rat; env maps python names to lean terms"""
    def __init__(self, env): self.env = env
    def tr(self, e):
        if isinstance(e, ast.Constant):
            if isinstance(e.value, int): return f'({e.value} : Rat)'
            raise NotImplementedError(e.value)
        if isinstance(e, ast.Name): return self.env[e.id]
        if isinstance(e, ast.UnaryOp) and isinstance(e.op, ast.USub): return f'(-{self.tr(e.operand)})'
        if isinstance(e, ast.BinOp):
            a, b = self.tr(e.left), self.tr(e.right)
            op = {ast.Add: '+', ast.Sub: '-', ast.Mult: '*', ast.Div: '/'}.get(type(e.op))
            if op: return f'({a} {op} {b})'
            if isinstance(e.op, ast.FloorDiv): return f'(pyFloorDiv {a} {b})'
        if isinstance(e, ast.Call):
            f = ast.unparse(e.func)
            if f in ('math.ceil', 'np.ceil'): return f'(pyCeil {self.tr(e.args[0])})'
            if f in ('math.floor', 'np.floor'): return f'(pyFloor {self.tr(e.args[0])})'
        raise NotImplementedError(ast.dump(e))

def find_assign(fn, name):
    for n in ast.walk(fn):
        if isinstance(n, ast.Assign) and any(isinstance(t, ast.Name) and t.id == name for t in n.targets):
            return n.value
    raise KeyError(name)

out = []
# pad2d: dbytwo = [math.ceil(d/2) for d in shape_diff];  shape_diff = [o-i for o,i in zip(out_shape,in_shape)]
pad = funcs['pad2d']
sd = find_assign(pad, 'shape_diff'); assert isinstance(sd, ast.ListComp)
(o, i) = [t.id for t in sd.generators[0].target.elts]
zipargs = [ast.unparse(a) for a in sd.generators[0].iter.args]; assert zipargs == ['out_shape', 'in_shape'], zipargs
d_term = Tr({o: 'N', i: 'n'}).tr(sd.elt)
db = find_assign(pad, 'dbytwo'); assert ast.unparse(db.generators[0].iter) == 'shape_diff'
out.append(f'def padOffset (n N : Rat) : Rat := {Tr({db.generators[0].target.id: d_term}).tr(db.elt)}')
crop = funcs['crop_center']
pd = find_assign(crop, 'padding'); (i2, o2) = [t.id for t in pd.generators[0].target.elts]
p_term = Tr({i2: 'n', o2: 'N'}).tr(pd.elt)
lf = find_assign(crop, 'left')
out.append(f'def cropOffset (n N : Rat) : Rat := {Tr({lf.generators[0].target.id: p_term}).tr(lf.elt)}')
cz = funcs['_prepare_czt_basis']
st = find_assign(cz, 'start')
out.append(f'def cztStart (N M shift : Rat) : Rat := {Tr({"N":"N","M":"M","shift":"shift"}).tr(st)}')
fr = funcs['fftrange']; ret = [n for n in ast.walk(fr) if isinstance(n, ast.Return)][0].value
lo, hi = ret.args[0], ret.args[1]
out.append(f'def fftrangeLo (n : Rat) : Rat := {Tr({"n":"n"}).tr(lo)}')
out.append(f'def fftrangeHi (n : Rat) : Rat := {Tr({"n":"n"}).tr(hi)}')
print('\n'.join(out))
