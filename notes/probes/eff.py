import ast
TR = {'data','dx','_x','_y','_r','_t','x','y','r','t','_latcaled'}
def effects(path, cls):
    mod = ast.parse(open(path).read())
    c = [n for n in mod.body if isinstance(n, ast.ClassDef) and n.name == cls][0]
    for fn in [n for n in c.body if isinstance(n, ast.FunctionDef)]:
        if any(isinstance(d, ast.Name) and d.id in ('property','staticmethod') for d in fn.decorator_list): kind='prop'
        else: kind='meth'
        ev=[]
        for st in ast.walk(fn):
            tgts=[]
            if isinstance(st, ast.Assign): tgts=[(t,'=') for t in st.targets]; val=st.value
            elif isinstance(st, ast.AugAssign): tgts=[(st.target, type(st.op).__name__+'=')]; val=st.value
            for t,op in tgts:
                for tt in (t.elts if isinstance(t, ast.Tuple) else [t]):
                    base=tt
                    sub=False
                    while isinstance(base, ast.Subscript): base=base.value; sub=True
                    if isinstance(base, ast.Attribute) and isinstance(base.value, ast.Name) and base.value.id=='self' and base.attr in TR:
                        ev.append(f"{base.attr}{'[..]' if sub else ''} {op} {ast.unparse(val)[:60]}")
            if isinstance(st, ast.Call) and isinstance(st.func, ast.Attribute) and isinstance(st.func.value, ast.Name) and st.func.value.id=='self':
                ev.append(f'call self.{st.func.attr}')
        reads=sorted({n.attr for n in ast.walk(fn) if isinstance(n, ast.Attribute) and isinstance(n.value, ast.Name) and n.value.id=='self' and n.attr in TR and isinstance(n.ctx, ast.Load)})
        if ev or reads: print(f'{cls}.{fn.name:18s} [{kind}] reads={reads}\n      ' + '\n      '.join(ev))
effects('/repo/prysm/interferogram.py','Interferogram')
