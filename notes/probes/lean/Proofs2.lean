import Pm.Num
import Mathlib.Tactic.Ring
import Mathlib.Tactic.FieldSimp
import Mathlib.Tactic.Linarith
import Mathlib.Tactic.Positivity
import Mathlib.Data.Real.Basic

open Model

instance (priority := 100) fieldNum {K : Type} [Field K] : Num K :=
  { ofInt := fun i => (i : K) }

@[simp] theorem ofInt_eq {K : Type} [Field K] (i : Int) : (Num.ofInt i : K) = (i : K) := rfl

theorem jacobi_succ_succ (a b x : ℝ) (n : Nat) :
    jacobi (n+2) a b x =
      ((abc (n+1) a b).1 * x + (abc (n+1) a b).2.1) * jacobi (n+1) a b x
        - (abc (n+1) a b).2.2 * jacobi n a b x := by
  simp only [jacobi]
  rw [jacobiAux]
  cases n with
  | zero => simp [jacobiAux]
  | succ k => simp [jacobiAux]

/-- value at x = 1 obeys r_{n+1} (n+1) = r_n (n+a+1), for all n -/
theorem jacobi_at_one_succ (a b : ℝ) (ha : -1 < a) (hb : -1 < b) (n : Nat) :
    jacobi (n+1) a b 1 * ((n:ℝ) + 1) = jacobi n a b 1 * ((n:ℝ) + a + 1) := by
  induction n with
  | zero => simp [jacobi, jacobiAux]
  | succ k ih =>
    rw [jacobi_succ_succ]
    have hk : (0:ℝ) ≤ k := Nat.cast_nonneg k
    have h1 : ((k:ℝ) + 1 + 1) ≠ 0 := by positivity
    have h2 : ((k:ℝ) + 1 + a + b + 1) ≠ 0 := by nlinarith
    have h3 : (2 * ((k:ℝ) + 1) + a + b) ≠ 0 := by nlinarith
    have h4 : ((k:ℝ) + a + 1) ≠ 0 := by nlinarith
    have ih' : jacobi k a b 1 = jacobi (k+1) a b 1 * ((k:ℝ) + 1) / ((k:ℝ) + a + 1) := by
      field_simp; linarith [ih]
    rw [ih']
    simp only [abc, ofInt_eq]
    push_cast
    field_simp
    ring
#print axioms jacobi_at_one_succ
