import Mathlib.Algebra.Order.Chebyshev
import Mathlib.Analysis.SpecialFunctions.Sqrt
import Mathlib.Tactic.Positivity
import Mathlib.Tactic.Linarith
import Mathlib.Tactic.FieldSimp

open Finset

/-- (mean |d|)² ≤ mean d²  — the core of Sa ≤ std, for every non-empty finite sample -/
theorem sa_sq_le_var {ι : Type} (s : Finset ι) (hs : s.Nonempty) (d : ι → ℝ) :
    ((∑ i ∈ s, |d i|) / s.card) ^ 2 ≤ (∑ i ∈ s, (d i) ^ 2) / s.card := by
  have hc : (0:ℝ) < s.card := by exact_mod_cast Finset.card_pos.mpr hs
  have cs := Finset.sum_mul_sq_le_sq_mul_sq s (fun i => |d i|) (fun _ => (1:ℝ))
  simp only [mul_one, one_pow, sum_const, nsmul_eq_mul, sq_abs] at cs
  rw [div_pow, div_le_div_iff₀ (by positivity) hc]
  nlinarith [cs]
#print axioms sa_sq_le_var
