/-- minimal arithmetic signature shared by Float, Rat and (in proof files) any Mathlib field -/
class Num (K : Type) extends Add K, Sub K, Mul K, Div K, Neg K where
  ofInt : Int → K

instance : Num Float := { ofInt := fun i => Float.ofInt i }
instance : Num Rat := { ofInt := fun i => (i : Rat) }

namespace Model
variable {K : Type} [Num K]
local notation "‹" n "›" => (Num.ofInt (K := K) n)

/-- DLMF 18.9.2 as written in prysm.polynomials.jacobi.recurrence_abc (general branch) -/
def abc (n : Nat) (a b : K) : K × K × K :=
  let N : K := Num.ofInt n
  let A := ((‹2› * N + a + b + ‹1›) * (‹2› * N + a + b + ‹2›)) / (‹2› * (N + ‹1›) * (N + a + b + ‹1›))
  let B := ((a*a - b*b) * (‹2› * N + a + b + ‹1›)) / (‹2› * (N + ‹1›) * (N + a + b + ‹1›) * (‹2› * N + a + b))
  let C := ((N + a) * (N + b) * (‹2› * N + a + b + ‹2›)) / ((N + ‹1›) * (N + a + b + ‹1›) * (‹2› * N + a + b))
  (A, B, C)

/-- three-term recurrence sweep: returns (P_n, P_{n-1}) -/
def jacobiAux (a b x : K) : Nat → K × K
  | 0 => (‹1›, ‹0›)
  | 1 => (a + ‹1› + (a + b + ‹2›) * ((x - ‹1›) / ‹2›), ‹1›)
  | (n+2) =>
    let (p1, p0) := jacobiAux a b x (n+1)
    let (A, B, C) := abc (n+1) a b
    ((A * x + B) * p1 - C * p0, p1)

def jacobi (n : Nat) (a b x : K) : K := (jacobiAux a b x n).1
end Model
