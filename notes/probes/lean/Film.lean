import Mathlib.Tactic.Ring
import Mathlib.Tactic.FieldSimp
import Mathlib.Tactic.Linarith
import Mathlib.Tactic.LinearCombination
import Mathlib.Data.Real.Basic

/-- lossless characteristic matrix [[p, i q],[i r, s]], p q r s real -/
structure LM where (p q r s : ℝ)
def LM.det (m : LM) : ℝ := m.p * m.s + m.q * m.r
def LM.mul (a b : LM) : LM :=
  ⟨a.p*b.p - a.q*b.r, a.p*b.q + a.q*b.s, a.r*b.p + a.s*b.r, a.s*b.s - a.r*b.q⟩
def LM.one : LM := ⟨1,0,0,1⟩
/-- one layer: cb = cos β, sb = sin β, η tilted admittance: [[cb, -i sb/η],[-i η sb, cb]] -/
noncomputable def layer (cb sb η : ℝ) : LM := ⟨cb, -sb/η, -η*sb, cb⟩

theorem layer_det (cb sb η : ℝ) (h : cb^2 + sb^2 = 1) (hη : η ≠ 0) : (layer cb sb η).det = 1 := by
  unfold layer LM.det; field_simp; linear_combination h
theorem mul_det (a b : LM) : (a.mul b).det = a.det * b.det := by unfold LM.mul LM.det; ring

def stack : List LM → LM | [] => LM.one | m :: ms => m.mul (stack ms)
theorem stack_det (ms : List LM) (h : ∀ m ∈ ms, m.det = 1) : (stack ms).det = 1 := by
  induction ms with
  | nil => simp [stack, LM.one, LM.det]
  | cons m ms ih =>
    simp only [stack, mul_det]
    rw [h m (by simp), ih (fun x hx => h x (by simp [hx]))]; ring

/-- with A00 = (η0 (p + i q ηe) + (i r + s ηe)) / (2 η0), A10 = (η0 (p + i q ηe) − (i r + s ηe)) / (2 η0):
    |A00|² − |A10|² = ηe/η0 · det  (real and imaginary parts written out) -/
theorem energy (m : LM) (η0 ηe : ℝ) (h0 : η0 ≠ 0) :
    let re00 := (η0 * m.p + m.s * ηe) / (2*η0); let im00 := (η0 * m.q * ηe + m.r) / (2*η0)
    let re10 := (η0 * m.p - m.s * ηe) / (2*η0); let im10 := (η0 * m.q * ηe - m.r) / (2*η0)
    (re00^2 + im00^2) - (re10^2 + im10^2) = ηe / η0 * m.det := by
  simp only [LM.det]; field_simp; ring

/-- R + (ηe/η0) T = 1 for every lossless stack of every depth -/
theorem conservation (ms : List LM) (h : ∀ m ∈ ms, m.det = 1) (η0 ηe : ℝ) (h0 : η0 ≠ 0)
    (re00 im00 re10 im10 : ℝ)
    (e1 : re00 = (η0 * (stack ms).p + (stack ms).s * ηe) / (2*η0))
    (e2 : im00 = (η0 * (stack ms).q * ηe + (stack ms).r) / (2*η0))
    (e3 : re10 = (η0 * (stack ms).p - (stack ms).s * ηe) / (2*η0))
    (e4 : im10 = (η0 * (stack ms).q * ηe - (stack ms).r) / (2*η0))
    (hA : re00^2 + im00^2 ≠ 0) :
    (re10^2 + im10^2) / (re00^2 + im00^2) + ηe/η0 * (1 / (re00^2 + im00^2)) = 1 := by
  have := energy (stack ms) η0 ηe h0
  simp only at this
  rw [stack_det ms h] at this
  rw [← e1, ← e2, ← e3, ← e4] at this
  have h' : re10 ^ 2 + im10 ^ 2 = (re00 ^ 2 + im00 ^ 2) - ηe / η0 := by linarith
  rw [h']; field_simp; ring
#print axioms conservation
