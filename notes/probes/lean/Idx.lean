-- core only
def pyCeilDiv (e k : Int) : Int := -((-e) / k)          -- ceil(e/k), k > 0
def padOffset (n N : Int) : Int := pyCeilDiv (N - n) 2   -- as generated from pinned pad2d
def padOffsetFixed (n N : Int) : Int := N / 2 - n / 2    -- as generated after the repair

theorem pad_origin_fixed (n N : Int) (h0 : 0 ≤ n) (h : n ≤ N) : padOffsetFixed n N + n / 2 = N / 2 := by
  unfold padOffsetFixed; omega
theorem pad_origin_pinned_partial (n N : Int) (h0 : 0 ≤ n) (h : n ≤ N) (hpar : ¬ (n % 2 = 0 ∧ N % 2 = 1)) :
    padOffset n N + n / 2 = N / 2 := by
  unfold padOffset pyCeilDiv; omega
theorem pad_origin_pinned_fails : ¬ (padOffset 4 7 + 4 / 2 = 7 / 2) := by decide
theorem pad_origin_pinned_iff (n N : Int) (h0 : 0 ≤ n) (h : n ≤ N) :
    (padOffset n N + n / 2 = N / 2) ↔ ¬ (n % 2 = 0 ∧ N % 2 = 1) := by
  unfold padOffset pyCeilDiv; omega
#print axioms pad_origin_pinned_iff
