import Pm.Num
open Model
def main : IO Unit := do
  IO.println (jacobi 5 (0.5 : Float) (-0.5) 0.3)
  IO.println (jacobi 5 ((1:Rat)/2) (-(1:Rat)/2) ((3:Rat)/10))
