import Mathlib.Tactic.Linarith
import Mathlib.Tactic.Ring
import Mathlib.Tactic.Positivity
import Mathlib.Data.Nat.Sqrt
import Mathlib.Tactic.IntervalCases

def ceilSqrt (j : Nat) : Nat := let s := Nat.sqrt j; if s * s = j then s else s + 1

def fringeToNm (j : Nat) : Int × Int :=
  let k : Int := (ceilSqrt j : Int) - 1
  let r : Int := (j : Int) - k * k - 1
  let n := k + r / 2
  let m := (2 * k - n) * (1 - 2 * (r % 2))
  (n, m)

def nmToFringe (n m : Int) : Int :=
  let am := |m|
  let h := 1 + (n + am) / 2
  h * h - 2 * am - (if 0 ≤ m then 1 else 0) + 1

theorem ceilSqrt_spec (j : Nat) (hj : 1 ≤ j) :
    ∃ k : Nat, ceilSqrt j = k + 1 ∧ k * k < j ∧ j ≤ (k + 1) * (k + 1) := by
  unfold ceilSqrt
  have h1 := Nat.sqrt_le j
  have h2 := Nat.lt_succ_sqrt j
  have hs : 1 ≤ Nat.sqrt j := Nat.le_sqrt.mpr (by omega)
  simp only
  split_ifs with h
  · refine ⟨Nat.sqrt j - 1, by omega, ?_, ?_⟩
    · have : (Nat.sqrt j - 1) * (Nat.sqrt j - 1) < Nat.sqrt j * Nat.sqrt j := by
        apply Nat.mul_self_lt_mul_self; omega
      omega
    · have : Nat.sqrt j - 1 + 1 = Nat.sqrt j := by omega
      rw [this]; omega
  · refine ⟨Nat.sqrt j, rfl, ?_, ?_⟩
    · omega
    · simp only [Nat.succ_eq_add_one] at h2; omega

theorem fringe_roundtrip (j : Nat) (hj : 1 ≤ j) :
    nmToFringe (fringeToNm j).1 (fringeToNm j).2 = j := by
  obtain ⟨k, hk, hlo, hhi⟩ := ceilSqrt_spec j hj
  unfold fringeToNm nmToFringe
  simp only [hk]
  push_cast
  -- r = j - k^2 - 1 ∈ [0, 2k]
  have hlo' : (k:Int) * k < j := by exact_mod_cast hlo
  have hhi' : (j:Int) ≤ (k + 1) * (k + 1) := by exact_mod_cast hhi
  have hk0 : (0:Int) ≤ k := Int.natCast_nonneg k
  generalize hr : (j:Int) - ((k:Int) + 1 - 1) * ((k:Int) + 1 - 1) - 1 = r
  have hr' : r = (j:Int) - (k:Int) * k - 1 := by rw [← hr]; ring
  have hr0 : 0 ≤ r := by omega
  have hr1 : r ≤ 2 * k := by nlinarith
  have hkk : ((k:Int) + 1 - 1) = k := by ring
  rw [hkk]
  rcases Int.emod_two_eq_zero_or_one r with h0 | h1
  · -- r even: m = k - r/2 ≥ 0
    rw [h0]
    have hm : (2 * (k:Int) - (k + r / 2)) * (1 - 2 * 0) = k - r / 2 := by ring
    rw [hm]
    have hmn : 0 ≤ (k:Int) - r / 2 := by omega
    rw [abs_of_nonneg hmn, if_pos hmn]
    have : ((k:Int) + r / 2 + (k - r / 2)) / 2 = k := by
      have : ((k:Int) + r / 2 + (k - r / 2)) = 2 * k := by ring
      rw [this]; omega
    rw [this]
    have hj' : (j:Int) = k * k + 1 + r := by omega
    rw [hj']
    have : r = 2 * (r / 2) := by omega
    nlinarith
  · rw [h1]
    have hm : (2 * (k:Int) - (k + r / 2)) * (1 - 2 * 1) = -(k - r / 2) := by ring
    rw [hm]
    have hmn : 0 < (k:Int) - r / 2 := by omega
    have hneg : ¬ (0 ≤ -((k:Int) - r / 2)) := by omega
    rw [abs_neg, abs_of_pos hmn, if_neg hneg]
    have : ((k:Int) + r / 2 + (k - r / 2)) / 2 = k := by
      have : ((k:Int) + r / 2 + (k - r / 2)) = 2 * k := by ring
      rw [this]; omega
    rw [this]
    have hj' : (j:Int) = k * k + 1 + r := by omega
    rw [hj']
    have : r = 2 * (r / 2) + 1 := by omega
    nlinarith
#print axioms fringe_roundtrip
