import Mathlib.Algebra.BigOperators.Ring.Finset
import Mathlib.Tactic.Ring
import Mathlib.Tactic.Linarith
import Mathlib.Algebra.Ring.Basic

open Finset

variable {R K : Type} [CommRing R] [CommRing K]

/-- a character: e (a+b) = e a * e b -/
structure Char' (R K : Type) [CommRing R] [CommRing K] where
  e : R → K
  add : ∀ a b, e (a + b) = e a * e b

/-- textbook sum: Σ_j g j * E(2 α u n_j) with E = e, u output coord, n_j = j - cN -/
def spec1 (χ : Char' R K) (α : R) (n : ℕ) (cN : R) (g : ℕ → K) (u : R) : K :=
  ∑ j ∈ range n, g j * χ.e (2 * α * u * ((j : R) - cN))

/-- Bluestein form: a(u) * Σ_j (g j * b j) * h(u - n_j) -/
def blue1 (χ : Char' R K) (α : R) (n : ℕ) (cN : R) (g : ℕ → K) (u : R) : K :=
  χ.e (α * u * u) * ∑ j ∈ range n, (g j * χ.e (α * ((j:R) - cN) * ((j:R) - cN))) *
      χ.e (-(α * (u - ((j:R) - cN)) * (u - ((j:R) - cN))))

theorem bluestein_core (χ : Char' R K) (α : R) (n : ℕ) (cN : R) (g : ℕ → K) (u : R) :
    blue1 χ α n cN g u = spec1 χ α n cN g u := by
  unfold blue1 spec1
  rw [Finset.mul_sum]
  refine Finset.sum_congr rfl (fun j _ => ?_)
  have : χ.e (2 * α * u * ((j : R) - cN)) =
      χ.e (α * u * u) * (χ.e (α * ((j:R) - cN) * ((j:R) - cN)) *
        χ.e (-(α * (u - ((j:R) - cN)) * (u - ((j:R) - cN))))) := by
    rw [← χ.add, ← χ.add]; congr 1; ring
  rw [this]; ring
#print axioms bluestein_core
