import Mathlib.Tactic.Ring
import Mathlib.Tactic.LinearCombination
import Mathlib.Algebra.Ring.Basic

variable {K : Type} [CommRing K]

/-- P 0 = virtual p_{-1} = 0, P (n+1) = p_n -/
def P (a b c : ℕ → K) (x : K) : ℕ → K
  | 0 => 0
  | 1 => 1
  | (n+2) => (a n * x + b n) * P a b c x (n+1) - c n * P a b c x n

/-- Σ_i l[i] * p_{k+i} -/
def wsum (a b c : ℕ → K) (x : K) : ℕ → List K → K
  | _, [] => 0
  | k, s :: rest => s * P a b c x (k+1) + wsum a b c x (k+1) rest

/-- Clenshaw downward sweep: (α_k, α_{k+1}) for coefficients s_k, s_{k+1}, … -/
def clen (a b c : ℕ → K) (x : K) : ℕ → List K → K × K
  | _, [] => (0, 0)
  | k, s :: rest =>
    let r := clen a b c x (k+1) rest
    (s + (a k * x + b k) * r.1 - c (k+1) * r.2, r.1)

theorem clen_inv (a b c : ℕ → K) (x : K) (l : List K) : ∀ k,
    wsum a b c x k l = (clen a b c x k l).1 * P a b c x (k+1) - c k * (clen a b c x k l).2 * P a b c x k := by
  induction l with
  | nil => intro k; simp [wsum, clen]
  | cons s rest ih =>
    intro k
    have h := ih (k+1)
    simp only [wsum, clen]
    rw [h]
    have hP : P a b c x (k+2) = (a k * x + b k) * P a b c x (k+1) - c k * P a b c x k := rfl
    rw [hP]; ring

/-- Clenshaw's sum equals the explicit sum, for every coefficient list (any length, incl. 0,1,2) -/
theorem clenshaw_sum (a b c : ℕ → K) (x : K) (l : List K) :
    (clen a b c x 0 l).1 = wsum a b c x 0 l := by
  rw [clen_inv]; simp [P]
#print axioms clenshaw_sum
