#!/venv/bin/python
import sys, os
sys.path.insert(0,'/tmp/ag/c15/verif/notes')
import selftest_C15_C16_mutations as mut
mut.AG='/tmp/ag/c15'
S = {
 'r15-4a-abs-callable': ('C15','prysm/convolution.py',"            tf = tf(**kwargs)\n","            tf = abs(tf(**kwargs))\n"),
 'r15-4b-container-fftshift': ('C15','prysm/otf.py',"        psf = psf.data\n","        psf = fft.fftshift(psf.data)\n"),
 'r15-4c-callable-first-only': ('C15','prysm/convolution.py',"    if any(callable(tf) for tf in tfs):\n","    if len(tfs) and callable(tfs[0]):\n"),
 'r15-4d-size-gated': ('C15','prysm/convolution.py',"    O = fft.fft2(fft.ifftshift(o))  # NOQA : O ambiguous (not, lowercase => uppercase notation)\n","    O = fft.fft2(fft.ifftshift(o)) if o.size <= 1024 else fft.fft2(o)  # NOQA\n"),
 'r16-4a-post-gains-swapped': ('C16','prysm/bayer.py',"    rgb[..., 1] *= wg\n    rgb[..., 2] *= wb\n","    rgb[..., 1] *= wb\n    rgb[..., 2] *= wg\n"),
 'r16-4b-post-sat0': ('C16','prysm/bayer.py',"            plane = rgb[..., i]\n            sat = saturation[i]\n","            plane = rgb[..., i]\n            sat = saturation[0]\n"),
 'r16-4c-recomposite-f32': ('C16','prysm/bayer.py',"        output = np.empty((2*m, 2*n), dtype=r.dtype)\n","        output = np.empty((2*m, 2*n), dtype=np.float32)\n"),
 'r16-4d-sigma-squared': ('C16','prysm/detector.py',"np.random.normal(0, self.read_noise, shot_noise.shape)","np.random.normal(0, self.read_noise**2, shot_noise.shape)"),
 'r16-4d-poisson-int16': ('C16','prysm/detector.py',"        shot_noise = np.random.poisson(electrons, (frames, electrons.size))\n","        shot_noise = np.random.poisson(electrons, (frames, electrons.size)).astype(np.int16)\n"),
}
B = {
 'r15-5-kwargs-dict': ('C15','prysm/convolution.py',"""            kwargs = {}
            if 'fx' in params:
                kwargs['fx'] = fx
            if 'fy' in params:
                kwargs['fy'] = fy
            if 'fr' in params:
                kwargs['fr'] = fr
            if 'ft' in params:
                kwargs['ft'] = ft
""","""            grids = {'fx': fx, 'fy': fy, 'fr': fr, 'ft': ft}
            kwargs = {k: grids[k] for k in params if k in grids}
"""),
 'r15-5-polar-keywords': ('C15','prysm/convolution.py',"cart_to_polar(fx, fy, vec_to_grid=False)","cart_to_polar(x=fx, y=fy, vec_to_grid=False)"),
 'r15-5-ptf-no-normalise': ('C15','prysm/otf.py',"    data /= data[cy, cx]\n    dat = np.angle(data)","    dat = np.angle(data)"),
 'r16-5a-augassign-ratio': ('C16','prysm/bayer.py',"        wr = wr / ratio\n        wg = wg / ratio\n        wb = wb / ratio\n","        wr /= ratio\n        wg /= ratio\n        wb /= ratio\n"),
 'r16-5b-reshape-spelling': ('C16','prysm/detector.py',"output.reshape((frames, *aerial_img.shape))","output.reshape((frames,) + aerial_img.shape)"),
 'r16-5b-stack-axis': ('C16','prysm/bayer.py',"    return np.stack([r, g, b], axis=2)","    return np.stack([r, g, b], axis=-1)"),
 'r16-5c-div-gain': ('C16','prysm/detector.py',"        output = input_to_adc * scaling\n","        output = input_to_adc / self.conversion_gain\n"),
}
which = sys.argv[1] if len(sys.argv)>1 else 'S'
table = S if which=='S' else B
names = sys.argv[2:] or list(table)
assert mut.sh(f'git -C {mut.REPO} status --short').strip()=='' , 'repo dirty'
for name in names:
    pid, rel, old, new = table[name]
    path=os.path.join(mut.REPO,rel); s=open(path).read()
    if s.count(old)!=1:
        print(name,'pattern count',s.count(old)); continue
    open(path,'w').write(s.replace(old,new))
    try:
        viol, summ, rep = mut.run_check(pid)
        print(f'== {name}: ' + ('VIOLATION' if viol else 'exit0') + (' no-failing-input' if viol and 'no-failing' in viol[0] else ''))
        for l in summ: print('   ', l[:230])
        if rep:
            for l in rep: print('      |', l[:200])
    finally:
        mut.sh(f'git -C {mut.REPO} reset -q --hard HEAD')
