"""translator items for C04 (origin convention): fttools.fftrange / pad2d / crop_center, psf.centroid,
plus structural facts about make_xy_grid, forward_ft_unit, Slices and Wavefront.pad2d/crop."""
import ast
from pyexpr2lean import (Gen, Tr, Untranslatable, load, get_def, find_assign, find_returns, elementwise,
                         comp_parts, find_calls, call_arg)

M = 'Model.C04'


def generate(repo):
    g = Gen('C04', imports=['PrysmVerif.PyPrelude', 'PrysmVerif.Model.C04'])
    ft, _ = load(repo, 'prysm/fttools.py')
    psf, _ = load(repo, 'prysm/psf.py')
    co, _ = load(repo, 'prysm/coordinates.py')
    rd, _ = load(repo, 'prysm/_richdata.py')
    pr, _ = load(repo, 'prysm/propagation.py')

    # ---- fftrange(n) = arange(lo, hi)
    def fftrange():
        fn = get_def(ft, 'fftrange')
        (ret,) = find_returns(fn)
        assert ast.unparse(ret.func).endswith('arange')
        tr = Tr({'n': 'n'})
        return (f'def fftrangeLo (n : Int) : Int := {tr.expr(ret.args[0])}\n'
                f'def fftrangeHi (n : Int) : Int := {tr.expr(ret.args[1])}')
    g.item('fftrange', 'prysm/fttools.py:fftrange', lambda: get_def(ft, 'fftrange'), fftrange,
           f'def fftrangeLo (n : Int) : Int := {M}.fftrangeLo n\ndef fftrangeHi (n : Int) : Int := {M}.fftrangeHi n')

    # ---- pad2d: element-wise reading of shape_diff / before / pad_shape / slcs
    def pad_env(fn):
        elem = {'in_shape': 'n', 'out_shape': 'N', 'array.shape': 'n'}
        # resolve list-valued locals that are comprehensions over the known per-axis lists, to a fixpoint
        names = ['shape_diff', 'before', 'dbytwo', 'divby2']
        for _ in range(3):
            for nm in names:
                if nm in elem:
                    continue
                try:
                    elem[nm] = elementwise(find_assign(fn, nm, which=-1), elem)
                except Untranslatable:
                    pass
        return elem

    def pad_before_after():
        fn = get_def(ft, 'pad2d')
        elem = pad_env(fn)
        # the np.pad branch: pad_shape gets one (before, after) tuple per axis, appended in a for loop
        loops = [n for n in ast.walk(fn) if isinstance(n, ast.For)
                 and any(isinstance(c, ast.Call) and ast.unparse(c.func) == 'pad_shape.append' for c in ast.walk(n))]
        if len(loops) != 1:
            raise Untranslatable('pad_shape is not filled by exactly one for loop')
        loop = loops[0]
        env = {}
        if isinstance(loop.target, ast.Name):
            env[loop.target.id] = elem[ast.unparse(loop.iter)]
        else:
            assert ast.unparse(loop.iter.func) == 'zip'
            for t, a in zip(loop.target.elts, loop.iter.args):
                env[t.id] = elem[ast.unparse(a)]
        tup = None
        for st in loop.body:
            if isinstance(st, ast.Assign) and isinstance(st.targets[0], ast.Name):
                if isinstance(st.value, ast.Tuple):
                    tup = st.value
                    tupname = st.targets[0].id
                else:
                    env[st.targets[0].id] = Tr(env).expr(st.value)
            elif isinstance(st, ast.Expr) and isinstance(st.value, ast.Call):
                arg = st.value.args[0]
                if isinstance(arg, ast.Tuple):
                    tup = arg
                elif not (isinstance(arg, ast.Name) and tup is not None and arg.id == tupname):
                    raise Untranslatable('pad_shape.append of something else')
            else:
                raise Untranslatable(f'statement in pad_shape loop: {ast.unparse(st)[:50]}')
        if tup is None or len(tup.elts) != 2:
            raise Untranslatable('no (before, after) tuple')
        tr = Tr(env)
        return (f'def padBefore (n N : Int) : Int := {tr.expr(tup.elts[0])}\n'
                f'def padAfter (n N : Int) : Int := {tr.expr(tup.elts[1])}')
    g.item('pad2d.pad_shape', 'prysm/fttools.py:pad2d', lambda: get_def(ft, 'pad2d'), pad_before_after,
           f'def padBefore (n N : Int) : Int := {M}.padBefore n N\ndef padAfter (n N : Int) : Int := {M}.padAfter n N')

    def pad_slice():
        fn = get_def(ft, 'pad2d')
        elem = pad_env(fn)
        sl = find_assign(fn, 'slcs')
        elt, binds = comp_parts(sl)
        assert isinstance(elt, ast.Call) and ast.unparse(elt.func) == 'slice' and len(elt.args) == 2
        env = {k: elem[v] for k, v in binds.items()}
        tr = Tr(env)
        return (f'def padSliceLo (n N : Int) : Int := {tr.expr(elt.args[0])}\n'
                f'def padSliceHi (n N : Int) : Int := {tr.expr(elt.args[1])}')
    g.item('pad2d.slcs', 'prysm/fttools.py:pad2d', lambda: get_def(ft, 'pad2d'), pad_slice,
           f'def padSliceLo (n N : Int) : Int := {M}.padBefore n N\ndef padSliceHi (n N : Int) : Int := {M}.padBefore n N + n')

    def pad_outlen():
        fn = get_def(ft, 'pad2d')
        cands = [v for v in [find_assign(fn, 'out_shape', which=0)]]
        term = elementwise(cands[0], {'in_shape': 'n'}, mode='rat', scalars={'Q': 'Q'})
        return f'def padOutLen (n Q : Rat) : Rat := {term}'
    g.item('pad2d.out_shape', 'prysm/fttools.py:pad2d', lambda: get_def(ft, 'pad2d'), pad_outlen,
           f'def padOutLen (n Q : Rat) : Rat := {M}.padOutLen n Q')

    # ---- crop_center
    def crop():
        fn = get_def(ft, 'crop_center')
        elem = {'img.shape': 'n', 'out_shape': 'N'}
        for nm in ('padding', 'left'):
            try:
                elem[nm] = elementwise(find_assign(fn, nm, which=-1), elem)
            except Untranslatable:
                if nm == 'left':
                    raise
        sl = find_assign(fn, 'slcs')
        elt, binds = comp_parts(sl)
        assert ast.unparse(elt.func) == 'slice' and len(elt.args) == 2
        tr = Tr({k: elem[v] for k, v in binds.items()})
        (ret,) = find_returns(fn)
        assert ast.unparse(ret) == 'img[slcs]'
        return (f'def cropLo (n N : Int) : Int := {tr.expr(elt.args[0])}\n'
                f'def cropHi (n N : Int) : Int := {tr.expr(elt.args[1])}')
    g.item('crop_center', 'prysm/fttools.py:crop_center', lambda: get_def(ft, 'crop_center'), crop,
           f'def cropLo (n N : Int) : Int := {M}.cropLeft n N\ndef cropHi (n N : Int) : Int := {M}.cropLeft n N + N')

    # ---- psf.centroid reference index
    def centroid():
        fn = get_def(psf, 'centroid')
        term = elementwise(find_assign(fn, 'center'), {'data.shape': 'n'})
        return f'def centroidRef (n : Int) : Int := {term}'
    g.item('centroid.center', 'prysm/psf.py:centroid', lambda: get_def(psf, 'centroid'), centroid,
           f'def centroidRef (n : Int) : Int := {M}.centroidRef n')

    # ---- structural facts
    def xy_grid():
        fn = get_def(co, 'make_xy_grid')
        for st in ast.walk(fn):
            if isinstance(st, ast.Assign) and isinstance(st.targets[0], ast.Tuple) \
                    and [ast.unparse(t) for t in st.targets[0].elts] == ['y', 'x']:
                elt, binds = comp_parts(st.value)
                s = list(binds)[0]
                return binds[s] == 'shape' and isinstance(elt, ast.BinOp) and isinstance(elt.op, ast.Mult) \
                    and ast.unparse(elt.left).startswith(f'fftrange({s}') and ast.unparse(elt.right) == 'dx'
        return False
    g.fact('xyGridIsFftrangeTimesDxInYXOrder', 'prysm/coordinates.py:make_xy_grid', xy_grid)

    def ft_unit():
        fn = get_def(ft, 'forward_ft_unit')
        unit = find_assign(fn, 'unit')
        ok1 = ast.unparse(unit) == 'fftfreq(samples, dx)'
        rets = [ast.unparse(r) for r in find_returns(fn)]
        return ok1 and rets == ['fft.fftshift(unit)', 'unit']
    g.fact('ftUnitIsFftshiftOfFftfreq', 'prysm/fttools.py:forward_ft_unit', ft_unit)

    def slices():
        fn = get_def(rd, 'Slices.__init__')
        for st in fn.body:
            if isinstance(st, ast.Assign) and ast.unparse(st.targets[0]) == '(self.center_y, self.center_x)':
                return ast.unparse(st.value) in ('(np.argmin(abs(y)), np.argmin(abs(x)))',)
        return False
    g.fact('slicesCentreIsArgminAbs', 'prysm/_richdata.py:Slices.__init__', slices)

    def wf_pad():
        fn = get_def(pr, 'Wavefront.pad2d')
        (c,) = find_calls(fn, 'pad2d')
        return ast.unparse(c) == 'pad2d(self.data, Q=Q, value=value, mode=mode, out_shape=out_shape)'
    g.fact('wavefrontPadDelegates', 'prysm/propagation.py:Wavefront.pad2d', wf_pad)

    def wf_crop():
        fn = get_def(pr, 'Wavefront.crop')
        (c,) = find_calls(fn, 'crop_center')
        return ast.unparse(c) == 'crop_center(self.data, out_shape)'
    g.fact('wavefrontCropDelegates', 'prysm/propagation.py:Wavefront.crop', wf_crop)

    return g.finish()


if __name__ == '__main__':
    import sys
    text, items = generate(sys.argv[1] if len(sys.argv) > 1 else '/repo')
    print(text)
    for it in items:
        print('--', it)
