"""translator items for C04 (origin convention).

Every item TRANSLATES a piece of the current source into a Lean term (never compares source text):

  fttools.fftrange                 -> fftrangeLo / fftrangeHi
  fttools.pad2d                    -> padBefore / padAfter (np.pad branch), padSliceLo / padSliceHi (constant branch),
                                      padOutLen (default ceil(n*Q)), padIntShape0/1 (integer out_shape)
  fttools.crop_center              -> cropLo / cropHi, cropIntShape0/1 (integer out_shape)
  psf.centroid                     -> centroidRef, centroidSpatialElem (dx*(com-c), zip order), centroidPixelsElem
  coordinates.make_xy_grid         -> xyGridElem, gridX / gridY (meshgrid route), vecX / vecY (grid=False),
                                      xyScalarShape0/1 (scalar shape), xyDxOfDiameter
  fttools.forward_ft_unit          -> ftUnitNum shift n i, composed of the NumPy helpers below
  propagation.focus / unfocus      -> focusPre / focusPost / unfocusPre / unfocusPost (roll amounts around the FFT)
  numpy.fft fftfreq/fftshift/ifftshift (NumPy's own _helper.py) -> npFftfreqSplit / P1Lo / P2Lo, npFftshiftBy, npIfftshiftBy
  RichData.x / .y getters          -> richX / richY  (which return value of make_xy_grid is cached where)
  RichData.slices                  -> slicesXVec / slicesYVec (x[0], y[..., 0] and which is passed as x= / y=)
  Slices.__init__                  -> slicesCentreY / slicesCentreX  (np.argmin(abs(v)) -> `am v len`)
  Slices.x / Slices.y              -> sliceXTwo / sliceXOne / sliceYTwo / sliceYOne (+ ...Coord)
  psf.autocrop                     -> autocropLo0/Hi0/Lo1/Hi1 (window per axis as a function of the integer centroid and px)
  psf.estimate_size                -> estSizeElem, estSizeX / estSizeY (dx-only coordinates and their x / y binding)
  RichData.support_x / support_y   -> supportX / supportY (which axis length is scaled by dx)
  fttools.fourier_resample         -> resamplePre / resamplePost (shift pair), resampleOut0/1 (axis length x zoom factor)
  RichData.r / .t, Slices polar cache, exact_x / exact_y, exact_xy -> three-valued facts richPolarBinds / slicesPolarBinds /
                                      exact1dBinds / exact2dBinds (which coordinate reaches which argument / interpolator axis)
  coordinates.uniform_cart_to_polar + Slices.az* + estimate_size -> polarRhoAxis / polarPhiAxis / polarRhoLen / polarPhiLen,
                                      azReduceAxes, estSizeAxes (which array axis is rho, which is phi, who reduces / searches along which)
  Wavefront.pad2d / Wavefront.crop -> three-valued facts: every parameter of the delegated call is bound to the
                                      like-named argument (keyword or positional spelling is irrelevant)

A source shape outside what is understood raises Untranslatable: the item falls back to the hand model, is recorded
as `untranslatable` (TIE-DEGRADED, widened sweep); it never produces a failing theorem by itself.
"""
import ast
import importlib.util
import os
from pyexpr2lean import (Gen, Tr, Untranslatable, load, get_def, find_assign, find_assigns, find_returns, elementwise,
                         comp_parts, find_calls)

M = 'Model.C04'


# ------------------------------------------------------------------------------------------------
# small helpers (kept here: shared files are not edited)
# ------------------------------------------------------------------------------------------------
def params_of(fn, skip_self=False):
    names = [a.arg for a in fn.args.posonlyargs + fn.args.args]
    if skip_self and names and names[0] == 'self':
        names = names[1:]
    return names, [a.arg for a in fn.args.kwonlyargs]


def bind_call(call, fn, skip_self=False):
    """{parameter name: argument node} of `call` against the signature of FunctionDef `fn`
    (positional and keyword spellings give the same binding)"""
    pos, kwonly = params_of(fn, skip_self)
    out = {}
    if any(isinstance(a, ast.Starred) for a in call.args) or any(k.arg is None for k in call.keywords):
        raise Untranslatable('star-args in call')
    if len(call.args) > len(pos):
        raise Untranslatable('too many positional arguments')
    for p, a in zip(pos, call.args):
        out[p] = a
    for k in call.keywords:
        if k.arg not in pos + kwonly or k.arg in out:
            raise Untranslatable(f'keyword {k.arg}')
        out[k.arg] = k.value
    return out


def last_attr(e):
    """'np.fft.fftshift' -> 'fftshift'"""
    return ast.unparse(e).split('.')[-1]


import copy

PRIMITIVES = {'fftrange', 'fftfreq', 'make_xy_grid', 'pad2d', 'crop_center'}     # read by their own items, never inlined


def _bound_names(e):
    """names bound inside expression e (comprehension targets, lambda parameters)"""
    out = set()
    for n in ast.walk(e):
        if isinstance(n, ast.comprehension):
            out |= {t.id for t in ast.walk(n.target) if isinstance(t, ast.Name)}
        elif isinstance(n, ast.Lambda):
            out |= {a.arg for a in n.args.args}
    return out


def _free_names(e):
    return {n.id for n in ast.walk(e) if isinstance(n, ast.Name)} - _bound_names(e)


def subst(e, mapping):
    """copy of expression e with the free names in `mapping` replaced by (copies of) their expressions; refuses
    (Untranslatable) when a comprehension / lambda variable of e would capture or shadow one of them"""
    bound = _bound_names(e)
    if bound & set(mapping) or any(bound & _free_names(v) for k, v in mapping.items() if k in _free_names(e)):
        raise Untranslatable('substitution would capture a comprehension variable')

    class S(ast.NodeTransformer):
        def visit_Name(self, n):
            if isinstance(n.ctx, ast.Load) and n.id in mapping:
                return copy.deepcopy(mapping[n.id])
            return n
    return ast.fix_missing_locations(S().visit(copy.deepcopy(e)))


def straight_return(h):
    """the value a straight-line function returns, as ONE expression over its parameters (its own `name = expr`
    locals substituted); None when the body is anything else"""
    body = [s_ for s_ in h.body if not (isinstance(s_, ast.Expr) and isinstance(s_.value, ast.Constant))]
    if not body or not isinstance(body[-1], ast.Return) or body[-1].value is None \
            or h.args.vararg or h.args.kwarg or h.decorator_list:
        return None
    loc = {}
    try:
        for s_ in body[:-1]:
            if isinstance(s_, ast.Assign) and len(s_.targets) == 1 and isinstance(s_.targets[0], ast.Name):
                loc[s_.targets[0].id] = subst(s_.value, loc)
            else:
                return None
        return subst(body[-1].value, loc)
    except Untranslatable:
        return None


def inline_helpers(mod, fn, cls=None, depth=3):
    """copy of FunctionDef fn in which every call of a same-module straight-line helper function (or `self.helper(...)`
    of the same class) is replaced by the helper's return expression with the arguments substituted for its parameters"""
    table = {n.name: n for n in mod.body if isinstance(n, ast.FunctionDef)}
    methods = {n.name: n for n in (cls.body if cls is not None else []) if isinstance(n, ast.FunctionDef)}

    class I(ast.NodeTransformer):
        def visit_Call(self, c):
            self.generic_visit(c)
            h, skip = None, False
            if isinstance(c.func, ast.Name):
                h = table.get(c.func.id)
            elif isinstance(c.func, ast.Attribute) and ast.unparse(c.func.value) == 'self':
                h, skip = methods.get(c.func.attr), True
            if h is None or h is fn or h.name == fn.name or h.name in PRIMITIVES:
                return c
            ret = straight_return(h)
            if ret is None:
                return c
            try:
                b = bind_call(c, h, skip_self=skip)
                pos, kwonly = params_of(h, skip_self=skip)
                dflt = dict(zip(pos[len(pos) - len(h.args.defaults):], h.args.defaults))
                dflt.update({k: d for k, d in zip(kwonly, h.args.kw_defaults) if d is not None})
                for p_ in pos + kwonly:
                    if p_ not in b:
                        if p_ not in dflt:
                            return c
                        b[p_] = dflt[p_]
                return subst(ret, b)
            except Untranslatable:
                return c
    out = copy.deepcopy(fn)
    for _ in range(depth):
        before = ast.dump(out)
        out = ast.fix_missing_locations(I().visit(out))
        if ast.dump(out) == before:
            break
    return out


def expand_locals(e, fn, stop=()):
    """expression e with every local of fn that is assigned exactly once (also through `a, b = u, v`) replaced by its
    value, recursively; parameters, names in `stop` and names assigned more than once are left alone"""
    params = set(sum(params_of(fn), []))
    for _ in range(6):
        m = {}
        for nm in _free_names(e) - params - set(stop):
            vs = find_assigns(fn, nm)
            if len(vs) == 1:
                m[nm] = vs[0]
        if not m:
            return e
        e = subst(e, m)
    return e


def straight_env(fn, env, mode='int'):
    """extend env with the top-level `name = expr` statements of fn (in order) that translate"""
    env = dict(env)
    for st in fn.body:
        if isinstance(st, ast.Assign) and len(st.targets) == 1 and isinstance(st.targets[0], ast.Name):
            try:
                env[st.targets[0].id] = Tr(env, mode).expr(st.value)
            except Untranslatable:
                env.pop(st.targets[0].id, None)
    return env


def is_abs_of(e, names):
    """abs(v) / np.abs(v) / np.absolute(v) / np.fabs(v) -> the text of v when it is one of names"""
    if isinstance(e, ast.Call) and len(e.args) == 1 and not e.keywords and last_attr(e.func) in ('abs', 'absolute', 'fabs'):
        v = ast.unparse(e.args[0])
        if v in names:
            return v
    return None


def argmin_abs_of(e, names):
    """np.argmin(abs(v)) / argmin(np.abs(v)) / abs(v).argmin() (any module prefix) -> v"""
    if not isinstance(e, ast.Call) or e.keywords:
        return None
    if len(e.args) == 1 and last_attr(e.func) == 'argmin':
        return is_abs_of(e.args[0], names)
    if len(e.args) == 0 and isinstance(e.func, ast.Attribute) and e.func.attr == 'argmin':
        return is_abs_of(e.func.value, names)
    return None


def index_term(sub, fixed, free='k', ndim=2):
    """`base[i0, i1]` with every component one of: a name in `fixed` (-> its term), an int literal, `:` (the free
    index), `lo:` (lo + free), `...` (fills up with free).  Exactly one free component.  Returns the list of terms."""
    idx = sub.slice
    comps = list(idx.elts) if isinstance(idx, ast.Tuple) else [idx]
    if any(isinstance(c, ast.Constant) and c.value is Ellipsis for c in comps):
        k = [i for i, c in enumerate(comps) if isinstance(c, ast.Constant) and c.value is Ellipsis]
        if len(k) != 1:
            raise Untranslatable('two ellipses')
        fill = [ast.Slice(lower=None, upper=None, step=None)] * (ndim - (len(comps) - 1))
        comps = comps[:k[0]] + fill + comps[k[0] + 1:]
    while len(comps) < ndim:
        comps.append(ast.Slice(lower=None, upper=None, step=None))
    if len(comps) != ndim:
        raise Untranslatable('index rank')
    out, nfree = [], 0
    for c in comps:
        if isinstance(c, ast.Slice):
            if c.upper is not None or c.step is not None:
                raise Untranslatable('slice with upper bound / step')
            nfree += 1
            if c.lower is None:
                out.append(free)
            else:
                key = ast.unparse(c.lower)
                if key not in fixed:
                    raise Untranslatable(f'slice start {key}')
                out.append(f'({fixed[key]} + {free})')
        elif isinstance(c, ast.Constant) and isinstance(c.value, int) and not isinstance(c.value, bool):
            out.append(f'({c.value} : Int)' if c.value >= 0 else f'(-{-c.value} : Int)')
        else:
            key = ast.unparse(c)
            if key not in fixed:
                raise Untranslatable(f'index {key}')
            out.append(fixed[key])
    if nfree != 1:
        raise Untranslatable('need exactly one free index')
    return out


def branch_on(fn, flag_texts):
    """the `if <flag>:` (or `if not <flag>` / `if <flag> is True` ...) statement of fn; returns (true_body, false_body)
    where *_body are statement lists (the statements following the `if` are appended to a branch that does not return)"""
    for k, st in enumerate(fn.body):
        if not isinstance(st, ast.If):
            continue
        t = st.test
        neg = False
        if isinstance(t, ast.UnaryOp) and isinstance(t.op, ast.Not):
            neg, t = True, t.operand
        if isinstance(t, ast.Compare) and len(t.ops) == 1 and isinstance(t.comparators[0], ast.Constant) \
                and isinstance(t.comparators[0].value, bool) and isinstance(t.ops[0], (ast.Is, ast.Eq, ast.IsNot, ast.NotEq)):
            if (t.comparators[0].value is False) != isinstance(t.ops[0], (ast.IsNot, ast.NotEq)):
                neg = not neg
            t = t.left
        if ast.unparse(t) not in flag_texts:
            continue
        rest = fn.body[k + 1:]
        a = list(st.body) + ([] if _returns(st.body) else rest)
        b = list(st.orelse) + ([] if _returns(st.orelse) else rest)
        return (b, a) if neg else (a, b)
    # conditional-expression form: `return A if <flag> else B`
    for st in fn.body:
        if isinstance(st, ast.Return) and isinstance(st.value, ast.IfExp):
            t, neg = st.value.test, False
            if isinstance(t, ast.UnaryOp) and isinstance(t.op, ast.Not):
                neg, t = True, t.operand
            if ast.unparse(t) in flag_texts:
                a, b = [ast.Return(value=st.value.body)], [ast.Return(value=st.value.orelse)]
                return (b, a) if neg else (a, b)
    raise Untranslatable(f'no branch on {flag_texts}')


def _returns(stmts):
    return bool(stmts) and isinstance(stmts[-1], ast.Return)


def the_return(stmts):
    rs = [s for s in stmts if isinstance(s, ast.Return)]
    if len(rs) != 1 or rs[0].value is None:
        raise Untranslatable('branch without a single return')
    return rs[0].value


# ------------------------------------------------------------------------------------------------
def generate(repo):
    g = Gen('C04', imports=['PrysmVerif.PyPrelude', 'PrysmVerif.Model.C04'], header='set_option linter.unusedVariables false')
    ft, _ = load(repo, 'prysm/fttools.py')
    psf, _ = load(repo, 'prysm/psf.py')
    co, _ = load(repo, 'prysm/coordinates.py')
    rd, _ = load(repo, 'prysm/_richdata.py')
    pr, _ = load(repo, 'prysm/propagation.py')

    def inl(mod, dotted):
        """the definition with same-module straight-line helpers inlined"""
        cls = get_def(mod, dotted.rsplit('.', 1)[0]) if '.' in dotted else None
        return inline_helpers(mod, get_def(mod, dotted), cls)

    # ---- fftrange(n) = arange(lo, hi)      (also: arange(n) - c ; locals are resolved)
    def fftrange():
        fn = inl(ft, 'fftrange')
        env = straight_env(fn, {'n': 'n'})
        (ret,) = find_returns(fn)
        tr = Tr(env)
        if isinstance(ret, ast.BinOp) and isinstance(ret.op, (ast.Sub, ast.Add)) and isinstance(ret.left, ast.Call) \
                and last_attr(ret.left.func) == 'arange' and len(ret.left.args) == 1:
            c = tr.expr(ret.right)
            if isinstance(ret.op, ast.Add):
                c = f'(-{c})'
            return (f'def fftrangeLo (n : Int) : Int := (-{c})\n'
                    f'def fftrangeHi (n : Int) : Int := ({tr.expr(ret.left.args[0])} - {c})')
        if not (isinstance(ret, ast.Call) and last_attr(ret.func) == 'arange'):
            raise Untranslatable('fftrange does not return an arange')
        b = {k.arg: k.value for k in ret.keywords}
        args = list(ret.args)
        lo = args[0] if len(args) > 0 else b.get('start')
        hi = args[1] if len(args) > 1 else b.get('stop')
        if lo is None or hi is None or len(args) > 2 or 'step' in b:
            raise Untranslatable('arange form')
        return (f'def fftrangeLo (n : Int) : Int := {tr.expr(lo)}\n'
                f'def fftrangeHi (n : Int) : Int := {tr.expr(hi)}')
    g.item('fftrange', 'prysm/fttools.py:fftrange', lambda: get_def(ft, 'fftrange'), fftrange,
           f'def fftrangeLo (n : Int) : Int := {M}.fftrangeLo n\ndef fftrangeHi (n : Int) : Int := {M}.fftrangeHi n')

    # ---- pad2d: element-wise reading of shape_diff / before / pad_shape / slcs
    def pad_env(fn):
        elem = {'in_shape': 'n', 'out_shape': 'N', 'array.shape': 'n'}
        # every list-valued local that is a comprehension over the known per-axis lists, to a fixpoint
        names = [t.id for st in ast.walk(fn) if isinstance(st, ast.Assign) for t in st.targets if isinstance(t, ast.Name)]
        for _ in range(4):
            for nm in names:
                if nm in elem:
                    continue
                try:
                    elem[nm] = elementwise(find_assign(fn, nm, which=-1), elem)
                except Untranslatable:
                    pass
        return elem

    def pad_before_after():
        fn = inl(ft, 'pad2d')
        elem = pad_env(fn)
        if 'pad_shape' in elem:
            raise Untranslatable('pad_shape is a comprehension of scalars')
        # form 1: pad_shape = [(b, a) for ... in zip(...)]
        try:
            elt, binds = comp_parts(find_assign(fn, 'pad_shape', which=-1))
            if isinstance(elt, ast.Tuple) and len(elt.elts) == 2:
                tr = Tr({k: elem[v] for k, v in binds.items()})
                return (f'def padBefore (n N : Int) : Int := {tr.expr(elt.elts[0])}\n'
                        f'def padAfter (n N : Int) : Int := {tr.expr(elt.elts[1])}')
        except Untranslatable:
            pass
        # form 2: the np.pad branch: pad_shape gets one (before, after) tuple per axis, appended in a for loop
        loops = [n for n in ast.walk(fn) if isinstance(n, ast.For)
                 and any(isinstance(c, ast.Call) and ast.unparse(c.func) == 'pad_shape.append' for c in ast.walk(n))]
        if len(loops) != 1:
            raise Untranslatable('pad_shape is not filled by exactly one for loop')
        loop = loops[0]
        env = {}
        if isinstance(loop.target, ast.Name):
            env[loop.target.id] = elem[ast.unparse(loop.iter)]
        else:
            assert ast.unparse(loop.iter.func) == 'zip'
            for t, a in zip(loop.target.elts, loop.iter.args):
                env[t.id] = elem[ast.unparse(a)]
        tup = None
        for st in loop.body:
            if isinstance(st, ast.Assign) and isinstance(st.targets[0], ast.Name):
                if isinstance(st.value, ast.Tuple):
                    tup = st.value
                    tupname = st.targets[0].id
                else:
                    env[st.targets[0].id] = Tr(env).expr(st.value)
            elif isinstance(st, ast.Expr) and isinstance(st.value, ast.Call):
                arg = st.value.args[0]
                if isinstance(arg, ast.Tuple):
                    tup = arg
                elif not (isinstance(arg, ast.Name) and tup is not None and arg.id == tupname):
                    raise Untranslatable('pad_shape.append of something else')
            else:
                raise Untranslatable(f'statement in pad_shape loop: {ast.unparse(st)[:50]}')
        if tup is None or len(tup.elts) != 2:
            raise Untranslatable('no (before, after) tuple')
        tr = Tr(env)
        return (f'def padBefore (n N : Int) : Int := {tr.expr(tup.elts[0])}\n'
                f'def padAfter (n N : Int) : Int := {tr.expr(tup.elts[1])}')
    g.item('pad2d.pad_shape', 'prysm/fttools.py:pad2d', lambda: get_def(ft, 'pad2d'), pad_before_after,
           f'def padBefore (n N : Int) : Int := {M}.padBefore n N\ndef padAfter (n N : Int) : Int := {M}.padAfter n N')

    def slice_call(elt):
        if not (isinstance(elt, ast.Call) and ast.unparse(elt.func) == 'slice' and not elt.keywords and len(elt.args) == 2):
            raise Untranslatable('slcs element is not slice(lo, hi)')
        return elt.args

    def pad_slice():
        fn = inl(ft, 'pad2d')
        elem = pad_env(fn)
        elt, binds = comp_parts(find_assign(fn, 'slcs'))
        lo, hi = slice_call(elt)
        tr = Tr({k: elem[v] for k, v in binds.items()})
        # the data is written with `out[slcs] = array`
        if not any(isinstance(st, ast.Assign) and ast.unparse(st.targets[0]) == 'out[slcs]' and ast.unparse(st.value) == 'array'
                   for st in ast.walk(fn)):
            raise Untranslatable('no `out[slcs] = array`')
        return (f'def padSliceLo (n N : Int) : Int := {tr.expr(lo)}\n'
                f'def padSliceHi (n N : Int) : Int := {tr.expr(hi)}')
    g.item('pad2d.slcs', 'prysm/fttools.py:pad2d', lambda: get_def(ft, 'pad2d'), pad_slice,
           f'def padSliceLo (n N : Int) : Int := {M}.padBefore n N\ndef padSliceHi (n N : Int) : Int := {M}.padBefore n N + n')

    def pad_outlen():
        fn = inl(ft, 'pad2d')
        term = elementwise(find_assign(fn, 'out_shape', which=0), {'in_shape': 'n', 'array.shape': 'n'}, mode='rat',
                           scalars={'Q': 'Q'})
        return f'def padOutLen (n Q : Rat) : Rat := {term}'
    g.item('pad2d.out_shape', 'prysm/fttools.py:pad2d', lambda: get_def(ft, 'pad2d'), pad_outlen,
           f'def padOutLen (n Q : Rat) : Rat := {M}.padOutLen n Q')

    def int_shape(fn, prefix):
        """the per-axis target lengths built from an integer `out_shape`  (`[out_shape]*ndim`, `(out_shape, out_shape)`)"""
        for st in ast.walk(fn):
            if isinstance(st, ast.If) and isinstance(st.test, ast.Call) and ast.unparse(st.test.func) == 'isinstance' \
                    and ast.unparse(st.test.args[0]) == 'out_shape':
                (asg,) = [s for s in st.body if isinstance(s, ast.Assign) and ast.unparse(s.targets[0]) == 'out_shape']
                v = asg.value
                tr = Tr({'out_shape': 'N'})
                if isinstance(v, ast.BinOp) and isinstance(v.op, ast.Mult):
                    seq = v.left if isinstance(v.left, (ast.List, ast.Tuple)) else v.right
                    if not (isinstance(seq, (ast.List, ast.Tuple)) and len(seq.elts) == 1):
                        raise Untranslatable('integer out_shape broadcast')
                    terms = [tr.expr(seq.elts[0])] * 2
                elif isinstance(v, (ast.List, ast.Tuple)) and len(v.elts) == 2:
                    terms = [tr.expr(e) for e in v.elts]
                else:
                    raise Untranslatable('integer out_shape broadcast')
                return (f'def {prefix}0 (N : Int) : Int := {terms[0]}\n'
                        f'def {prefix}1 (N : Int) : Int := {terms[1]}')
        raise Untranslatable('no isinstance(out_shape, int) branch')
    g.item('pad2d.int_out_shape', 'prysm/fttools.py:pad2d', lambda: get_def(ft, 'pad2d'),
           lambda: int_shape(inl(ft, 'pad2d'), 'padIntShape'),
           'def padIntShape0 (N : Int) : Int := N\ndef padIntShape1 (N : Int) : Int := N')

    # ---- crop_center
    def crop():
        fn = inl(ft, 'crop_center')
        elem = {'img.shape': 'n', 'out_shape': 'N'}
        names = [t.id for st in ast.walk(fn) if isinstance(st, ast.Assign) for t in st.targets if isinstance(t, ast.Name)]
        for _ in range(3):
            for nm in names:
                if nm in elem or nm == 'slcs':
                    continue
                try:
                    elem[nm] = elementwise(find_assign(fn, nm, which=-1), elem)
                except Untranslatable:
                    pass
        elt, binds = comp_parts(find_assign(fn, 'slcs'))
        lo, hi = slice_call(elt)
        tr = Tr({k: elem[v] for k, v in binds.items()})
        (ret,) = find_returns(fn)
        if ast.unparse(ret) != 'img[slcs]':
            raise Untranslatable('return is not img[slcs]')
        return (f'def cropLo (n N : Int) : Int := {tr.expr(lo)}\n'
                f'def cropHi (n N : Int) : Int := {tr.expr(hi)}')
    g.item('crop_center', 'prysm/fttools.py:crop_center', lambda: get_def(ft, 'crop_center'), crop,
           f'def cropLo (n N : Int) : Int := {M}.cropLeft n N\ndef cropHi (n N : Int) : Int := {M}.cropLeft n N + N')
    g.item('crop_center.int_out_shape', 'prysm/fttools.py:crop_center', lambda: get_def(ft, 'crop_center'),
           lambda: int_shape(inl(ft, 'crop_center'), 'cropIntShape'),
           'def cropIntShape0 (N : Int) : Int := N\ndef cropIntShape1 (N : Int) : Int := N')

    # ---- psf.centroid: reference index and the returned expression of both units (locals found by ROLE, not by name)
    def centroid_parts():
        fn = inl(psf, 'centroid')
        data = params_of(fn)[0][0]
        coms = [t.id for st in ast.walk(fn) if isinstance(st, ast.Assign) and isinstance(st.value, ast.Call)
                and last_attr(st.value.func) == 'center_of_mass' and len(st.value.args) == 1 and not st.value.keywords
                and ast.unparse(st.value.args[0]) == data for t in st.targets if isinstance(t, ast.Name)]
        if len(coms) != 1:
            raise Untranslatable('no single local holding center_of_mass(data)')
        com = coms[0]
        # every local that is a comprehension over data.shape (to a fixpoint): candidates for the per-axis reference
        ielem = {f'{data}.shape': 'n'}
        names = [t.id for st in ast.walk(fn) if isinstance(st, ast.Assign) for t in st.targets if isinstance(t, ast.Name)]
        for _ in range(3):
            for nm in names:
                if nm in ielem or nm == com:
                    continue
                try:
                    ielem[nm] = elementwise(find_assign(fn, nm, which=-1), ielem)
                except Untranslatable:
                    pass
        branch = None
        for k, st in enumerate(fn.body):
            if isinstance(st, ast.If) and isinstance(st.test, ast.Compare) and ast.unparse(st.test.left) == 'unit' \
                    and len(st.test.ops) == 1 and isinstance(st.test.comparators[0], ast.Constant):
                word, eq = st.test.comparators[0].value, isinstance(st.test.ops[0], ast.Eq)
                if not isinstance(st.test.ops[0], (ast.Eq, ast.NotEq)) or word not in ('spatial', 'pixels'):
                    raise Untranslatable('test on unit')
                rest = fn.body[k + 1:]
                a_ = list(st.body) + ([] if _returns(st.body) else rest)
                b_ = list(st.orelse) + ([] if _returns(st.orelse) else rest)
                body_is_spatial = (word == 'spatial') == eq
                branch = (a_, b_) if body_is_spatial else (b_, a_)
        if branch is None:
            raise Untranslatable('no branch on unit')
        spatial, pixels = the_return(branch[0]), the_return(branch[1])
        _, binds = comp_parts(spatial)
        refs = [src for src in binds.values() if src != com]
        if len(refs) != 1 or refs[0] not in ielem or refs[0] == f'{data}.shape' or com not in binds.values():
            raise Untranslatable('spatial return does not zip the centre of mass with one per-axis reference list')
        ref = refs[0]
        relem = {com: 'com', ref: '((centroidRef n : Int) : Rat)'}
        s_term = elementwise(spatial, relem, mode='rat', scalars={'dx': 'dx'})
        if isinstance(pixels, ast.Name) and pixels.id == com:
            p_term = 'com'
        else:
            p_term = elementwise(pixels, relem, mode='rat', scalars={'dx': 'dx'})
        return ielem[ref], s_term, p_term

    def centroid():
        return f'def centroidRef (n : Int) : Int := {centroid_parts()[0]}'
    g.item('centroid.center', 'prysm/psf.py:centroid', lambda: get_def(psf, 'centroid'), centroid,
           f'def centroidRef (n : Int) : Int := {M}.centroidRef n')

    def centroid_return():
        _, s_term, p_term = centroid_parts()
        return (f'def centroidSpatialElem (dx com : Rat) (n : Int) : Rat := {s_term}\n'
                f'def centroidPixelsElem (com : Rat) (n : Int) : Rat := {p_term}')
    g.item('centroid.return', 'prysm/psf.py:centroid', lambda: get_def(psf, 'centroid'), centroid_return,
           f'def centroidSpatialElem (dx com : Rat) (n : Int) : Rat := {M}.centroidSpatial dx com n\n'
           'def centroidPixelsElem (com : Rat) (n : Int) : Rat := com')

    # ---- make_xy_grid: symbolic reading of the whole body
    def xy_grid():
        fn = inl(co, 'make_xy_grid')
        pos, kwonly = params_of(fn)
        if 'shape' not in pos + kwonly:
            raise Untranslatable('no shape parameter')
        out = []
        # (a) scalar shape broadcast
        sc = None
        for st in fn.body:
            if isinstance(st, ast.If) and 'isinstance(shape' in ast.unparse(st.test).replace(' ', ''):
                (asg,) = [s for s in st.body if isinstance(s, ast.Assign) and ast.unparse(s.targets[0]) == 'shape']
                if not (isinstance(asg.value, (ast.Tuple, ast.List)) and len(asg.value.elts) == 2):
                    raise Untranslatable('scalar shape broadcast')
                tr = Tr({'shape': 's'})
                sc = [tr.expr(e) for e in asg.value.elts]
        if sc is None:
            raise Untranslatable('no scalar-shape branch')
        out.append(f'def xyScalarShape0 (s : Int) : Int := {sc[0]}\ndef xyScalarShape1 (s : Int) : Int := {sc[1]}')
        # (b) diameter -> dx
        dterm = None
        for st in fn.body:
            if isinstance(st, ast.If) and ast.unparse(st.test).replace(' ', '') in ('diameter!=0', 'diameter', 'diameter>0'):
                (asg,) = [s for s in st.body if isinstance(s, ast.Assign) and ast.unparse(s.targets[0]) == 'dx']
                dterm = Tr({'diameter': 'd', 'max(shape)': '((max m n : Int) : Rat)', 'shape[0]': '((m : Int) : Rat)',
                            'shape[1]': '((n : Int) : Rat)'}, mode='rat').expr(asg.value)
        if dterm is None:
            raise Untranslatable('no diameter branch')
        out.append(f'def xyDxOfDiameter (d : Rat) (m n : Int) : Rat := {dterm}')
        # (c) the vectors: `<t0>, <t1> = (<elt> for s in shape)`; k-th target is built from shape[k]
        state = {}
        elem_term = None
        for st in fn.body:
            if isinstance(st, ast.Assign) and isinstance(st.targets[0], ast.Tuple) and len(st.targets[0].elts) == 2 \
                    and all(isinstance(t, ast.Name) for t in st.targets[0].elts):
                try:
                    elt, binds = comp_parts(st.value)
                except Untranslatable:
                    continue
                if list(binds.values()) != ['shape']:
                    raise Untranslatable('vectors are not built per element of shape')
                s = list(binds)[0]
                tr = Tr({s: 's', 'dx': 'dx'}, mode='rat',
                        funcs={'fftrange': lambda args: f'(((fftrangeLo {args[0]} + i : Int)) : Rat)'})
                elem_term = tr.expr(elt)
                for k, t in enumerate(st.targets[0].elts):
                    state[t.id] = ('vec', k)
                break
        if elem_term is None:
            raise Untranslatable('no `y, x = (... for s in shape)`')
        out.append(f'def xyGridElem (s i : Int) (dx : Rat) : Rat := {elem_term}')
        # (d) grid=True: meshgrid; grid=False: vectors as they are
        on, off = branch_on(fn, ('grid',))

        def run(stmts, st0):
            st_ = dict(st0)
            for s_ in stmts:
                if isinstance(s_, ast.Return):
                    if not (isinstance(s_.value, ast.Tuple) and len(s_.value.elts) == 2):
                        raise Untranslatable('return is not a pair')
                    return [st_[ast.unparse(e)] for e in s_.value.elts]
                if isinstance(s_, ast.Assign) and isinstance(s_.value, ast.Call) and last_attr(s_.value.func) == 'meshgrid':
                    c = s_.value
                    kw = {k.arg: ast.unparse(k.value) for k in c.keywords}
                    if set(kw) - {'indexing'} or len(c.args) != 2 or not isinstance(s_.targets[0], ast.Tuple):
                        raise Untranslatable('meshgrid form')
                    ij = kw.get('indexing', "'xy'") == "'ij'"
                    a0, a1 = (st_[ast.unparse(a)] for a in c.args)
                    if a0[0] != 'vec' or a1[0] != 'vec':
                        raise Untranslatable('meshgrid of meshes')
                    # numpy: indexing='xy': out0[i,j] = a0[j], out1[i,j] = a1[i];  'ij': out0[i,j] = a0[i], out1[i,j] = a1[j]
                    t0, t1 = (t.id for t in s_.targets[0].elts)
                    new = {t0: ('mesh', 'i' if ij else 'j', a0[1]), t1: ('mesh', 'j' if ij else 'i', a1[1])}
                    st_.update(new)
                    continue
                raise Untranslatable(f'statement {ast.unparse(s_)[:40]}')
            raise Untranslatable('no return')
        length = {0: 'm', 1: 'n'}
        r_on, r_off = run(on, state), run(off, state)
        for nm, r in zip(('gridX', 'gridY'), r_on):
            if r[0] != 'mesh':
                raise Untranslatable('grid=True does not return meshes')
            out.append(f'def {nm} (m n : Int) (dx : Rat) (i j : Int) : Rat := xyGridElem {length[r[2]]} {r[1]} dx')
        for nm, r in zip(('vecX', 'vecY'), r_off):
            if r[0] != 'vec':
                raise Untranslatable('grid=False does not return vectors')
            out.append(f'def {nm} (m n : Int) (dx : Rat) (k : Int) : Rat := xyGridElem {length[r[1]]} k dx')
        return '\n'.join(out)
    g.item('make_xy_grid', 'prysm/coordinates.py:make_xy_grid', lambda: get_def(co, 'make_xy_grid'), xy_grid,
           'def xyScalarShape0 (s : Int) : Int := s\ndef xyScalarShape1 (s : Int) : Int := s\n'
           f'def xyDxOfDiameter (d : Rat) (m n : Int) : Rat := {M}.dxOfDiameter d m n\n'
           f'def xyGridElem (s i : Int) (dx : Rat) : Rat := {M}.gridElem s i dx\n'
           f'def gridX (m n : Int) (dx : Rat) (i j : Int) : Rat := {M}.gridX m n dx i j\n'
           f'def gridY (m n : Int) (dx : Rat) (i j : Int) : Rat := {M}.gridY m n dx i j\n'
           f'def vecX (m n : Int) (dx : Rat) (k : Int) : Rat := {M}.vecX m n dx k\n'
           f'def vecY (m n : Int) (dx : Rat) (k : Int) : Rat := {M}.vecY m n dx k')

    # ---- NumPy's own fftfreq / fftshift / ifftshift (numpy/fft/_helper.py of the interpreter that runs prysm)
    def numpy_helpers():
        spec = importlib.util.find_spec('numpy.fft._helper') or importlib.util.find_spec('numpy.fft.helper')
        if spec is None or not spec.origin or not os.path.exists(spec.origin):
            raise Untranslatable('numpy.fft._helper source not found')
        mod = ast.parse(open(spec.origin).read())
        ff = get_def(mod, 'fftfreq')
        env = {'n': 'n'}
        # N = (n-1)//2 + 1 ; p1 = arange(0, N) ; results[:N] = p1 ; p2 = arange(-(n//2), 0) ; results[N:] = p2
        writes = {}
        for st in ff.body:
            if isinstance(st, ast.Assign) and isinstance(st.targets[0], ast.Name):
                v = st.value
                if isinstance(v, ast.Call) and last_attr(v.func) == 'arange' and len(v.args) == 2:
                    env[st.targets[0].id] = ('arange', Tr({k: t for k, t in env.items() if isinstance(t, str)}).expr(v.args[0]))
                else:
                    try:
                        env[st.targets[0].id] = Tr({k: t for k, t in env.items() if isinstance(t, str)}).expr(v)
                    except Untranslatable:
                        pass
            elif isinstance(st, ast.Assign) and isinstance(st.targets[0], ast.Subscript) \
                    and ast.unparse(st.targets[0].value) == 'results' and isinstance(st.targets[0].slice, ast.Slice):
                sl = st.targets[0].slice
                src = env.get(ast.unparse(st.value))
                if not (isinstance(src, tuple) and src[0] == 'arange'):
                    raise Untranslatable('results[...] = <not an arange>')
                ints = {k: t for k, t in env.items() if isinstance(t, str)}
                if sl.lower is None and sl.upper is not None:
                    writes['head'] = (Tr(ints).expr(sl.upper), src[1])
                elif sl.upper is None and sl.lower is not None:
                    writes['tail'] = (Tr(ints).expr(sl.lower), src[1])
                else:
                    raise Untranslatable('results slice form')
        if set(writes) != {'head', 'tail'} or writes['head'][0] != writes['tail'][0]:
            raise Untranslatable('fftfreq: head/tail split not recognised')
        (ret,) = find_returns(ff)
        if not (isinstance(ret, ast.BinOp) and isinstance(ret.op, ast.Mult) and 'results' in (ast.unparse(ret.left), ast.unparse(ret.right))):
            raise Untranslatable('fftfreq return')
        out = [f'def npFftfreqSplit (n : Int) : Int := {writes["head"][0]}',
               f'def npFftfreqP1Lo (n : Int) : Int := {writes["head"][1]}',
               f'def npFftfreqP2Lo (n : Int) : Int := {writes["tail"][1]}']
        for nm, lean in (('fftshift', 'npFftshiftBy'), ('ifftshift', 'npIfftshiftBy')):
            fn = get_def(mod, nm)
            (ret,) = find_returns(fn)
            if not (isinstance(ret, ast.Call) and last_attr(ret.func) == 'roll' and ast.unparse(ret.args[1]) == 'shift'):
                raise Untranslatable(f'{nm} does not return roll(x, shift, axes)')
            term = elementwise(find_assign(fn, 'shift', which=0), {'x.shape': 'dim'})
            out.append(f'def {lean} (dim : Int) : Int := {term}')
        return '\n'.join(out)
    g.item('numpy.fft.helpers', 'numpy/fft/_helper.py:fftfreq,fftshift,ifftshift', None, numpy_helpers,
           f'def npFftfreqSplit (n : Int) : Int := {M}.npFftfreqSplit n\ndef npFftfreqP1Lo (n : Int) : Int := {M}.npFftfreqP1Lo\n'
           f'def npFftfreqP2Lo (n : Int) : Int := {M}.npFftfreqP2Lo n\ndef npFftshiftBy (dim : Int) : Int := {M}.npFftshiftBy dim\n'
           f'def npIfftshiftBy (dim : Int) : Int := {M}.npIfftshiftBy dim')

    # ---- forward_ft_unit: unit = fftfreq(samples, dx); shift -> fftshift(unit) else unit
    def ft_unit():
        fn = inl(ft, 'forward_ft_unit')
        wrapper = get_def(ft, 'fftfreq')
        units = [(t.id, st.value) for st in ast.walk(fn) if isinstance(st, ast.Assign) and isinstance(st.value, ast.Call)
                 and last_attr(st.value.func) == 'fftfreq' for t in st.targets if isinstance(t, ast.Name)]
        if len(units) != 1:
            raise Untranslatable('no single local holding fftfreq(...)')
        uname, unit = units[0]
        b = bind_call(unit, wrapper)
        if ast.unparse(b.get('n')) != 'samples' or ast.unparse(b.get('d')) != 'dx':
            raise Untranslatable(f'fftfreq called with n={ast.unparse(b.get("n"))}, d={ast.unparse(b.get("d"))}')
        # the wrapper itself hands (n, d) to the backend's fftfreq in that order
        inner = [c for c in ast.walk(wrapper) if isinstance(c, ast.Call) and last_attr(c.func) == 'fftfreq']
        if not inner or any([ast.unparse(a) for a in c.args] != ['n', 'd'] or c.keywords for c in inner):
            raise Untranslatable('fttools.fftfreq does not forward (n, d)')
        freq = f'({M}.fftfreqOf (npFftfreqSplit n) (npFftfreqP1Lo n) (npFftfreqP2Lo n)'

        def vec(e):
            e = expand_locals(e, fn, stop=(uname,))
            if isinstance(e, ast.Name) and e.id == uname:
                return f'{freq} i)'
            if isinstance(e, ast.Call) and len(e.args) == 1 and not e.keywords and ast.unparse(e.args[0]) == uname:
                by = {'fftshift': 'npFftshiftBy', 'ifftshift': 'npIfftshiftBy'}.get(last_attr(e.func))
                if by:
                    return f'{freq} ({M}.rollSrc n ({by} n) i))'
            raise Untranslatable(f'returned vector {ast.unparse(e)}')
        on, off = branch_on(fn, ('shift',))
        return ('def ftUnitNum (shift : Bool) (n i : Int) : Int :=\n'
                f'  if shift then {vec(the_return(on))} else {vec(the_return(off))}')
    g.item('forward_ft_unit', 'prysm/fttools.py:forward_ft_unit', lambda: get_def(ft, 'forward_ft_unit'), ft_unit,
           f'def ftUnitNum (shift : Bool) (n i : Int) : Int := {M}.ftUnitNumS shift n i')

    # ---- propagation.focus / unfocus: roll amounts applied before and after the FFT (in terms of NumPy's translated constants)
    def fft_route():
        out = []
        by = {'fftshift': 'npFftshiftBy', 'ifftshift': 'npIfftshiftBy'}
        for fname, want in (('focus', 'fft2'), ('unfocus', 'ifft2')):
            fn = inl(pr, fname)
            chains = []
            for c in ast.walk(fn):
                if isinstance(c, ast.Call) and last_attr(c.func) in by and len(c.args) == 1 and isinstance(c.args[0], ast.Call) \
                        and last_attr(c.args[0].func) in ('fft2', 'ifft2', 'fftn', 'ifftn'):
                    mid = copy.copy(c.args[0])
                    if mid.args and isinstance(mid.args[0], ast.Name):
                        mid.args = [expand_locals(mid.args[0], fn)] + list(mid.args[1:])
                    if mid.args and isinstance(mid.args[0], ast.Call) and last_attr(mid.args[0].func) in by \
                            and len(mid.args[0].args) == 1:
                        chains.append((last_attr(mid.args[0].func), last_attr(mid.func), last_attr(c.func)))
            if len(chains) != 1 or chains[0][1].replace('n', '2') != want:
                raise Untranslatable(f'{fname}: shift(fft(shift(x))) chain not found')
            pre, _, post = chains[0]
            out.append(f'def {fname}Pre (dim : Int) : Int := {by[pre]} dim\ndef {fname}Post (dim : Int) : Int := {by[post]} dim')
        return '\n'.join(out)
    g.item('focus.shifts', 'prysm/propagation.py:focus,unfocus', lambda: get_def(pr, 'focus'), fft_route,
           '\n'.join(f'def {f}Pre (dim : Int) : Int := {M}.npIfftshiftBy dim\ndef {f}Post (dim : Int) : Int := {M}.npFftshiftBy dim'
                     for f in ('focus', 'unfocus')))

    # ---- RichData.x / .y getters: which return value of make_xy_grid((m, n), dx=dx) is cached and handed out
    def rich_xy():
        out = []
        mk = get_def(co, 'make_xy_grid')
        for prop, lean in (('x', 'richX'), ('y', 'richY')):
            getters = [n for n in get_def(rd, 'RichData').body if isinstance(n, ast.FunctionDef) and n.name == prop
                       and any(ast.unparse(d) == 'property' for d in n.decorator_list)]
            (fn,) = getters
            (call,) = [c for c in ast.walk(fn) if isinstance(c, ast.Call) and last_attr(c.func) == 'make_xy_grid']
            b = bind_call(call, mk)
            if ast.unparse(b['shape']) not in ('self.data.shape', 'self.shape') or ast.unparse(b.get('dx')) != 'self.dx' \
                    or set(b) - {'shape', 'dx'}:
                raise Untranslatable('make_xy_grid arguments in RichData getter')
            (asg,) = [s for s in ast.walk(fn) if isinstance(s, ast.Assign) and s.value is call]
            tg = [ast.unparse(t) for t in asg.targets[0].elts]
            (ret,) = find_returns(fn)
            k = tg.index(ast.unparse(ret))
            out.append(f'def {lean} (m n : Int) (dx : Rat) (i j : Int) : Rat := {("gridX", "gridY")[k]} m n dx i j')
        return '\n'.join(out)
    g.item('RichData.x,y', 'prysm/_richdata.py:RichData.x', lambda: get_def(rd, 'RichData.x'), rich_xy,
           'def richX (m n : Int) (dx : Rat) (i j : Int) : Rat := gridX m n dx i j\n'
           'def richY (m n : Int) (dx : Rat) (i j : Int) : Rat := gridY m n dx i j')

    # ---- RichData.slices: the vectors handed to Slices(x=, y=)
    def rich_slices():
        fn = inl(rd, 'RichData.slices')
        ctor = get_def(rd, 'Slices.__init__')
        state = {}
        for st in fn.body:
            if isinstance(st, ast.Assign) and isinstance(st.targets[0], ast.Tuple) and isinstance(st.value, ast.Tuple):
                for t, v in zip(st.targets[0].elts, st.value.elts):
                    state[ast.unparse(t)] = {'self.x': ('grid', 'X'), 'self.y': ('grid', 'Y')}.get(ast.unparse(v))
            elif isinstance(st, ast.Assign) and isinstance(st.targets[0], ast.Name):
                v = st.value
                if ast.unparse(v) in ('self.x', 'self.y'):
                    state[st.targets[0].id] = ('grid', ast.unparse(v)[-1].upper())
                elif isinstance(v, ast.Subscript) and state.get(ast.unparse(v.value), (None,))[0] == 'grid':
                    a, b_ = index_term(v, {}, free='k')
                    state[st.targets[0].id] = ('vec', f'{state[ast.unparse(v.value)][1]} {a} {b_}')
        (call,) = [c for c in ast.walk(fn) if isinstance(c, ast.Call) and last_attr(c.func) == 'Slices']
        b = bind_call(call, ctor, skip_self=True)
        if ast.unparse(b['data']) != 'self.data':
            raise Untranslatable('Slices(data=...) is not self.data')
        out = []
        for p, lean in (('x', 'slicesXVec'), ('y', 'slicesYVec')):
            s = state.get(ast.unparse(b[p]))
            if not s or s[0] != 'vec':
                raise Untranslatable(f'Slices({p}=...) is not a vector cut out of a grid')
            out.append(f'def {lean} (X Y : Int → Int → Rat) (k : Int) : Rat := {s[1]}')
        return '\n'.join(out)
    g.item('RichData.slices', 'prysm/_richdata.py:RichData.slices', lambda: get_def(rd, 'RichData.slices'), rich_slices,
           f'def slicesXVec (X Y : Int → Int → Rat) (k : Int) : Rat := {M}.slicesXVec X k\n'
           f'def slicesYVec (X Y : Int → Int → Rat) (k : Int) : Rat := {M}.slicesYVec Y k')

    # ---- Slices.__init__: centre indices
    def slices_centre():
        fn = inl(rd, 'Slices.__init__')
        alias = {'x': 'x', 'y': 'y'}
        for st in fn.body:
            if isinstance(st, ast.Assign) and ast.unparse(st.targets[0]) in ('self._x', 'self._y') \
                    and ast.unparse(st.value) in ('x', 'y'):
                alias[ast.unparse(st.targets[0])] = ast.unparse(st.value)
                if ast.unparse(st.targets[0])[-1] != ast.unparse(st.value):
                    raise Untranslatable('self._x / self._y crossed')     # handled by the harness
        vals = {}
        shape_env = {'data.shape[0]': 'm', 'data.shape[1]': 'n', 'self._source.shape[0]': 'm', 'self._source.shape[1]': 'n'}

        def one(v):
            v = expand_locals(v, fn)
            name = argmin_abs_of(v, set(alias))
            if name is not None:
                w = alias[name]
                return f'am {w}v {"n" if w == "x" else "m"}'
            return Tr(shape_env).expr(v)
        for st in fn.body:
            if not isinstance(st, ast.Assign):
                continue
            tg = st.targets[0]
            names = [ast.unparse(t) for t in tg.elts] if isinstance(tg, ast.Tuple) else [ast.unparse(tg)]
            if not set(names) & {'self.center_x', 'self.center_y'}:
                continue
            if isinstance(tg, ast.Tuple):
                val = st.value if isinstance(st.value, ast.Tuple) else expand_locals(st.value, fn)
                if isinstance(val, ast.Tuple):
                    terms = [one(v) for v in val.elts]
                else:
                    elt, binds = comp_parts(val)
                    (var, src), = binds.items()
                    if src not in ('data.shape', 'self._source.shape'):
                        raise Untranslatable('centre comprehension source')
                    terms = [Tr({var: ln}).expr(elt) for ln in ('m', 'n')]
                for nm, t in zip(names, terms):
                    vals[nm] = t
            else:
                vals[names[0]] = one(st.value)
        if set(vals) != {'self.center_x', 'self.center_y'}:
            raise Untranslatable('centre assignment not found')
        sig = '(am : (Int → Rat) → Int → Int) (m n : Int) (xv yv : Int → Rat) : Int'
        return (f'def slicesCentreY {sig} := {vals["self.center_y"]}\n'
                f'def slicesCentreX {sig} := {vals["self.center_x"]}')
    g.item('Slices.centre', 'prysm/_richdata.py:Slices.__init__', lambda: get_def(rd, 'Slices.__init__'), slices_centre,
           f'def slicesCentreY (am : (Int → Rat) → Int → Int) (m n : Int) (xv yv : Int → Rat) : Int := {M}.slicesCentreY am m n xv yv\n'
           f'def slicesCentreX (am : (Int → Rat) → Int → Int) (m n : Int) (xv yv : Int → Rat) : Int := {M}.slicesCentreX am m n xv yv')

    # ---- Slices.x / Slices.y: what is cut out of the data and of the coordinate vectors
    def slices_cut():
        out = []
        fixed = {'self.center_y': 'cy', 'self.center_x': 'cx'}
        for prop, L in (('x', 'X'), ('y', 'Y')):
            (fn,) = [n for n in get_def(rd, 'Slices').body if isinstance(n, ast.FunctionDef) and n.name == prop]
            two, one = branch_on(fn, ('self.twosided',))
            for stmts, tag in ((two, 'Two'), (one, 'One')):
                r = the_return(stmts)
                if not (isinstance(r, ast.Tuple) and len(r.elts) == 2):
                    raise Untranslatable('Slices property does not return (coords, values)')
                c, d = r.elts
                if isinstance(c, ast.Attribute) and ast.unparse(c) in ('self._x', 'self._y'):
                    cterm = f'{ast.unparse(c)[-1]}v k'
                elif isinstance(c, ast.Subscript) and ast.unparse(c.value) in ('self._x', 'self._y'):
                    (ix,) = index_term(c, fixed, ndim=1)
                    cterm = f'{ast.unparse(c.value)[-1]}v {ix}'
                else:
                    raise Untranslatable(f'coordinate part {ast.unparse(c)}')
                if not (isinstance(d, ast.Subscript) and ast.unparse(d.value) == 'self._source'):
                    raise Untranslatable(f'data part {ast.unparse(d)}')
                a, b_ = index_term(d, fixed)
                out.append(f'def slice{L}{tag} {{α : Type}} (src : Int → Int → α) (cy cx : Int) (k : Int) : α := src {a} {b_}')
                out.append(f'def slice{L}{tag}Coord (xv yv : Int → Rat) (cy cx : Int) (k : Int) : Rat := {cterm}')
        return '\n'.join(out)
    g.item('Slices.x,y', 'prysm/_richdata.py:Slices.x', lambda: get_def(rd, 'Slices'), slices_cut,
           '\n'.join(f'def slice{L}{tag} {{α : Type}} (src : Int → Int → α) (cy cx : Int) (k : Int) : α := {M}.slice{L}{tag} src cy cx k\n'
                     f'def slice{L}{tag}Coord (xv yv : Int → Rat) (cy cx : Int) (k : Int) : Rat := '
                     + ({'XTwo': 'xv k', 'YTwo': 'yv k', 'XOne': f'{M}.sliceXOneCoord xv cx k', 'YOne': f'{M}.sliceYOneCoord yv cy k'}[L + tag])
                     for L in 'XY' for tag in ('Two', 'One')))

    # ---- Wavefront.pad2d / crop delegate to the fttools functions with every parameter bound to its namesake
    def delegates(method, callee, want):
        def check():
            fn = get_def(pr, f'Wavefront.{method}')
            calls = find_calls(fn, callee)
            if len(calls) != 1:
                return None
            got = {k: ast.unparse(v) for k, v in bind_call(calls[0], get_def(ft, callee)).items()}
            if set(got) - set(want):
                return None
            names = set(want.values())
            for k in want:
                if k not in got:
                    return False          # the caller's argument is dropped (the callee's default is used instead)
                if got[k] != want[k]:
                    return False if got[k] in names else None   # bound to a different argument: wrong; other expression: unknown
            # the result must become self.data (inplace) and the data of the returned Wavefront
            res = [ast.unparse(s.targets[0]) for s in ast.walk(fn) if isinstance(s, ast.Assign) and s.value is calls[0]]
            stores = [s for s in ast.walk(fn) if isinstance(s, ast.Assign) and ast.unparse(s.targets[0]) == 'self.data']
            if len(res) != 1 or not stores:
                return None
            return all(ast.unparse(s.value) == res[0] for s in stores)
        return check
    g.fact('wavefrontPadDelegates', 'prysm/propagation.py:Wavefront.pad2d',
           delegates('pad2d', 'pad2d', {'array': 'self.data', 'Q': 'Q', 'value': 'value', 'mode': 'mode', 'out_shape': 'out_shape'}))
    g.fact('wavefrontCropDelegates', 'prysm/propagation.py:Wavefront.crop',
           delegates('crop', 'crop_center', {'img': 'self.data', 'out_shape': 'out_shape'}))

    # ================================================================================================
    # session 3 items.  Shared reading helpers first.
    # ================================================================================================
    def flat(stmts):
        """statements in source order, descending into if / else bodies (straight-line reading of guarded code)"""
        for st in stmts:
            if isinstance(st, ast.If):
                yield from flat(st.body)
                yield from flat(st.orelse)
            else:
                yield st

    def resolve(e, fn, stop=()):
        """expression e with single-assignment locals of fn replaced by their values; `a, b = V` (V a name / attribute /
        subscript) makes a -> V[0], b -> V[1]"""
        params = set(sum(params_of(fn), []))
        for _ in range(8):
            e2 = expand_locals(e, fn, stop=stop)
            m = {}
            for st in ast.walk(fn):
                if isinstance(st, ast.Assign) and len(st.targets) == 1 and isinstance(st.targets[0], ast.Tuple) \
                        and isinstance(st.value, (ast.Name, ast.Attribute, ast.Subscript)):
                    for k, t in enumerate(st.targets[0].elts):
                        if isinstance(t, ast.Name) and t.id in _free_names(e2) and t.id not in params and t.id not in stop:
                            m[t.id] = ast.Subscript(value=copy.deepcopy(st.value), slice=ast.Constant(value=k), ctx=ast.Load())
            if m:
                e2 = subst(e2, m)
            if ast.dump(e2) == ast.dump(e):
                return e2
            e = e2
        return e

    def shape_env(bases, rat=True):
        env = {}
        for base in bases:
            for idx, nm in (('0', 'm'), ('1', 'n'), ('-2', 'm'), ('-1', 'n')):
                env[f'{base}[{idx}]'] = f'(({nm} : Int) : Rat)' if rat else nm
        return env

    # ---- psf.autocrop: the window cut around the (integer part of the) centroid, per axis
    def autocrop():
        fn = inl(psf, 'autocrop')
        pos, _ = params_of(fn)
        data, px = pos[0], pos[1]
        cen = get_def(psf, 'centroid')
        coms = []
        for st in ast.walk(fn):
            if isinstance(st, ast.Assign) and isinstance(st.value, ast.Call):
                if last_attr(st.value.func) == 'centroid':
                    b = bind_call(st.value, cen)
                    if ast.unparse(b.get('data')) != data or not isinstance(b.get('unit'), ast.Constant) or b['unit'].value == 'spatial':
                        raise Untranslatable('autocrop does not ask centroid(data) for pixel units')
                elif last_attr(st.value.func) == 'center_of_mass':
                    if [ast.unparse(a) for a in st.value.args] != [data] or st.value.keywords:
                        raise Untranslatable('center_of_mass of something else')
                else:
                    continue
                coms += [t.id for t in st.targets if isinstance(t, ast.Name)]
        if len(coms) != 1:
            raise Untranslatable('no single local holding the pixel centroid of data')
        com = coms[0]

        def is_int_of(e, inner):
            return isinstance(e, ast.Call) and last_attr(e.func) in ('int', 'floor') and len(e.args) == 1 and ast.unparse(e.args[0]) == inner
        env = {px: 'px'}
        for st in fn.body:
            if isinstance(st, ast.Assign) and isinstance(st.targets[0], ast.Tuple) and len(st.targets[0].elts) == 2:
                names = [ast.unparse(t) for t in st.targets[0].elts]
                if isinstance(st.value, ast.Tuple) and len(st.value.elts) == 2 \
                        and all(is_int_of(e, f'{com}[{k}]') for k, e in enumerate(st.value.elts)):
                    env.update({names[0]: 'c0', names[1]: 'c1'})
                    continue
                try:
                    elt, binds = comp_parts(st.value)
                except Untranslatable:
                    continue
                if list(binds.values()) == [com] and is_int_of(elt, list(binds)[0]):
                    env.update({names[0]: 'c0', names[1]: 'c1'})
            elif isinstance(st, ast.Assign) and isinstance(st.targets[0], ast.Name):
                for k in (0, 1):
                    if is_int_of(st.value, f'{com}[{k}]'):
                        env[st.targets[0].id] = f'c{k}'
        if sorted(v for v in env.values() if v != 'px') != ['c0', 'c1']:
            raise Untranslatable('the integer centroid pair is not found')
        (ret,) = find_returns(fn)
        if not (isinstance(ret, ast.Subscript) and ast.unparse(ret.value) == data):
            raise Untranslatable('autocrop does not return a cut of data')
        stop = [k for k in env]
        idx = resolve(ret.slice, fn, stop=stop)
        if not (isinstance(idx, ast.Tuple) and len(idx.elts) == 2):
            raise Untranslatable('autocrop does not return data[<rows>, <cols>]')
        tr = Tr(env)
        out = []
        for k, s_ in enumerate(idx.elts):
            if isinstance(s_, ast.Call) and last_attr(s_.func) == 'slice' and len(s_.args) == 2 and not s_.keywords:
                lo, hi = s_.args
            elif isinstance(s_, ast.Slice) and s_.lower is not None and s_.upper is not None and s_.step is None:
                lo, hi = s_.lower, s_.upper
            else:
                raise Untranslatable('window axis is not lo:hi')
            out.append(f'def autocropLo{k} (c0 c1 px : Int) : Int := {tr.expr(resolve(lo, fn, stop=stop))}')
            out.append(f'def autocropHi{k} (c0 c1 px : Int) : Int := {tr.expr(resolve(hi, fn, stop=stop))}')
        return '\n'.join(out)
    g.item('autocrop.window', 'prysm/psf.py:autocrop', lambda: get_def(psf, 'autocrop'), autocrop,
           '\n'.join(f'def autocropLo{k} (c0 c1 px : Int) : Int := {M}.autocropLo c{k} px\n'
                     f'def autocropHi{k} (c0 c1 px : Int) : Int := {M}.autocropHi c{k} px' for k in (0, 1)))

    # ---- psf.estimate_size: the coordinates built when only dx is given and which of them reaches uniform_cart_to_polar as x / y
    def est_size():
        fn = inl(psf, 'estimate_size')
        ucp = get_def(co, 'uniform_cart_to_polar')

        def vec_term(elt, length, svar=None):
            """sample k of a coordinate vector expression built from the axis length `length` ('m' | 'n')"""
            sr = f'(({length} : Int) : Rat)'

            lens = {'((m : Int) : Rat)': 'm', '((n : Int) : Rat)': 'n'}

            def _fftrange(args):
                if args[0] not in lens:
                    raise Untranslatable('fftrange of something other than an axis length')
                return f'(((fftrangeLo {lens[args[0]]} + k : Int)) : Rat)'

            def _arange(args):
                if len(args) == 1 and args[0] in lens:
                    return '((k : Int) : Rat)'
                if len(args) == 2:                     # arange(lo, hi): sample k is lo + k (the length is checked by the sweep)
                    return f'({args[0]} + ((k : Int) : Rat))'
                raise Untranslatable('arange form')
            env = {'dx': 'dx'}
            if svar:
                env[svar] = sr
            env.update({k_: v for k_, v in shape_env(['data.shape']).items()})
            return Tr(env, mode='rat', funcs={'fftrange': _fftrange, 'np.arange': _arange, 'arange': _arange}).expr(elt)
        state = {}
        for st in flat(fn.body):
            if not isinstance(st, ast.Assign) or len(st.targets) != 1:
                continue
            tg = st.targets[0]
            if isinstance(tg, ast.Tuple) and len(tg.elts) == 2 and all(isinstance(t, ast.Name) for t in tg.elts):
                try:
                    elt, binds = comp_parts(st.value)
                except Untranslatable:
                    if isinstance(st.value, ast.Tuple) and len(st.value.elts) == 2:
                        for t, v in zip(tg.elts, st.value.elts):     # `y, x = <vec of shape[0]>, <vec of shape[1]>`
                            try:
                                uses = {k_ for k_ in ('m', 'n') if f'({k_} : Int)' in vec_term(v, 'm')}
                                state[t.id] = (vec_term(v, 'm'), uses)
                            except Untranslatable:
                                pass
                    continue
                src = list(binds.values())
                if src == ['data.shape']:
                    order = ('m', 'n')
                elif src in (['data.shape[::-1]'], ['reversed(data.shape)']):
                    order = ('n', 'm')
                else:
                    continue
                for t, ln in zip(tg.elts, order):
                    state[t.id] = (vec_term(elt, ln, list(binds)[0]), {ln})
            elif isinstance(tg, ast.Name) and tg.id in ('x', 'y') or isinstance(tg, ast.Name) and tg.id not in state:
                try:
                    term = vec_term(st.value, 'm')
                except Untranslatable:
                    continue
                if '(k : Int)' in term or 'fftrangeLo' in term:
                    state[tg.id] = (term, {k_ for k_ in ('m', 'n') if f'({k_} : Int)' in term or f'fftrangeLo {k_}' in term})
        calls = find_calls(fn, 'uniform_cart_to_polar')
        if len(calls) != 1:
            raise Untranslatable('no single call of uniform_cart_to_polar')
        b = bind_call(calls[0], ucp)
        if ast.unparse(b.get('data')) != 'data' or ast.unparse(b.get('x')) not in state or ast.unparse(b.get('y')) not in state:
            raise Untranslatable('uniform_cart_to_polar arguments')
        return (f'def estSizeX (m n : Int) (dx : Rat) (k : Int) : Rat := {state[ast.unparse(b["x"])][0]}\n'
                f'def estSizeY (m n : Int) (dx : Rat) (k : Int) : Rat := {state[ast.unparse(b["y"])][0]}')
    g.item('estimate_size.grid', 'prysm/psf.py:estimate_size', lambda: get_def(psf, 'estimate_size'), est_size,
           f'def estSizeX (m n : Int) (dx : Rat) (k : Int) : Rat := {M}.vecX m n dx k\n'
           f'def estSizeY (m n : Int) (dx : Rat) (k : Int) : Rat := {M}.vecY m n dx k')

    # ---- RichData.support_x / support_y: which axis length is scaled by dx
    def rich_support():
        out = []
        for prop, lean in (('support_x', 'supportX'), ('support_y', 'supportY')):
            fn = inl(rd, f'RichData.{prop}')
            ret = the_return([s_ for s_ in fn.body if isinstance(s_, ast.Return)])
            ret = resolve(ret, fn)
            if isinstance(ret, ast.Call) and last_attr(ret.func) == 'float' and len(ret.args) == 1:
                ret = ret.args[0]
            env = {'self.dx': 'dx'}
            env.update(shape_env(['self.shape', 'self.data.shape']))
            out.append(f'def {lean} (m n : Int) (dx : Rat) : Rat := {Tr(env, mode="rat").expr(ret)}')
        return '\n'.join(out)
    g.item('RichData.support', 'prysm/_richdata.py:RichData.support_x', lambda: get_def(rd, 'RichData.support_x'), rich_support,
           f'def supportX (m n : Int) (dx : Rat) : Rat := {M}.supportX m n dx\n'
           f'def supportY (m n : Int) (dx : Rat) : Rat := {M}.supportY m n dx')

    # ---- fttools.fourier_resample: the shift pair around the forward FFT and which axis length is zoomed by which factor
    def resample():
        fn = inl(ft, 'fourier_resample')
        by = {'fftshift': 'npFftshiftBy', 'ifftshift': 'npIfftshiftBy'}
        live = []                                    # only the statements up to the first top-level return are live
        for st in fn.body:
            live.append(st)
            if isinstance(st, ast.Return):
                break
        wrapped = ast.FunctionDef(name='_', args=fn.args, body=live, decorator_list=[], lineno=0)
        calls = [c for st in live for c in ast.walk(st) if isinstance(c, ast.Call) and last_attr(c.func) == 'idft2']
        if len(calls) != 1:
            raise Untranslatable('no single idft2 call')
        b = bind_call(calls[0], get_def(ft, 'MatrixDFTExecutor.idft2'), skip_self=True)
        spec = resolve(b['ary'], wrapped, stop=['f', 'zoom'])
        if not (isinstance(spec, ast.Call) and last_attr(spec.func) in by and len(spec.args) == 1 and isinstance(spec.args[0], ast.Call)
                and last_attr(spec.args[0].func) in ('fft2', 'fftn') and spec.args[0].args
                and isinstance(spec.args[0].args[0], ast.Call) and last_attr(spec.args[0].args[0].func) in by
                and [ast.unparse(a) for a in spec.args[0].args[0].args] == ['f']):
            raise Untranslatable('the spectrum handed to idft2 is not shift(fft2(shift(f)))')
        pre, post = last_attr(spec.args[0].args[0].func), last_attr(spec.func)
        if ast.unparse(b['Q']) != 'zoom':
            raise Untranslatable('idft2 is not given zoom as Q')
        outs = resolve(b['samples_out'], wrapped, stop=['f', 'zoom'])
        if not (isinstance(outs, (ast.Tuple, ast.List)) and len(outs.elts) == 2):
            raise Untranslatable('samples_out is not a pair')
        env = {'zoom[0]': 'z0', 'zoom[1]': 'z1'}
        env.update(shape_env(['f.shape']))
        tr = Tr(env, mode='rat')
        terms = [tr.expr(e) for e in outs.elts]
        return (f'def resamplePre (dim : Int) : Int := {by[pre]} dim\ndef resamplePost (dim : Int) : Int := {by[post]} dim\n'
                f'def resampleOut0 (m n : Int) (z0 z1 : Rat) : Rat := {terms[0]}\n'
                f'def resampleOut1 (m n : Int) (z0 z1 : Rat) : Rat := {terms[1]}')
    g.item('fourier_resample', 'prysm/fttools.py:fourier_resample', lambda: get_def(ft, 'fourier_resample'), resample,
           f'def resamplePre (dim : Int) : Int := {M}.npIfftshiftBy dim\ndef resamplePost (dim : Int) : Int := {M}.npFftshiftBy dim\n'
           f'def resampleOut0 (m n : Int) (z0 z1 : Rat) : Rat := {M}.resampleOut m z0\n'
           f'def resampleOut1 (m n : Int) (z0 z1 : Rat) : Rat := {M}.resampleOut n z1')

    # ---- derived RichData / Slices members: which coordinate reaches which argument (three-valued facts).
    #      `flow` follows tagged values through a guarded straight-line body: identity wrappers, tuple packing / unpacking
    #      (nested too), order-preserving pair helpers and constant subscripts keep the tag; anything else drops it.
    def order_preserving(mod, name):
        h = get_def(mod, name)
        pos, _ = params_of(h)
        rets = [r for r in ast.walk(h) if isinstance(r, ast.Return)]
        return bool(rets) and all(isinstance(r.value, ast.Tuple) and [ast.unparse(e) for e in r.value.elts] == pos[:2] for r in rets)

    def flow(fn, seeds, calls=None):
        """returns tag_of after running over fn's body.  calls: {callee last name: fn(call_node, tag_of) -> tag}"""
        tags = dict(seeds)
        calls = calls or {}
        keep = ('ascontiguousarray', 'squeeze', 'asarray', 'array', 'copy')
        pairs = {'optimize_xy_separable': co, 'fix_interp_pair': rd}

        def tag_of(e):
            t = ast.unparse(e)
            if t in tags:
                return tags[t]
            if isinstance(e, (ast.Tuple, ast.List)):
                return ('tuple', tuple(tag_of(x) for x in e.elts))
            if isinstance(e, ast.Subscript) and isinstance(e.slice, ast.Constant) and isinstance(e.slice.value, int):
                base = tag_of(e.value)
                return elem(base, e.slice.value, 2)
            if isinstance(e, ast.Call):
                nm = last_attr(e.func)
                if nm in calls:
                    return calls[nm](e, tag_of)
                if nm in keep and len(e.args) == 1 and not e.keywords:
                    return tag_of(e.args[0])
                if nm in keep and isinstance(e.func, ast.Attribute) and not e.args:
                    return tag_of(e.func.value)
                if nm in pairs and len(e.args) == 2 and not e.keywords:
                    if not order_preserving(pairs[nm], nm):
                        raise Untranslatable(f'{nm} does not return its parameters in order')
                    return ('tuple', (tag_of(e.args[0]), tag_of(e.args[1])))
            return None

        def elem(base, k, n_):
            if isinstance(base, tuple) and base and base[0] == 'tuple':
                return base[1][k] if -len(base[1]) <= k < len(base[1]) else None
            if isinstance(base, tuple) and base and base[0] in ('pair', 'multi'):
                return (base[1], k % n_ if k < 0 else k)
            return None

        def assign(tg, tag):
            if isinstance(tg, (ast.Tuple, ast.List)):
                for k, t in enumerate(tg.elts):
                    assign(t, elem(tag, k, len(tg.elts)))
            else:
                tags[ast.unparse(tg)] = tag
        for st in flat(fn.body):
            if isinstance(st, ast.Assign) and len(st.targets) == 1:
                assign(st.targets[0], tag_of(st.value))
        return tag_of

    def verdict(got, want):
        """True: every binding carries the wanted tag; False: the wanted tags are all there but on other parameters;
        None: something is not recognised"""
        if got == want:
            return True
        if set(got) == set(want) and None not in got.values() and sorted(map(repr, got.values())) == sorted(map(repr, want.values())):
            return False
        return None

    def bound_tags(call, callee, tag_of, skip_self=False):
        return {k: tag_of(v) for k, v in bind_call(call, callee, skip_self=skip_self).items()}

    def all3(res):
        return False if any(r is False for r in res) else (None if any(r is None for r in res) else True)

    def rich_polar():
        c2p = get_def(co, 'cart_to_polar')
        res = []
        for prop, slot in (('r', 0), ('t', 1)):
            (fn,) = [n for n in get_def(rd, 'RichData').body if isinstance(n, ast.FunctionDef) and n.name == prop
                     and any(ast.unparse(d) == 'property' for d in n.decorator_list)]
            seen = []

            def polar(call, tag_of):
                seen.append({k: v for k, v in bound_tags(call, c2p, tag_of).items() if k in ('x', 'y')})
                return ('multi', 'polar')
            tag_of = flow(fn, {'self.x': 'X', 'self.y': 'Y'}, {'cart_to_polar': polar})
            (ret,) = find_returns(fn)
            if len(seen) != 1:
                return None
            res.append(verdict(seen[0], {'x': 'X', 'y': 'Y'}))
            rt = tag_of(ret)
            res.append(None if not (isinstance(rt, tuple) and rt[0] == 'polar') else rt == ('polar', slot))
        return all3(res)
    g.fact('richPolarBinds', 'prysm/_richdata.py:RichData.r,t', rich_polar)

    def slices_polar():
        fn = get_def(rd, 'Slices.check_polar_calculated')
        seen = []

        def ucp_(call, tag_of):
            seen.append(bound_tags(call, get_def(co, 'uniform_cart_to_polar'), tag_of))
            return ('multi', 'upolar')
        flow(fn, {'self._x': 'X', 'self._y': 'Y', 'self._source': 'D'}, {'uniform_cart_to_polar': ucp_})
        return verdict(seen[0], {'x': 'X', 'y': 'Y', 'data': 'D'}) if len(seen) == 1 else None
    g.fact('slicesPolarBinds', 'prysm/_richdata.py:Slices.check_polar_calculated', slices_polar)

    def exact_1d():
        fn = get_def(rd, 'RichData._make_interp_function_xy1d')
        seeds = {'self.slices().x': ('pair', 'x'), 'self.slices().y': ('pair', 'y')}
        for st in flat(fn.body):
            if isinstance(st, ast.Assign) and isinstance(st.value, ast.Call) and ast.unparse(st.value.func) == 'self.slices' \
                    and isinstance(st.targets[0], ast.Name):
                seeds[f'{st.targets[0].id}.x'] = ('pair', 'x')
                seeds[f'{st.targets[0].id}.y'] = ('pair', 'y')

        def interp(call, tag_of):
            a = {k.arg: k.value for k in call.keywords}
            xs = call.args[0] if len(call.args) > 0 else a.get('x')
            ys = call.args[1] if len(call.args) > 1 else a.get('y')
            if xs is None or ys is None:
                return None
            return ('interp', tag_of(xs), tag_of(ys))
        tag_of = flow(fn, seeds, {'interp1d': interp})
        res = []
        for ax in 'xy':
            t = tag_of(ast.parse(f'self.interpf_{ax}', mode='eval').body)
            if not (isinstance(t, tuple) and t[0] == 'interp') or None in t[1:]:
                res.append(None)
            else:
                res.append(t[1:] == ((ax, 0), (ax, 1)))
            ex = get_def(rd, f'RichData.exact_{ax}')
            par = params_of(ex, skip_self=True)[0][0]
            tg2 = flow(ex, {'self.interpf_x': 'FX', 'self.interpf_y': 'FY', par: 'ARG'},
                       {'_make_interp_function_xy1d': lambda c_, t_: ('tuple', ('FX', 'FY'))})
            (ret,) = find_returns(ex)
            if not (isinstance(ret, ast.Call) and len(ret.args) == 1):
                res.append(None)
            else:
                f_, a_ = tg2(ret.func), tg2(ret.args[0])
                res.append(None if f_ not in ('FX', 'FY') or a_ != 'ARG' else f_ == 'F' + ax.upper())
        return all3(res)
    g.fact('exact1dBinds', 'prysm/_richdata.py:RichData.exact_x,exact_y', exact_1d)

    def exact_2d():
        fn = get_def(rd, 'RichData._make_interp_function_2d')

        def rgi(call, tag_of):
            a = {k.arg: k.value for k in call.keywords}
            pts = call.args[0] if len(call.args) > 0 else a.get('points')
            vals = call.args[1] if len(call.args) > 1 else a.get('values')
            if pts is None or vals is None:
                return None
            return ('rgi', tag_of(pts), tag_of(vals))
        tag_of = flow(fn, {'self.x': 'X', 'self.y': 'Y', 'self.data': 'D'}, {'RegularGridInterpolator': rgi})
        t = tag_of(ast.parse('self.interpf_2d', mode='eval').body)
        res = []
        if not (isinstance(t, tuple) and t[0] == 'rgi' and isinstance(t[1], tuple) and t[1][0] == 'tuple' and None not in t[1][1] and t[2] == 'D'):
            res.append(None)
        else:
            res.append(t[1][1] == ('Y', 'X'))
        ex = get_def(rd, 'RichData.exact_xy')
        tg2 = flow(ex, {'x': 'X', 'y': 'Y', 'self.interpf_2d': 'F2'}, {'_make_interp_function_2d': lambda c_, t_: 'F2'})
        (ret,) = find_returns(ex)
        if not (isinstance(ret, ast.Call) and ret.args and tg2(ret.func) == 'F2'):
            res.append(None)
        else:
            q = tg2(ret.args[0])
            res.append(None if not (isinstance(q, tuple) and q[0] == 'tuple' and None not in q[1]) else q[1] == ('Y', 'X'))
        return all3(res)
    g.fact('exact2dBinds', 'prysm/_richdata.py:RichData.exact_xy', exact_2d)

    # ---- propagation.focus / unfocus: the Q-pad in front of the FFT is fttools.pad2d(array=wavefunction, Q=Q)
    def focus_pad():
        res = []
        for fname in ('focus', 'unfocus'):
            fn = get_def(pr, fname)
            calls = find_calls(fn, 'pad2d')
            if len(calls) != 1:
                return None
            got = {k: ast.unparse(resolve(v, fn)) for k, v in bind_call(calls[0], get_def(ft, 'pad2d')).items()}
            if set(got) - {'array', 'Q'}:
                return None
            res.append(verdict(got, {'array': 'wavefunction', 'Q': 'Q'}) if set(got) == {'array', 'Q'} else None)
        return all3(res)
    g.fact('focusPadBinds', 'prysm/propagation.py:focus,unfocus', focus_pad)

    # ---- polar resampling index glue: uniform_cart_to_polar lays rho along one axis and phi along the other (meshgrid), the
    #      azimuthal statistics of Slices reduce over the phi axis and estimate_size searches along the rho axis
    def polar_axes():
        fn = get_def(co, 'uniform_cart_to_polar')
        lens = {}
        for nm in ('rho', 'phi'):
            v = find_assign(fn, nm, which=-1)
            if not (isinstance(v, ast.Call) and last_attr(v.func) == 'linspace' and len(v.args) == 3):
                raise Untranslatable(f'{nm} is not a linspace')
            lens[nm] = Tr({'len(x)': 'n', 'len(y)': 'm', 'x.size': 'n', 'y.size': 'm', 'x.shape[0]': 'n', 'y.shape[0]': 'm'}).expr(v.args[2])
            if nm == 'rho' and ast.unparse(v.args[0]) not in ('0', '0.0'):
                raise Untranslatable('rho does not start at 0')
        mg = [st for st in fn.body if isinstance(st, ast.Assign) and isinstance(st.value, ast.Call) and last_attr(st.value.func) == 'meshgrid']
        if len(mg) != 1 or len(mg[0].value.args) != 2 or not isinstance(mg[0].targets[0], ast.Tuple):
            raise Untranslatable('meshgrid form')
        kw = {k.arg: ast.unparse(k.value) for k in mg[0].value.keywords}
        if set(kw) - {'indexing'}:
            raise Untranslatable('meshgrid keywords')
        ij = kw.get('indexing', "'xy'") == "'ij'"
        a = [ast.unparse(e) for e in mg[0].value.args]
        if sorted(a) != ['phi', 'rho']:
            raise Untranslatable('meshgrid arguments')
        # numpy: 'xy': out[i, j] = a0[j] (both outputs have a0 along axis 1); 'ij': a0 along axis 0
        axis_of = {a[0]: 0 if ij else 1, a[1]: 1 if ij else 0}
        tg = [ast.unparse(t) for t in mg[0].targets[0].elts]
        (p2c,) = find_calls(fn, 'polar_to_cart')
        b = {k: ast.unparse(v) for k, v in bind_call(p2c, get_def(co, 'polar_to_cart')).items()}
        if b != {'rho': tg[a.index('rho')], 'phi': tg[a.index('phi')]}:
            raise Untranslatable('polar_to_cart is not given (mesh of rho, mesh of phi)')
        out = [f'def polarRhoAxis : Int := ({axis_of["rho"]} : Int)', f'def polarPhiAxis : Int := ({axis_of["phi"]} : Int)',
               f'def polarRhoLen (m n : Int) : Int := {lens["rho"]}', f'def polarPhiLen (m n : Int) : Int := {lens["phi"]}']
        # Slices.az*: the axis every statistic reduces over
        names = ('azavg', 'azmedian', 'azmin', 'azmax', 'azpv', 'azvar', 'azstd')
        own = {}
        for prop in names:
            (f_,) = [n_ for n_ in get_def(rd, 'Slices').body if isinstance(n_, ast.FunctionDef) and n_.name == prop]
            red_calls = [c for c in ast.walk(f_) if isinstance(c, ast.Call) and last_attr(c.func).startswith('nan')
                         and c.args and ast.unparse(c.args[0]) == 'self._source_polar']
            own[prop] = ({ast.unparse(k.value) for c in red_calls for k in c.keywords if k.arg == 'axis'}
                         | {ast.unparse(c.args[1]) for c in red_calls if len(c.args) > 1},
                         {n_.attr for n_ in ast.walk(f_) if isinstance(n_, ast.Attribute) and ast.unparse(n_.value) == 'self' and n_.attr in names})
        red = []
        for prop in names:
            axes = set(own[prop][0])
            for dep in own[prop][1]:                # a statistic built from other statistics (azpv = azmax - azmin) inherits their axis
                axes |= own[dep][0]
            if len(axes) != 1:
                raise Untranslatable(f'{prop}: reduction axis')
            red.append(f'({int(axes.pop())} : Int)')
        out.append(f'def azReduceAxes : List Int := [{", ".join(red)}]')
        # estimate_size: argmax along ..., mask.shape[...]
        es = get_def(psf, 'estimate_size')
        ax = sorted({ast.unparse(k.value) for c in ast.walk(es) if isinstance(c, ast.Call) and last_attr(c.func) == 'argmax'
                     for k in c.keywords if k.arg == 'axis'})
        shp = sorted({ast.unparse(n_.slice) for n_ in ast.walk(es) if isinstance(n_, ast.Subscript) and ast.unparse(n_.value) == 'mask.shape'})
        rev = [n_ for n_ in ast.walk(es) if isinstance(n_, ast.Subscript) and ast.unparse(n_.value) == 'mask' and isinstance(n_.slice, ast.Tuple)]
        if len(ax) != 1 or len(shp) != 1 or len(rev) != 1:
            raise Untranslatable('estimate_size: search axis')
        revax = [k for k, e in enumerate(rev[0].slice.elts) if isinstance(e, ast.Slice) and e.step is not None and ast.unparse(e.step) == '-1']
        if len(revax) != 1:
            raise Untranslatable('estimate_size: reversed axis')
        out.append(f'def estSizeAxes : List Int := [({int(ax[0])} : Int), ({int(shp[0])} : Int), ({revax[0]} : Int)]')
        return '\n'.join(out)
    g.item('polar.axes', 'prysm/coordinates.py:uniform_cart_to_polar; Slices.az*; psf.estimate_size',
           lambda: get_def(co, 'uniform_cart_to_polar'), polar_axes,
           f'def polarRhoAxis : Int := {M}.polarRhoAxis\ndef polarPhiAxis : Int := {M}.polarPhiAxis\n'
           f'def polarRhoLen (m n : Int) : Int := {M}.polarRhoLen m n\ndef polarPhiLen (m n : Int) : Int := {M}.polarPhiLen m n\n'
           f'def azReduceAxes : List Int := List.replicate 7 {M}.polarPhiAxis\n'
           f'def estSizeAxes : List Int := List.replicate 3 {M}.polarRhoAxis')

    return g.finish()


if __name__ == '__main__':
    import sys
    text, items = generate(sys.argv[1] if len(sys.argv) > 1 else '/repo')
    print(text)
    for it in items:
        print('--', it)
