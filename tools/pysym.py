"""source normalisation for the translators of C09 / C10: make the recognisers see through behaviour-preserving maintainer
refactors, soundly (every transformation below preserves what the code computes; a shape that is not understood raises
Untranslatable, which degrades the tie, never turns it red).

  * SymEx            path-wise symbolic execution of a function body: locals are expanded into expressions over the parameters
                     (so local names, hoisted temporaries, tuple-unpacking styles disappear), early returns / continue become path
                     conditions, same-module private helpers without loops are inlined (also helpers with branches)
  * propagate_aliases  `cur = alphas[jj]` ... `cur[n] = ...`  ->  `alphas[jj][n] = ...`  (view aliases of table rows, hoisted
                     sub-expressions) for the statement-based recognisers
  * inline_pure_helpers  expression-level inlining of straight-line same-module helpers, for the statement-based recognisers
  * strip_float_entry  `x = np.asarray(x, dtype=np.result_type(x, 1.0))` on a coordinate parameter is the identity on the values
                     (it changes the storage type only): removed before the recognisers look at the body
  * canonical_locals   injective renaming of locals to the names a recogniser expects, found from role hints (alpha-renaming with an
                     injective map never changes behaviour)
"""
import ast
import copy

from pyexpr2lean import Untranslatable


# ------------------------------------------------------------------------------------------------
# small AST helpers
# ------------------------------------------------------------------------------------------------
def U(node):
    return ast.unparse(node)


def parse_expr(text):
    return ast.parse(text, mode='eval').body


def strip_doc(body):
    if body and isinstance(body[0], ast.Expr) and isinstance(body[0].value, ast.Constant) and isinstance(body[0].value.value, str):
        return body[1:]
    return body


class _Subst(ast.NodeTransformer):
    """replace loads of names by expressions (deep copies); comprehension / lambda variables shadow"""

    def __init__(self, table):
        self.table = table
        self.shadow = []

    def visit_Name(self, node):
        if isinstance(node.ctx, ast.Load) and node.id in self.table and not any(node.id in s for s in self.shadow):
            return copy.deepcopy(self.table[node.id])
        return node

    def _comp(self, node):
        bound = set()
        for g in node.generators:
            for n in ast.walk(g.target):
                if isinstance(n, ast.Name):
                    bound.add(n.id)
        # the first iterable is evaluated outside the comprehension scope
        first = self.visit(node.generators[0].iter)
        self.shadow.append(bound)
        for k, g in enumerate(node.generators):
            if k:
                g.iter = self.visit(g.iter)
            g.ifs = [self.visit(i) for i in g.ifs]
        if isinstance(node, ast.DictComp):
            node.key = self.visit(node.key)
            node.value = self.visit(node.value)
        else:
            node.elt = self.visit(node.elt)
        self.shadow.pop()
        node.generators[0].iter = first
        return node

    visit_ListComp = visit_SetComp = visit_GeneratorExp = visit_DictComp = _comp

    def visit_Lambda(self, node):
        self.shadow.append({a.arg for a in node.args.args})
        node.body = self.visit(node.body)
        self.shadow.pop()
        return node


def subst(node, table):
    return _Subst(table).visit(copy.deepcopy(node))


def names_stored(nodes):
    out = set()
    for st in nodes:
        for n in ast.walk(st):
            if isinstance(n, ast.Name) and isinstance(n.ctx, (ast.Store, ast.Del)):
                out.add(n.id)
    return out


def canon_cond(test, polarity):
    """(text, polarity) with comparisons normalised:  a < b == not (a >= b),  a <= b == not (a > b),  a != b == not (a == b),
    `not X` == X with flipped polarity"""
    while isinstance(test, ast.UnaryOp) and isinstance(test.op, ast.Not):
        test, polarity = test.operand, not polarity
    if isinstance(test, ast.Compare) and len(test.ops) == 1:
        flip = {ast.Lt: ast.GtE, ast.LtE: ast.Gt, ast.NotEq: ast.Eq, ast.IsNot: ast.Is}
        op = type(test.ops[0])
        if op in flip:
            test = ast.Compare(left=test.left, ops=[flip[op]()], comparators=test.comparators)
            polarity = not polarity
    return U(test), polarity


# ------------------------------------------------------------------------------------------------
# symbolic execution
# ------------------------------------------------------------------------------------------------
class Path:
    """one control-flow path: conds [(text, polarity)] (canonical), kind 'return' | 'fall' | 'continue' | 'break' | 'raise',
    value (returned expression), env (name -> expression at the end), events [('store', target, value) | ('call', expr) |
    ('loop', target, iter, [body paths])]"""

    def __init__(self, conds, kind, value, env, events):
        self.conds, self.kind, self.value, self.env, self.events = conds, kind, value, env, events

    def cond(self, text):
        """polarity of a condition on this path (None if not decided on it); text in canonical spelling"""
        for t, p in self.conds:
            if t == text:
                return p
        return None

    def __repr__(self):
        return f'Path({self.conds}, {self.kind}, {U(self.value) if self.value is not None else None})'


class SymEx:
    def __init__(self, module=None, inline=None, no_inline=('_as_sequence', '_initialize_alphas'), max_paths=256):
        """module: ast.Module for helper inlining; inline(name) -> bool decides which same-module functions are inlined
        (default: private ones, i.e. leading underscore, that have no loops)"""
        self.module = module
        self.no_inline = set(no_inline)
        self.inline = inline
        self.max_paths = max_paths
        self.helpers = {}
        if module is not None:
            for n in module.body:
                if isinstance(n, ast.FunctionDef):
                    self.helpers[n.name] = n
        self._stack = []

    # -------------------------------------------------------------- helpers
    def _inlinable(self, name):
        fn = self.helpers.get(name)
        if fn is None or name in self.no_inline or name in self._stack:
            return None
        if self.inline is not None:
            if not self.inline(name):
                return None
        elif not name.startswith('_'):
            return None
        if any(isinstance(n, (ast.For, ast.While, ast.AsyncFor, ast.Try, ast.With, ast.Yield, ast.YieldFrom, ast.Global, ast.Nonlocal))
               for n in ast.walk(fn)):
            return None
        if fn.args.vararg or fn.args.kwarg or fn.args.kwonlyargs or fn.decorator_list:
            return None
        return fn

    def _bind(self, fn, call):
        params = [a.arg for a in fn.args.args]
        defaults = dict(zip(params[len(params) - len(fn.args.defaults):], fn.args.defaults))
        if any(isinstance(a, ast.Starred) for a in call.args) or any(k.arg is None for k in call.keywords) or len(call.args) > len(params):
            return None
        table = dict(zip(params, call.args))
        for k in call.keywords:
            if k.arg not in params or k.arg in table:
                return None
            table[k.arg] = k.value
        for p in params:
            if p not in table:
                if p not in defaults:
                    return None
                table[p] = defaults[p]
        return table

    def _helper_paths(self, call):
        """paths of an inlinable pure helper for this call: [(conds, returned expression)] or None"""
        if not isinstance(call, ast.Call) or not isinstance(call.func, ast.Name):
            return None
        fn = self._inlinable(call.func.id)
        if fn is None:
            return None
        table = self._bind(fn, call)
        if table is None:
            return None
        self._stack.append(fn.name)
        try:
            paths = self.run(fn, table)
        except Untranslatable:
            return None
        finally:
            self._stack.pop()
        if not paths or any(p.kind != 'return' or p.events for p in paths):
            return None
        return paths

    def _inline_call(self, call):
        """expression for a call to an inlinable pure helper (None if it cannot be inlined)"""
        if not isinstance(call.func, ast.Name):
            return None
        if getattr(self, 'single_path_only', False):
            hp = self._helper_paths(call)
            return copy.deepcopy(hp[0].value) if hp is not None and len(hp) == 1 else None
        fn = self._inlinable(call.func.id)
        if fn is None:
            return None
        table = self._bind(fn, call)
        if table is None:
            return None
        self._stack.append(fn.name)
        try:
            paths = self.run(fn, table)
        except Untranslatable:
            return None
        finally:
            self._stack.pop()
        if not paths or any(p.kind != 'return' or p.events for p in paths):
            return None
        return merge_paths(paths, lambda p: p.value)

    def expand(self, node, env):
        """node with locals replaced by their expressions and inlinable helper calls replaced by their results"""
        out = subst(node, env)
        return self._inline_in(out)

    def _inline_in(self, node):
        sx = self

        class T(ast.NodeTransformer):
            def visit_Call(self, n):
                self.generic_visit(n)
                r = sx._inline_call(n)
                return r if r is not None else n
        return T().visit(node)

    # -------------------------------------------------------------- statements
    MUTATORS = ('append', 'extend', 'insert', 'pop', 'update', 'setdefault', 'sort', 'clear', 'remove', 'fill', 'add', 'discard',
                'popitem', 'reverse', 'resize', 'put', 'itemset')

    def _identities(self, fn):
        """locals that are modified in place somewhere (stored through, mutating method called): when such a local is bound to a
        NEW object (call, display, comprehension, arithmetic) it is an object identity and is not expanded by value"""
        out = set()
        for n in ast.walk(fn):
            tgts = []
            if isinstance(n, ast.Assign):
                tgts = n.targets
            elif isinstance(n, (ast.AugAssign, ast.AnnAssign)):
                tgts = [n.target]
            elif isinstance(n, ast.Delete):
                tgts = n.targets
            for t in tgts:
                for q in ast.walk(t):
                    if isinstance(q, (ast.Subscript, ast.Attribute)):
                        b = q.value
                        while isinstance(b, (ast.Subscript, ast.Attribute)):
                            b = b.value
                        if isinstance(b, ast.Name):
                            out.add(b.id)
            if isinstance(n, ast.Call) and isinstance(n.func, ast.Attribute) and n.func.attr in self.MUTATORS:
                b = n.func.value
                while isinstance(b, (ast.Subscript, ast.Attribute)):
                    b = b.value
                if isinstance(b, ast.Name):
                    out.add(b.id)
        return out

    def run(self, fn, args=None):
        """paths through fn; args: name -> expression for (some) parameters (others stay symbolic under their own name)"""
        env = dict(args or {})
        saved = getattr(self, 'identity', set())
        self.identity = self._identities(fn)
        try:
            return self.block(strip_doc(fn.body), env, [], [])
        finally:
            self.identity = saved

    def _first_ifexp(self, node):
        """first conditional expression inside node that is evaluated unconditionally with it (not under a lambda / comprehension)"""
        stack = [node]
        while stack:
            n = stack.pop(0)
            if isinstance(n, ast.IfExp):
                return n
            if isinstance(n, (ast.Lambda, ast.ListComp, ast.SetComp, ast.DictComp, ast.GeneratorExp)):
                continue
            stack = list(ast.iter_child_nodes(n)) + stack
        return None

    def block(self, stmts, env, conds, events):
        if not stmts:
            return [Path(conds, 'fall', None, env, events)]
        st, rest = stmts[0], stmts[1:]
        # `x = a if c else b` is `if c: x = a else: x = b` (same for return / augmented assignment / expression statements)
        if isinstance(st, (ast.Assign, ast.AugAssign, ast.Return, ast.Expr, ast.AnnAssign)) and getattr(st, 'value', None) is not None \
                and not (isinstance(st, ast.Expr) and isinstance(st.value, ast.Constant)):
            ife = self._first_ifexp(st.value)
            if ife is not None:
                # (deep copies lose node identity: rebuild both variants by position)
                yes, no = _replace_node(st, ife, ife.body), _replace_node(st, ife, ife.orelse)
                return self.block([ast.If(test=ife.test, body=[yes], orelse=[no])] + list(rest), env, conds, events)
        if isinstance(st, ast.Expr) and isinstance(st.value, ast.Constant):
            return self.block(rest, env, conds, events)
        if isinstance(st, ast.Pass):
            return self.block(rest, env, conds, events)
        if isinstance(st, ast.Return):
            val = self.expand(st.value, env) if st.value is not None else ast.Constant(value=None)
            return [Path(conds, 'return', val, env, events)]
        if isinstance(st, ast.Continue):
            return [Path(conds, 'continue', None, env, events)]
        if isinstance(st, ast.Break):
            return [Path(conds, 'break', None, env, events)]
        if isinstance(st, ast.Raise):
            return [Path(conds, 'raise', None, env, events)]
        if isinstance(st, ast.Assign) and isinstance(st.value, ast.Call):
            # a helper with several paths called as a statement: fork (its conditions become path conditions)
            hp = self._helper_paths(subst(st.value, env))
            if hp is not None and len(hp) > 1:
                out = []
                for h in hp:
                    c2 = list(conds)
                    feasible = True
                    for t, pol in h.conds:
                        known = [p for tt, p in c2 if tt == t]
                        if known:
                            feasible = feasible and known[-1] == pol
                        else:
                            c2.append((t, pol))
                    if not feasible:
                        continue
                    e2, ev2 = dict(env), list(events)
                    for t in st.targets:
                        self.assign(t, copy.deepcopy(h.value), e2, ev2)
                    out += self.block(rest, e2, c2, ev2)
                return out
        if isinstance(st, ast.Assign):
            env, events = dict(env), list(events)
            val = self.expand(st.value, env)
            for t in st.targets:
                self.assign(t, val, env, events)
            return self.block(rest, env, conds, events)
        if isinstance(st, ast.AnnAssign) and st.value is not None:
            env, events = dict(env), list(events)
            self.assign(st.target, self.expand(st.value, env), env, events)
            return self.block(rest, env, conds, events)
        if isinstance(st, ast.AugAssign):
            env, events = dict(env), list(events)
            val = self.expand(st.value, env)
            if isinstance(st.target, ast.Name):
                cur = env.get(st.target.id, ast.Name(id=st.target.id, ctx=ast.Load()))
                env[st.target.id] = ast.BinOp(left=copy.deepcopy(cur), op=st.op, right=val)
            else:
                tgt = self.expand(_as_load(st.target), env)
                events.append(('store', tgt, ast.BinOp(left=copy.deepcopy(tgt), op=st.op, right=val)))
            return self.block(rest, env, conds, events)
        if isinstance(st, ast.Expr):
            events = list(events)
            events.append(('call', self.expand(st.value, env)))
            return self.block(rest, env, conds, events)
        if isinstance(st, ast.If):
            test = self.expand(st.test, env)
            text, _ = canon_cond(test, True)
            known = None
            for t, p in conds:
                if t == text:
                    known = p
            out = []
            for pol, body in ((True, st.body), (False, st.orelse)):
                ct, cp = canon_cond(test, pol)
                if known is not None:
                    if cp != known:
                        continue
                    out += self.block(list(body) + list(rest), dict(env), conds, list(events))
                else:
                    out += self.block(list(body) + list(rest), dict(env), conds + [(ct, cp)], list(events))
                if len(out) > self.max_paths:
                    raise Untranslatable('too many paths')
            return out
        if isinstance(st, (ast.For,)):
            env, events = dict(env), list(events)
            it = self.expand(st.iter, env)
            killed = names_stored([st])
            benv = {k: v for k, v in env.items() if k not in killed}
            # an expression that mentions a name re-bound in the loop is not valid inside it any more
            benv = {k: v for k, v in benv.items() if not ({n.id for n in ast.walk(v) if isinstance(n, ast.Name)} & killed)}
            body_paths = self.block(list(st.body), benv, [], [])
            if st.orelse:
                raise Untranslatable('for/else')
            events.append(('loop', st.target, it, body_paths, st))
            for k in killed:
                env.pop(k, None)
            env = {k: v for k, v in env.items() if not ({n.id for n in ast.walk(v) if isinstance(n, ast.Name)} & killed)}
            return self.block(rest, env, conds, events)
        if isinstance(st, ast.FunctionDef):
            # a local closure: opaque (calls to it stay calls)
            return self.block(rest, env, conds, events)
        if isinstance(st, (ast.Import, ast.ImportFrom, ast.Assert)):
            return self.block(rest, env, conds, events)
        raise Untranslatable(f'statement not understood by the symbolic executor: {type(st).__name__}')

    def assign(self, target, val, env, events):
        if isinstance(target, ast.Name):
            if target.id in getattr(self, 'identity', ()) and not isinstance(val, (ast.Name, ast.Subscript, ast.Attribute)):
                env.pop(target.id, None)                 # a new object that is modified in place later: keep it by name
                events.append(('bind', ast.Name(id=target.id, ctx=ast.Load()), val))
                return
            env[target.id] = val
            return
        if isinstance(target, (ast.Tuple, ast.List)):
            elts = target.elts
            stars = [k for k, e in enumerate(elts) if isinstance(e, ast.Starred)]
            if isinstance(val, (ast.Tuple, ast.List)) and not stars and len(val.elts) == len(elts) \
                    and not any(isinstance(e, ast.Starred) for e in val.elts):
                for e, v in zip(elts, val.elts):
                    self.assign(e, v, env, events)
                return
            if len(stars) > 1:
                raise Untranslatable('two starred targets')
            n = len(elts)
            for k, e in enumerate(elts):
                if isinstance(e, ast.Starred):
                    lo = ast.Constant(value=k) if k else None
                    hi = ast.UnaryOp(op=ast.USub(), operand=ast.Constant(value=n - 1 - k)) if n - 1 - k else None
                    piece = ast.Subscript(value=copy.deepcopy(val), slice=ast.Slice(lower=lo, upper=hi, step=None), ctx=ast.Load())
                    self.assign(e.value, piece, env, events)
                else:
                    idx = k if (not stars or k < stars[0]) else k - n
                    node = ast.Constant(value=idx) if idx >= 0 else ast.UnaryOp(op=ast.USub(), operand=ast.Constant(value=-idx))
                    self.assign(e, ast.Subscript(value=copy.deepcopy(val), slice=node, ctx=ast.Load()), env, events)
            return
        if isinstance(target, (ast.Subscript, ast.Attribute)):
            events.append(('store', self.expand(_as_load(target), env), val))
            return
        raise Untranslatable(f'assignment target {type(target).__name__}')


def _replace_node(stmt, target, replacement):
    """copy of stmt in which the node `target` (identity) is replaced by a copy of `replacement`"""
    class R(ast.NodeTransformer):
        def visit(self, n):
            if n is target:
                return copy.deepcopy(replacement)
            return super().visit(n)

        def generic_visit(self, n):
            # rebuild instead of mutating, so that the original statement stays intact
            new = copy.copy(n)
            for field, old in ast.iter_fields(n):
                if isinstance(old, list):
                    setattr(new, field, [self.visit(v) if isinstance(v, ast.AST) else v for v in old])
                elif isinstance(old, ast.AST):
                    setattr(new, field, self.visit(old))
            return new
    return R().visit(stmt)


def _as_load(node):
    node = copy.deepcopy(node)
    for n in ast.walk(node):
        if hasattr(n, 'ctx'):
            n.ctx = ast.Load()
    return node


def merge_paths(paths, get):
    """one expression for a value over all paths: nested conditional expressions on the path conditions (decision tree)"""
    vs = [get(p) for p in paths]
    if len(paths) > 1 and all(isinstance(v, ast.Tuple) for v in vs) and len({len(v.elts) for v in vs}) == 1:
        return ast.Tuple(elts=[merge_paths(paths, (lambda p, k=k: get(p).elts[k])) for k in range(len(vs[0].elts))], ctx=ast.Load())

    def build(ps, depth):
        vals = {U(get(p)) for p in ps}
        if len(vals) == 1:
            return copy.deepcopy(get(ps[0]))
        # split on the first condition at this depth
        ps_with = [p for p in ps if len(p.conds) > depth]
        if len(ps_with) != len(ps):
            raise Untranslatable('paths cannot be merged')
        text = ps[0].conds[depth][0]
        if any(p.conds[depth][0] != text for p in ps):
            raise Untranslatable('paths cannot be merged')
        yes = [p for p in ps if p.conds[depth][1]]
        no = [p for p in ps if not p.conds[depth][1]]
        if not yes or not no:
            return build(yes or no, depth + 1)
        return ast.IfExp(test=parse_expr(text), body=build(yes, depth + 1), orelse=build(no, depth + 1))
    return build(list(paths), 0)


# ------------------------------------------------------------------------------------------------
# statement-level normalisations (for recognisers that read loops and table stores)
# ------------------------------------------------------------------------------------------------
def _uses_before_def_ok(fn, name, assign):
    """every load of `name` in fn comes after `assign` (line order) and `name` is stored exactly once"""
    stores = [n for n in ast.walk(fn) if isinstance(n, ast.Name) and n.id == name and isinstance(n.ctx, ast.Store)]
    if len(stores) != 1:
        return False
    loads = [n for n in ast.walk(fn) if isinstance(n, ast.Name) and n.id == name and isinstance(n.ctx, ast.Load)]
    return all((n.lineno, n.col_offset) > (assign.lineno, assign.col_offset) for n in loads)


def propagate_aliases(fn):
    """copy of fn in which single-assignment aliases `v = base[index]` / `v = base` (base a name, index built from names and
    constants) are replaced by what they stand for, when neither base nor the index names are re-bound while the alias is in use
    (same block, after the alias).  For array rows this is exact: `v` is a view, so reads and writes through `v` are reads and
    writes of `base[index]`."""
    fn = copy.deepcopy(fn)
    params = {a.arg for a in fn.args.args}

    def simple(e):
        if isinstance(e, ast.Name):
            return True
        if isinstance(e, ast.Subscript) and isinstance(e.value, (ast.Name, ast.Subscript)) and simple(e.value):
            return all(isinstance(n, (ast.Name, ast.Constant, ast.BinOp, ast.UnaryOp, ast.operator, ast.unaryop, ast.expr_context, ast.Load))
                       for n in ast.walk(e.slice))
        return False

    def index_arith(e):
        """integer arithmetic over names and constants (a hoisted index such as `top = M - jj`)"""
        return isinstance(e, (ast.BinOp, ast.UnaryOp)) and all(
            isinstance(n, (ast.Name, ast.BinOp, ast.UnaryOp, ast.Add, ast.Sub, ast.Mult, ast.FloorDiv, ast.USub, ast.UAdd, ast.Load))
            or (isinstance(n, ast.Constant) and isinstance(n.value, int) and not isinstance(n.value, bool)) for n in ast.walk(e))

    def only_in_indices(stmts, v):
        """every load of v is inside a subscript index or an argument of range(...)"""
        inside = set()
        for st_ in stmts:
            for n in ast.walk(st_):
                if isinstance(n, ast.Subscript):
                    inside.update(id(q) for q in ast.walk(n.slice))
                if isinstance(n, ast.Call) and U(n.func) == 'range':
                    for a in n.args:
                        inside.update(id(q) for q in ast.walk(a))
        loads = [n for st_ in stmts for n in ast.walk(st_) if isinstance(n, ast.Name) and n.id == v and isinstance(n.ctx, ast.Load)]
        return bool(loads) and all(id(n) in inside for n in loads)

    def process(block):
        changed = True
        while changed:
            changed = False
            for k, st in enumerate(block):
                if isinstance(st, ast.Assign) and len(st.targets) == 1 and isinstance(st.targets[0], ast.Name) \
                        and ((isinstance(st.value, ast.Subscript) and simple(st.value))
                             or (index_arith(st.value) and only_in_indices(block[k + 1:], st.targets[0].id))):
                    v = st.targets[0].id
                    if v in params or not _uses_before_def_ok(fn, v, st):
                        continue
                    rest = block[k + 1:]
                    # all uses must be inside `rest`
                    uses_total = sum(1 for n in ast.walk(fn) if isinstance(n, ast.Name) and n.id == v and isinstance(n.ctx, ast.Load))
                    uses_rest = sum(1 for s in rest for n in ast.walk(s) if isinstance(n, ast.Name) and n.id == v and isinstance(n.ctx, ast.Load))
                    if uses_total != uses_rest:
                        continue
                    deps = {n.id for n in ast.walk(st.value) if isinstance(n, ast.Name)}
                    if deps & names_stored(rest):
                        continue
                    table = {v: st.value}
                    new_rest = [_Subst(table).visit(copy.deepcopy(s)) for s in rest]
                    for s in new_rest:
                        # a store through the alias: the substituted node must be a Store target again
                        for n in ast.walk(s):
                            if isinstance(n, (ast.Assign, ast.AugAssign)):
                                for t in (n.targets if isinstance(n, ast.Assign) else [n.target]):
                                    for q in ast.walk(t):
                                        if isinstance(q, ast.Subscript) and q is t:
                                            q.ctx = ast.Store()
                    block[k:] = new_rest
                    ast.fix_missing_locations(fn)
                    changed = True
                    break
        for st in block:
            for field in ('body', 'orelse'):
                sub = getattr(st, field, None)
                if isinstance(sub, list) and sub and isinstance(sub[0], ast.stmt):
                    process(sub)
    process(fn.body)
    ast.fix_missing_locations(fn)
    # re-parse: fresh, consistent line numbers and contexts
    return ast.parse(ast.unparse(fn)).body[0]


def inline_pure_helpers(fn, module, no_inline=('_as_sequence', '_initialize_alphas')):
    """copy of fn in which calls to same-module private helpers without loops and without side effects are replaced by the
    expression they return"""
    sx = SymEx(module, no_inline=no_inline)
    sx.single_path_only = True            # helpers with branches are left to the symbolic executor (it forks on them)
    sx._stack.append(fn.name)
    out = sx._inline_in(copy.deepcopy(fn))
    ast.fix_missing_locations(out)
    return ast.parse(ast.unparse(out)).body[0]


FLOAT_DTYPES = ('float', 'np.float64', 'np.double', 'np.longdouble')


def float_entry_param(st, params):
    """the parameter c if st is `c = <floating-point copy of c>`: np.asarray(c, dtype=np.result_type(c, 1.0)) or an equivalent
    spelling (np.array / np.asanyarray, c.astype(...), dtype float / np.float64); None otherwise.  Such a statement changes the
    storage type of the coordinates, never their values (integers below 2**53, float32 and float64 are all exactly representable
    in the result type), so over the reals - where the models live - it is the identity."""
    if not (isinstance(st, ast.Assign) and len(st.targets) == 1 and isinstance(st.targets[0], ast.Name)):
        return None
    c = st.targets[0].id
    if c not in params or not isinstance(st.value, ast.Call):
        return None
    call = st.value
    ok_dtypes = {f'np.result_type({c}, 1.0)', f'np.result_type({c}, 1.)', f'np.result_type(1.0, {c})'} | set(FLOAT_DTYPES)
    f = U(call.func)
    if f in ('np.asarray', 'np.array', 'np.asanyarray') and len(call.args) == 1 and U(call.args[0]) == c \
            and len(call.keywords) == 1 and call.keywords[0].arg == 'dtype' and U(call.keywords[0].value).replace('1.)', '1.0)') in ok_dtypes:
        return c
    if f == f'{c}.astype' and len(call.args) == 1 and not call.keywords and U(call.args[0]) in ok_dtypes:
        return c
    return None


def float_entry_params(fn):
    """{parameter: index of its conversion statement in fn.body} for the floating-point conversions at the top level of fn"""
    params = {a.arg for a in fn.args.args}
    out = {}
    for k, st in enumerate(fn.body):
        c = float_entry_param(st, params)
        if c is not None and c not in out:
            out[c] = k
    return out


def strip_float_entry(fn):
    """copy of fn without its top-level `c = np.asarray(c, dtype=np.result_type(c, 1.0))` statements (identity on the values)"""
    conv = float_entry_params(fn)
    if not conv:
        return fn
    fn = copy.deepcopy(fn)
    fn.body = [st for k, st in enumerate(fn.body) if k not in set(conv.values())]
    ast.fix_missing_locations(fn)
    return ast.parse(ast.unparse(fn)).body[0]


def normalised_def(module, name, aliases=True, helpers=True):
    from pyexpr2lean import get_def
    fn = strip_float_entry(get_def(module, name))
    try:
        if helpers:
            fn = inline_pure_helpers(fn, module)
        if aliases:
            fn = propagate_aliases(fn)
    except (Untranslatable, RecursionError):
        return strip_float_entry(get_def(module, name))
    return fn


# ------------------------------------------------------------------------------------------------
# renaming locals to the names a recogniser expects
# ------------------------------------------------------------------------------------------------
def canonical_locals(fn, roles):
    """roles: [(canonical name, finder)]; finder(fn, found: dict canonical->actual) -> actual local name or None.
    Returns a copy of fn with the found locals renamed (only if the renaming is injective and clashes with nothing)."""
    found = {}
    for canon, finder in roles:
        try:
            actual = finder(fn, found)
        except (Untranslatable, AttributeError, IndexError, KeyError, TypeError):
            actual = None
        if actual is not None:
            found[canon] = actual
    ren = {a: c for c, a in found.items() if a != c}
    if not ren:
        return fn
    if len(set(found.values())) != len(found):
        return fn
    all_names = {n.id for n in ast.walk(fn) if isinstance(n, ast.Name)} | {a.arg for a in fn.args.args}
    untouched = all_names - set(ren)
    if set(ren.values()) & untouched:
        # a canonical name is already used for something else: rename that one out of the way first
        clash = set(ren.values()) & untouched
        if clash & {a.arg for a in fn.args.args}:
            return fn
        for c in clash:
            ren[c] = f'{c}__other'
    fn = copy.deepcopy(fn)
    for n in ast.walk(fn):
        if isinstance(n, ast.Name) and n.id in ren:
            n.id = ren[n.id]
    return ast.parse(ast.unparse(fn)).body[0]


def local_assigned_with(pred):
    """finder: the (unique) local whose assigned value satisfies pred(value node, found)"""
    def finder(fn, found):
        hits = []
        for n in ast.walk(fn):
            if isinstance(n, ast.Assign) and len(n.targets) == 1 and isinstance(n.targets[0], ast.Name) and pred(n.value, found):
                hits.append(n.targets[0].id)
        hits = list(dict.fromkeys(hits))
        return hits[0] if len(hits) == 1 else None
    return finder
