"""translator items for C13 (PSD normalisation, frequency axes, band-limited RMS, synthetic-surface RMS).

Reads prysm/interferogram.py (psd, make_window signature, bandlimited_rms, render_synthetic_surface, Interferogram.psd /
bandlimited_rms / total_integrated_scatter / render_from_psd), prysm/fttools.py (forward_ft_unit), prysm/util.py (rms),
prysm/coordinates.py (broadcast_1d_to_2d, cart_to_polar), prysm/_richdata.py (RichData.r) of the CURRENT tree and emits the
glue where the defects live:

  psd(): by LAST-DEFINITION DATAFLOW (`_SSA`: the function body is executed symbolically by substitution, so rebinding
  `psd = psd * 2`, `/=`, reordering of independent statements and renaming of locals are all followed):
    psdPreRot / psdPostRot      rotation kinds around fft2 in what is RETURNED
    psdPower                    the returned power as a function of P = |spectrum|^2, S2 = sum(window^2), dx
    psdWindowSameInTransformAndS2, psdWindowMadeForHeightFromWindowArgument, psdPowerIsSquaredModulus   (three-valued facts)
    psdUxShapeAxis/UyShapeAxis, psdUx/UyBroadcastSlot   which `height.shape[k]` / which broadcast output feeds which returned axis
  axisRot, axisFftfreqCountThenSpacing   fttools.forward_ft_unit = rot(fftfreq(samples, dx))
  brmsCentre, brmsIntegrations, brmsIntAxis, brmsStepAxis, brmsStepLag
                              for each integration call of the 2-D path of `bandlimited_rms`: the axis= it
                              reduces, and along which array axis (and at which lag from the centre) the step was measured
  brmsCentre1D, brmsStepLag1D the same for the 1-D branch (`r.ndim != 2`)
  brmsLowCmp / brmsHighCmp    comparison kinds of the band mask
  brmsIntegratorPortable      the integrator is looked up as `trapezoid`, falling back to `trapz`
  brmsReturnsSqrtOfIntegralOfACopy
  brmsBand*                   the band (flow, fhigh) that each way of calling bandlimited_rms ends up with (periods /
                              frequencies, one-sided / two-sided / one edge of each kind), by symbolic execution of the
                              argument handling; brmsNoBandGivenRaisesValueError for the empty call
  synthRescale                the rescale of the surface as a function of (rho, measured rms, z), local names followed
  ifgPsdDx                    the `dx` that Interferogram.psd() stores on the spectrum
  + structural facts (THREE-VALUED: True = recognised and right, False = recognised and wrong, None = shape not recognised;
    arguments of calls are bound by name or position, locals may be renamed, np.abs = abs, ...)

Every item degrades to `untranslatable` (fallback = the hand model; reported as TIE-DEGRADED) on shapes it does not know.
"""
import ast
from pyexpr2lean import (Gen, Tr, Untranslatable, load, get_def, find_assign, find_assigns, find_returns,
                         find_calls, lean_int)

M = 'Model.C13'
ROTS = {'fftshift': f'{M}.Rot.fftshift', 'ifftshift': f'{M}.Rot.ifftshift'}


def _rot_call(e):
    """`fft.fftshift(X)` / `fft.ifftshift(X)` / `np.fft.…` -> (kind, X); anything else -> (None, e)"""
    if isinstance(e, ast.Call) and len(e.args) == 1 and not e.keywords:
        name = ast.unparse(e.func).split('.')[-1]
        if name in ROTS:
            return name, e.args[0]
    return None, e


def _stmts(fn):
    """all statements of a function in source order (flattened)"""
    out = [n for n in ast.walk(fn) if isinstance(n, ast.stmt) and n is not fn]
    out.sort(key=lambda n: (n.lineno, n.col_offset))
    return out


# --------------------------------------------------------------------------------------------------
# straight-line symbolic execution (last-definition dataflow): name -> expression over the parameters
# --------------------------------------------------------------------------------------------------
class _SSA:
    """runs a straight-line function body by SUBSTITUTION: after `run`, `env[name]` is the value of `name` at the point
    the function returns, written over the parameters only (every local is replaced by the expression bound to it at
    that point), and `ret` is the returned expression.  Rebinding (`psd = psd * 2`), augmented assignment, tuple
    unpacking of a call (`a, b = f(..)` -> `f(..)[0]`, `f(..)[1]`) and reordering of independent statements are all
    followed; renaming a local changes nothing.  `consts` fixes the truth value of `if <param>:` tests.
    Anything else (loops, attribute / subscript stores, calls for effect, aliasing followed by an in-place update)
    raises Untranslatable."""

    def __init__(self, consts=None):
        self.env = {}
        self.ret = None
        self.consts = dict(consts or {})
        self.alias = {}           # name -> name it was bound to by a bare `a = b`

    def subst(self, e):
        import copy
        env = self.env

        class S(ast.NodeTransformer):
            def visit_Name(self, n):
                if isinstance(n.ctx, ast.Load) and n.id in env:
                    return copy.deepcopy(env[n.id])
                return n
        return S().visit(copy.deepcopy(e))

    def _truth(self, t):
        if isinstance(t, ast.Name) and t.id in self.consts:
            return bool(self.consts[t.id])
        if isinstance(t, ast.UnaryOp) and isinstance(t.op, ast.Not):
            return not self._truth(t.operand)
        raise Untranslatable(f'branch on {ast.unparse(t)[:40]}')

    def run(self, stmts):
        for st in stmts:
            if self.ret is not None:
                return
            if isinstance(st, ast.Expr) and isinstance(st.value, ast.Constant):
                continue
            if isinstance(st, ast.Pass):
                continue
            if isinstance(st, ast.Delete) and all(isinstance(t, ast.Name) for t in st.targets):
                for t in st.targets:          # values already substituted into later uses stay what they were
                    self.env.pop(t.id, None)
                    self.alias.pop(t.id, None)
                continue
            if isinstance(st, ast.If):
                self.run(st.body if self._truth(st.test) else st.orelse)
                continue
            if isinstance(st, ast.Return):
                if st.value is None:
                    raise Untranslatable('bare return')
                self.ret = self.subst(st.value)
                return
            if isinstance(st, ast.AugAssign) and isinstance(st.target, ast.Name):
                nm = st.target.id
                if nm in self.alias or nm in self.alias.values():
                    raise Untranslatable(f'in-place update of {nm}, which has an alias')
                cur = self.env.get(nm, ast.Name(id=nm, ctx=ast.Load()))
                self.env[nm] = ast.BinOp(left=cur, op=st.op, right=self.subst(st.value))
                continue
            if isinstance(st, ast.Assign) and len(st.targets) == 1:
                t = st.targets[0]
                if isinstance(t, ast.Name):
                    if isinstance(st.value, ast.Name):
                        self.alias[t.id] = st.value.id
                    else:
                        self.alias.pop(t.id, None)
                    self.env[t.id] = self.subst(st.value)
                    continue
                if isinstance(t, ast.Tuple) and all(isinstance(x, ast.Name) for x in t.elts):
                    v = self.subst(st.value)
                    if isinstance(v, ast.Tuple) and len(v.elts) == len(t.elts):
                        vals = list(v.elts)
                    else:
                        vals = [ast.Subscript(value=v, slice=ast.Constant(value=k), ctx=ast.Load()) for k in range(len(t.elts))]
                    for x, val in zip(t.elts, vals):
                        self.env[x.id] = val
                    continue
            raise Untranslatable(f'statement {ast.unparse(st)[:60]}')


def _norm(e):
    """source text of an expression with spelling noise removed: no blanks, `np.abs` / `numpy.abs` / `np.absolute` -> `abs`"""
    t = ast.unparse(e).replace(' ', '')
    for a in ('numpy.', 'np.'):
        t = t.replace(a + 'absolute', 'abs').replace(a + 'abs', 'abs')
    return t


def _bind(call, params):
    """positional-or-keyword binding of a Call to a parameter list -> {param: expr}; Untranslatable on * / ** / too many"""
    out = {}
    if len(call.args) > len(params) or any(isinstance(a, ast.Starred) for a in call.args):
        raise Untranslatable(f'call {ast.unparse(call)[:50]}')
    for p_, a in zip(params, call.args):
        out[p_] = a
    for k in call.keywords:
        if k.arg is None:
            continue                      # **kwargs pass-through
        if k.arg in out:
            raise Untranslatable('argument given twice')
        out[k.arg] = k.value
    return out


def _params(fn):
    return [a.arg for a in fn.args.args]


def _callee(e):
    return ast.unparse(e.func).split('.')[-1] if isinstance(e, ast.Call) else None


# ---- value-transparent conversions (dtype casts): the theorems are about VALUES, so `x.astype(..)`, `np.asarray(x, ..)` and calls of
# module-level cast helpers (functions that return their first argument, possibly converted) are looked through; whether the
# arithmetic is done in FLOATING POINT is a separate, translated fact (psdArithmeticInFloatingPoint, brmsWorksInFloatingPoint)
_CASTS = {}          # helper name -> does it convert non-floating input to a floating type?   (set by generate())
_FLOATISH = ('float', 'np.float64', 'numpy.float64', 'np.double', 'np.float32', 'numpy.float32', 'config.precision', 'precision',
             "'float64'", "'float32'", "'f8'", "'f4'", "'d'", 'np.longdouble', 'np.result_type(float,array)', 'np.result_type(array,float)')
_ASARRAY = ('np.asarray', 'np.asanyarray', 'np.ascontiguousarray', 'np.asfortranarray', 'np.array',
            'numpy.asarray', 'numpy.asanyarray', 'numpy.ascontiguousarray', 'numpy.asfortranarray', 'numpy.array')


def _cast_info(e):
    """is `e` (at its top) a value-transparent conversion?  -> (inner expression, converts to floating point: bool) or None"""
    if not isinstance(e, ast.Call):
        return None
    f = e.func
    kws = {k.arg: k.value for k in e.keywords if k.arg}
    if isinstance(f, ast.Attribute) and f.attr == 'astype' and (e.args or 'dtype' in kws):
        tgt = e.args[0] if e.args else kws['dtype']
        return f.value, ast.unparse(tgt).replace(' ', '').replace('"', "'") in _FLOATISH
    name = ast.unparse(f)
    if name in _ASARRAY and e.args:
        tgt = kws.get('dtype', e.args[1] if len(e.args) > 1 else None)
        return e.args[0], tgt is not None and ast.unparse(tgt).replace(' ', '').replace('"', "'") in _FLOATISH
    if isinstance(f, ast.Name) and f.id in _CASTS and e.args:
        return e.args[0], _CASTS[f.id]
    if isinstance(f, ast.Attribute) and f.attr == 'copy' and not e.args:
        return None                # a copy is not a cast (aliasing matters elsewhere)
    return None


def _strip_casts(e):
    import copy

    class S(ast.NodeTransformer):
        def visit_Call(self, node):
            node = self.generic_visit(node)
            ci = _cast_info(node)
            return ci[0] if ci is not None else node
    return S().visit(copy.deepcopy(e))


_FLOAT_FUNCS = set()      # module-level functions every `return` of which passes a conversion to floating point (set by generate())


def _floating_cast_on_top(e):
    """does the value of `e` pass through a conversion to floating point (possibly under further transparent casts), or is it
    the result of a module-level function all of whose returns do?"""
    while True:
        if isinstance(e, ast.Call) and isinstance(e.func, ast.Name) and e.func.id in _FLOAT_FUNCS:
            return True
        ci = _cast_info(e)
        if ci is None:
            return False
        if ci[1]:
            return True
        e = ci[0]


def _own_returns(fn):
    """the values returned by `fn` itself (returns of nested functions / lambdas are not its returns)"""
    out = []

    def walk(n):
        for ch in ast.iter_child_nodes(n):
            if isinstance(ch, (ast.FunctionDef, ast.AsyncFunctionDef, ast.Lambda, ast.ClassDef)):
                continue
            if isinstance(ch, ast.Return) and ch.value is not None:
                out.append(ch.value)
            walk(ch)
    walk(fn)
    return out


def _cast_helpers(mod):
    """module-level functions that return their first argument, possibly converted: every `return` is the parameter under zero or
    more transparent conversions.  floating = every converting return converts to a floating type, and a bare `return <param>`
    (if any) sits in a function that tests the dtype"""
    out = {}
    for fn in mod.body:
        if not (isinstance(fn, ast.FunctionDef) and fn.args.args and not fn.args.vararg):
            continue
        a = fn.args.args[0].arg
        rets = _own_returns(fn)
        if not rets:
            continue
        ok, conv, bare = True, [], 0
        for r_ in rets:
            e, fl, n = r_, False, 0
            while True:
                ci = _cast_info(e)
                if ci is None:
                    break
                e, fl, n = ci[0], fl or ci[1], n + 1
            if not (isinstance(e, ast.Name) and e.id == a):
                ok = False
                break
            if n:
                conv.append(fl)
            else:
                bare += 1
        if not ok:
            continue
        tests_dtype = any(isinstance(n_, ast.Attribute) and n_.attr in ('dtype', 'kind') for n_ in ast.walk(fn)) \
            or any(isinstance(n_, ast.Call) and _callee(n_) in ('issubdtype', 'isrealobj', 'iscomplexobj') for n_ in ast.walk(fn))
        out[fn.name] = bool(conv) and all(conv) and (bare == 0 or tests_dtype)
    return out


def _power_of(e):
    """`abs(X)**2`, `abs(X)*abs(X)`, `X.real**2 + X.imag**2`, `(X*conj(X)).real` -> X; else None"""
    if isinstance(e, ast.BinOp) and isinstance(e.op, ast.Pow) and isinstance(e.right, ast.Constant) and e.right.value == 2 \
            and isinstance(e.left, ast.Call) and _norm(e.left.func) in ('abs',) and len(e.left.args) == 1:
        return e.left.args[0]
    if isinstance(e, ast.BinOp) and isinstance(e.op, ast.Mult) and _norm(e.left) == _norm(e.right) \
            and isinstance(e.left, ast.Call) and _norm(e.left.func) == 'abs' and len(e.left.args) == 1:
        return e.left.args[0]
    if isinstance(e, ast.BinOp) and isinstance(e.op, ast.Add):
        def part(x, attr):
            if isinstance(x, ast.BinOp) and isinstance(x.op, ast.Pow) and isinstance(x.right, ast.Constant) and x.right.value == 2 \
                    and isinstance(x.left, ast.Attribute) and x.left.attr == attr:
                return x.left.value
            return None
        for (a, b) in (('real', 'imag'), ('imag', 'real')):
            u, v = part(e.left, a), part(e.right, b)
            if u is not None and v is not None and _norm(u) == _norm(v):
                return u
    return None


def _sumsq_of(e):
    """`(W**2).sum()`, `(W*W).sum()`, `np.sum(W**2)`, `np.sum(W*W)` (a `dtype=` keyword allowed), `np.vdot(W, W)`,
    `np.dot(W.ravel(), W.ravel())`, `np.linalg.norm(W)**2` -> W; else None"""
    inner = None
    if isinstance(e, ast.Call) and isinstance(e.func, ast.Attribute) and e.func.attr == 'sum' and not e.args \
            and all(k.arg == 'dtype' for k in e.keywords):
        inner = e.func.value
    if isinstance(e, ast.Call) and ast.unparse(e.func) in ('np.sum', 'numpy.sum', 'sum') and len(e.args) == 1 \
            and all(k.arg == 'dtype' for k in e.keywords):
        inner = e.args[0]
    if isinstance(e, ast.Call) and ast.unparse(e.func) in ('np.vdot', 'numpy.vdot', 'np.dot', 'numpy.dot', 'np.inner') and len(e.args) == 2 \
            and not e.keywords and _norm(e.args[0]) == _norm(e.args[1]):
        a = e.args[0]
        if isinstance(a, ast.Call) and isinstance(a.func, ast.Attribute) and a.func.attr in ('ravel', 'flatten') and not a.args:
            return a.func.value
        return a if ast.unparse(e.func).endswith('vdot') else None
    if isinstance(e, ast.BinOp) and isinstance(e.op, ast.Pow) and isinstance(e.right, ast.Constant) and e.right.value == 2 \
            and isinstance(e.left, ast.Call) and ast.unparse(e.left.func) in ('np.linalg.norm', 'numpy.linalg.norm') and len(e.left.args) == 1 \
            and not e.left.keywords:
        return e.left.args[0]
    if inner is None:
        return None
    if isinstance(inner, ast.BinOp) and isinstance(inner.op, ast.Pow) and isinstance(inner.right, ast.Constant) and inner.right.value == 2:
        return inner.left
    if isinstance(inner, ast.BinOp) and isinstance(inner.op, ast.Mult) and _norm(inner.left) == _norm(inner.right):
        return inner.left
    return None


def _replace(e, pred, make):
    """copy of `e` in which every maximal sub-expression with pred(sub) is not None is replaced by make(sub, pred(sub))"""
    import copy

    class R(ast.NodeTransformer):
        def generic_visit(self, node):
            return super().generic_visit(node)

        def visit(self, node):
            if isinstance(node, ast.expr):
                hit = pred(node)
                if hit is not None:
                    return make(node, hit)
            return super().visit(node)
    return R().visit(copy.deepcopy(e))


_PSD_CACHE = {}


def _psd_analysis(fn):
    """last-definition dataflow of `psd(height, dx, window)`: what the function RETURNS, written over its parameters.
    -> dict(pre, post, power_term_expr, W_transform, W_s2, ux, uy)"""
    key = ast.dump(fn)
    if key in _PSD_CACHE:
        r = _PSD_CACHE[key]
        if isinstance(r, Exception):
            raise r
        return r
    try:
        r = _psd_analysis_(fn)
    except Untranslatable as ex:
        _PSD_CACHE[key] = ex
        raise
    _PSD_CACHE[key] = r
    return r


def _psd_parts(ret):
    """structure of the returned 3-tuple -> dict(pre, post, power, Wt, Ws, D, ux, uy)"""
    ux, uy, pw = ret.elts
    spectra, windows = [], []

    def mk_p(node, X):
        spectra.append(X)
        return ast.Name(id='P__', ctx=ast.Load())

    def mk_s(node, W):
        windows.append(W)
        return ast.Name(id='S2__', ctx=ast.Load())
    pw2 = _replace(pw, _power_of, mk_p)
    pw2 = _replace(pw2, _sumsq_of, mk_s)
    if not spectra:
        raise Untranslatable(f'no |spectrum|^2 in the returned power: {ast.unparse(pw)[:70]}')
    if len({_norm(x) for x in spectra}) != 1:
        raise Untranslatable('two different spectra in the returned power')
    if len({_norm(x) for x in windows}) > 1:
        raise Untranslatable('two different sum-of-squares in the returned power')
    X = spectra[0]
    post, inner = _rot_call(X)
    if not (isinstance(inner, ast.Call) and _callee(inner) == 'fft2' and len(inner.args) == 1 and not inner.keywords):
        raise Untranslatable(f'spectrum is not rot(fft2(..)): {ast.unparse(X)[:60]}')
    pre, D = _rot_call(inner.args[0])
    if not (isinstance(D, ast.BinOp) and isinstance(D.op, ast.Mult)):
        raise Untranslatable(f'transform input is {ast.unparse(D)[:40]}')
    return {'pre': pre, 'post': post, 'power': pw2, 'D': D, 'Ws': windows[0] if windows else None, 'ux': ux, 'uy': uy}


def _psd_analysis_(fn):
    ssa = _SSA()
    ssa.run(fn.body)
    if not (isinstance(ssa.ret, ast.Tuple) and len(ssa.ret.elts) == 3):
        raise Untranslatable('psd does not return a 3-tuple')
    a = _psd_parts(_strip_casts(ssa.ret))            # VALUES: conversions looked through
    D = a['D']
    if _norm(D.left) == 'height':
        a['Wt'] = D.right
    elif _norm(D.right) == 'height':
        a['Wt'] = D.left
    else:
        raise Untranslatable(f'transform input is {ast.unparse(D)[:40]}')
    try:
        a['raw'] = _psd_parts(ssa.ret)                # the same with the conversions left in (for the floating-point fact)
    except Untranslatable:
        a['raw'] = None
    return a


def _axis_call(e):
    """`forward_ft_unit(dx, height.shape[k])` (positional / keyword, shift=True allowed) -> k ; else Untranslatable"""
    if not (isinstance(e, ast.Call) and _callee(e) == 'forward_ft_unit'):
        raise Untranslatable(f'axis is {ast.unparse(e)[:50]}')
    b = _bind(e, ['dx', 'samples', 'shift'])
    if 'shift' in b and not (isinstance(b['shift'], ast.Constant) and b['shift'].value is True):
        raise Untranslatable('forward_ft_unit called with shift != True')
    if 'dx' not in b or 'samples' not in b or _norm(b['dx']) != 'dx':
        raise Untranslatable(f'axis is {ast.unparse(e)[:50]}')
    a = b['samples']
    if not (isinstance(a, ast.Subscript) and _norm(a.value) in ('height.shape', 'np.shape(height)') and isinstance(a.slice, ast.Constant)
            and a.slice.value in (0, 1, -1, -2)):
        raise Untranslatable(f'axis length is {ast.unparse(a)[:40]}')
    return a.slice.value % 2


# --------------------------------------------------------------------------------------------------
# bandlimited_rms: symbolic reading of the points that define the integration steps
# --------------------------------------------------------------------------------------------------
def _is_ndim2(test):
    return ast.unparse(test).replace(' ', '') in ('r.ndim==2', '2==r.ndim', 'psd.ndim==2', 'work.ndim==2')


def _centre_expr(e):
    """`tuple(s//2 for s in X.shape)` (or a list comprehension) -> the element expression `s//2` and the loop name"""
    if isinstance(e, ast.Call) and ast.unparse(e.func) in ('tuple', 'list') and len(e.args) == 1:
        e = e.args[0]
    if isinstance(e, (ast.GeneratorExp, ast.ListComp)) and len(e.generators) == 1 and not e.generators[0].ifs:
        g = e.generators[0]
        if isinstance(g.target, ast.Name) and ast.unparse(g.iter) in ('work.shape', 'r.shape', 'psd.shape'):
            return e.elt, g.target.id
    return None, None


class _Points:
    """mini interpreter for the 2-D branch: name -> per-axis offset vector relative to the centre index"""

    def __init__(self):
        self.idx = {}      # name -> [o0, o1]   (index tuples / lists)
        self.pts = {}      # name -> [o0, o1]   (values r[idx])
        self.centre_elt = None

    def index_of(self, e):
        """an index expression of the 2-D branch -> [offset along axis 0, offset along axis 1] relative to the centre sample.
        Tuple ARITHMETIC is evaluated symbolically: literals `(c[0] - 1, c[1])`, slices `c[1:]`, `c[:1]`, concatenation `a + b`,
        `tuple(..)` / `list(..)`; every component is `centre[k] + const`"""
        t = self._tuple(e)
        if len(t) != 2 or [k for k, _ in t] != [0, 1]:
            raise Untranslatable(f'index expression {ast.unparse(e)[:50]} does not address (axis 0, axis 1)')
        return [o for _, o in t]

    def _tuple(self, e):
        if isinstance(e, ast.Name) and e.id in self.idx:
            return [(k, o) for k, o in enumerate(self.idx[e.id])]
        if isinstance(e, ast.Call) and ast.unparse(e.func) in ('tuple', 'list') and len(e.args) == 1 \
                and not isinstance(e.args[0], (ast.GeneratorExp, ast.ListComp)):
            return self._tuple(e.args[0])
        elt, var = _centre_expr(e)
        if elt is not None:
            if self.centre_elt is None:
                self.centre_elt = (elt, var)
            elif ast.unparse(elt) != ast.unparse(self.centre_elt[0]):
                raise Untranslatable('two different centre expressions')
            return [(0, 0), (1, 0)]
        if isinstance(e, (ast.Tuple, ast.List)):
            out = []
            for el in e.elts:          # `(c[0] - 1, *c[1:])`: a starred element splices a (slice of a) tuple in
                if isinstance(el, ast.Starred):
                    out += self._tuple(el.value)
                else:
                    out.append(self._elem(el))
            return out
        if isinstance(e, ast.BinOp) and isinstance(e.op, ast.Add):
            return self._tuple(e.left) + self._tuple(e.right)
        if isinstance(e, ast.Subscript) and isinstance(e.slice, ast.Slice) and e.slice.step is None:
            def bound(b):
                if b is None:
                    return None
                if isinstance(b, ast.Constant) and isinstance(b.value, int):
                    return b.value
                if isinstance(b, ast.UnaryOp) and isinstance(b.op, ast.USub) and isinstance(b.operand, ast.Constant):
                    return -b.operand.value
                raise Untranslatable(f'slice bound {ast.unparse(b)}')
            return self._tuple(e.value)[bound(e.slice.lower):bound(e.slice.upper)]
        raise Untranslatable(f'index expression {ast.unparse(e)[:50]}')

    def _elem(self, el):
        """`X[k]`, `X[k] - 1`, `X[k] + 1`, `1 + X[k]` -> (axis k, offset)"""
        def base(b):
            if isinstance(b, ast.Subscript) and not isinstance(b.slice, ast.Slice):
                t = self._tuple(b.value)
                k = b.slice
                if isinstance(k, ast.UnaryOp) and isinstance(k.op, ast.USub) and isinstance(k.operand, ast.Constant):
                    k = ast.Constant(value=-k.operand.value)
                if isinstance(k, ast.Constant) and isinstance(k.value, int) and -len(t) <= k.value < len(t):
                    return t[k.value]
            raise Untranslatable(f'index component {ast.unparse(el)[:40]}')
        if isinstance(el, ast.BinOp) and isinstance(el.op, (ast.Sub, ast.Add)):
            if isinstance(el.right, ast.Constant) and isinstance(el.right.value, int):
                k, o = base(el.left)
                return (k, o + (el.right.value if isinstance(el.op, ast.Add) else -el.right.value))
            if isinstance(el.op, ast.Add) and isinstance(el.left, ast.Constant) and isinstance(el.left.value, int):
                k, o = base(el.right)
                return (k, o + el.left.value)
        return base(el)

    def _component(self, el, k):
        """`X[k]`, `X[k] - 1`, `X[k] + 1` -> offset of component k"""
        def base(b):
            if isinstance(b, ast.Subscript) and isinstance(b.value, ast.Name) and b.value.id in self.idx \
                    and isinstance(b.slice, ast.Constant) and b.slice.value == k:
                return self.idx[b.value.id][k]
            raise Untranslatable(f'index component {ast.unparse(el)[:40]}')
        if isinstance(el, ast.BinOp) and isinstance(el.op, (ast.Sub, ast.Add)) and isinstance(el.right, ast.Constant) \
                and isinstance(el.right.value, int):
            d = el.right.value if isinstance(el.op, ast.Add) else -el.right.value
            return base(el.left) + d
        return base(el)

    def run(self, stmts):
        for st in stmts:
            if isinstance(st, ast.Expr) and isinstance(st.value, ast.Constant):
                continue
            if isinstance(st, ast.AugAssign) and isinstance(st.target, ast.Subscript) \
                    and isinstance(st.op, (ast.Sub, ast.Add)):
                st = ast.Assign(targets=[st.target], value=ast.BinOp(left=st.target, op=st.op, right=st.value))
            if not (isinstance(st, ast.Assign) and len(st.targets) == 1):
                raise Untranslatable(f'statement in the 2-D branch: {ast.unparse(st)[:50]}')
            t, v = st.targets[0], st.value
            if isinstance(t, ast.Name):
                # a point r[idx] ?
                if isinstance(v, ast.Subscript) and ast.unparse(v.value) == 'r':
                    self.pts[t.id] = self.index_of(v.slice)
                    continue
                if isinstance(v, ast.Name) and v.id in self.pts:
                    self.pts[t.id] = list(self.pts[v.id])
                    continue
                self.idx[t.id] = self.index_of(v)
                continue
            if isinstance(t, ast.Subscript) and isinstance(t.value, ast.Name) and t.value.id in self.idx \
                    and isinstance(t.slice, ast.Constant) and t.slice.value in (0, 1):
                k = t.slice.value
                self.idx[t.value.id][k] = self._component(v, k)
                continue
            raise Untranslatable(f'statement in the 2-D branch: {ast.unparse(st)[:50]}')


def _brms_analysis(fn):
    """-> dict(calls=[{'axis':int,'step_axis':int,'lag':int,'arg':str,'callee':str}], centre=(elt,var))"""
    body = fn.body
    pts = _Points()
    seen_branch = False
    step_defs = {}      # name -> (A, B) for  name = abs(A - B)
    calls = []

    def note_assign(st):
        if isinstance(st, ast.Assign) and len(st.targets) == 1 and isinstance(st.targets[0], ast.Name):
            v = st.value
            if isinstance(v, ast.Call) and ast.unparse(v.func) in ('abs', 'np.abs', 'np.fabs') and len(v.args) == 1 \
                    and isinstance(v.args[0], ast.BinOp) and isinstance(v.args[0].op, ast.Sub) \
                    and isinstance(v.args[0].left, ast.Name) and isinstance(v.args[0].right, ast.Name):
                step_defs[st.targets[0].id] = (v.args[0].left.id, v.args[0].right.id)

    def note_calls(st):
        for c in sorted([n for n in ast.walk(st) if isinstance(n, ast.Call)], key=lambda n: (n.lineno, n.col_offset)):
            kws = {k.arg: k.value for k in c.keywords}
            if 'dx' in kws and 'axis' in kws and c.args:
                if not isinstance(kws['dx'], ast.Name):
                    raise Untranslatable('integration step is not a plain name')
                if not (isinstance(kws['axis'], ast.Constant) and isinstance(kws['axis'].value, int)):
                    raise Untranslatable('axis= is not an integer literal')
                name = kws['dx'].id
                if name not in step_defs:
                    raise Untranslatable(f'step {name} is not abs(p - q)')
                a, b = step_defs[name]
                if a not in pts.pts or b not in pts.pts:
                    raise Untranslatable(f'step {name}: points {a},{b} not read from r in the 2-D branch')
                d = [x - y for x, y in zip(pts.pts[a], pts.pts[b])]
                nz = [k for k in (0, 1) if d[k] != 0]
                if len(nz) != 1:
                    raise Untranslatable(f'step {name} is not measured along one axis: {d}')
                calls.append({'axis': kws['axis'].value, 'step_axis': nz[0], 'lag': d[nz[0]],
                              'arg': ast.unparse(c.args[0]), 'callee': ast.unparse(c.func),
                              'target': None})

    for st in body:
        if isinstance(st, ast.If) and _is_ndim2(st.test):
            if not seen_branch:
                # first `if r.ndim == 2`: the points (run once); may also contain steps / calls
                seen_branch = True
                plain = []
                for s2 in st.body:
                    is_step = isinstance(s2, ast.Assign) and isinstance(s2.value, ast.Call) \
                        and ast.unparse(s2.value.func) in ('abs', 'np.abs', 'np.fabs')
                    has_call = any(isinstance(n, ast.Call) and any(k.arg == 'dx' for k in n.keywords) for n in ast.walk(s2))
                    if is_step or has_call:
                        note_assign(s2)
                        note_calls(s2)
                    else:
                        plain.append(s2)
                pts.run(plain)
            else:
                for s2 in st.body:
                    note_assign(s2)
                    note_calls(s2)
        else:
            note_assign(st)
            if not isinstance(st, (ast.If, ast.For, ast.While)):
                note_calls(st)
    if not seen_branch:
        raise Untranslatable('no `if r.ndim == 2` branch')
    if not calls:
        raise Untranslatable('no integration call with dx= and axis= found')
    return {'calls': calls, 'centre': pts.centre_elt}


def _integrator_portable(fn):
    """True  = every integration callee is a local name bound to np.trapezoid when the backend has it and to
               np.trapz otherwise;
       False = the callee is a fixed attribute (`np.trapz` / `np.trapezoid`) of the backend;
       Untranslatable = something else."""
    info = _brms_analysis(fn)
    callees = sorted({c['callee'] for c in info['calls']})
    verdicts = []
    for callee in callees:
        if callee in ('np.trapz', 'np.trapezoid', 'numpy.trapz', 'numpy.trapezoid'):
            verdicts.append(False)
            continue
        if '.' in callee:
            raise Untranslatable(f'integrator {callee}')
        ok = False
        for n in ast.walk(fn):
            # if hasattr(np, 'trapezoid'): X = np.trapezoid  else: X = np.trapz
            if isinstance(n, ast.If) and ast.unparse(n.test) == "hasattr(np, 'trapezoid')" and len(n.body) == 1 \
                    and len(n.orelse) == 1:
                if ast.unparse(n.body[0]) == f'{callee} = np.trapezoid' and ast.unparse(n.orelse[0]) == f'{callee} = np.trapz':
                    ok = True
            # X = getattr(np, 'trapezoid', None) or np.trapz
            if isinstance(n, ast.Assign) and ast.unparse(n.targets[0]) == callee \
                    and ast.unparse(n.value) == "getattr(np, 'trapezoid', None) or np.trapz":
                ok = True
            # X = np.trapezoid if hasattr(np, 'trapezoid') else np.trapz
            if isinstance(n, ast.Assign) and ast.unparse(n.targets[0]) == callee \
                    and ast.unparse(n.value) == "np.trapezoid if hasattr(np, 'trapezoid') else np.trapz":
                ok = True
            # try: X = np.trapezoid  except AttributeError: X = np.trapz
            if isinstance(n, ast.Try) and len(n.body) == 1 and len(n.handlers) == 1 \
                    and ast.unparse(n.body[0]) == f'{callee} = np.trapezoid' \
                    and n.handlers[0].type is not None and ast.unparse(n.handlers[0].type) == 'AttributeError' \
                    and len(n.handlers[0].body) == 1 and ast.unparse(n.handlers[0].body[0]) == f'{callee} = np.trapz':
                ok = True
        if not ok:
            raise Untranslatable(f'integrator {callee}: binding not recognised')
        verdicts.append(True)
    return all(verdicts)


class _Raises(Exception):
    """the symbolic execution of the argument handling reached a `raise`"""


def _brms_1d(fn):
    """the `r.ndim != 2` branch: -> (centre expression node, lag of the step's second point relative to the centre)"""
    branch = None
    for st in fn.body:
        if isinstance(st, ast.If) and _is_ndim2(st.test) and st.orelse:
            branch = st.orelse
            break
    if branch is None:
        raise Untranslatable('no else-branch of `if r.ndim == 2` (1-D form)')
    centre = None
    cname = None
    off = {}
    for st in branch:
        if isinstance(st, ast.Expr) and isinstance(st.value, ast.Constant):
            continue
        if not (isinstance(st, ast.Assign) and len(st.targets) == 1 and isinstance(st.targets[0], ast.Name)):
            raise Untranslatable(f'statement in the 1-D branch: {ast.unparse(st)[:50]}')
        nm, v = st.targets[0].id, st.value
        if isinstance(v, ast.Subscript) and ast.unparse(v.value) == 'r':
            ix = v.slice
            if isinstance(ix, ast.Name) and ix.id == cname:
                off[nm] = 0
            elif isinstance(ix, ast.BinOp) and isinstance(ix.op, (ast.Add, ast.Sub)) and isinstance(ix.left, ast.Name) \
                    and ix.left.id == cname and isinstance(ix.right, ast.Constant) and isinstance(ix.right.value, int):
                off[nm] = ix.right.value if isinstance(ix.op, ast.Add) else -ix.right.value
            else:
                raise Untranslatable(f'1-D point {ast.unparse(v)[:40]}')
            continue
        if centre is None:
            centre, cname = v, nm
            continue
        raise Untranslatable(f'statement in the 1-D branch: {ast.unparse(st)[:50]}')
    if centre is None:
        raise Untranslatable('no centre index in the 1-D branch')
    # the step handed to the (first, shared) integration call
    step = None
    for st in fn.body:
        if isinstance(st, ast.Assign) and len(st.targets) == 1 and isinstance(st.targets[0], ast.Name):
            v = st.value
            if isinstance(v, ast.Call) and ast.unparse(v.func) in ('abs', 'np.abs', 'np.fabs') and len(v.args) == 1 \
                    and isinstance(v.args[0], ast.BinOp) and isinstance(v.args[0].op, ast.Sub) \
                    and isinstance(v.args[0].left, ast.Name) and isinstance(v.args[0].right, ast.Name):
                step = (st.targets[0].id, v.args[0].left.id, v.args[0].right.id)
                break
    if step is None:
        raise Untranslatable('no step = abs(p - q) shared by both forms')
    name, p_, q_ = step
    used = False
    for st in fn.body:
        if isinstance(st, ast.If):
            continue
        for c in ast.walk(st):
            if isinstance(c, ast.Call):
                kws = {k.arg: k.value for k in c.keywords}
                if 'dx' in kws and isinstance(kws['dx'], ast.Name) and kws['dx'].id == name:
                    if not ('axis' in kws and isinstance(kws['axis'], ast.Constant) and kws['axis'].value in (0, -1)):
                        raise Untranslatable('1-D integration is not along axis 0')
                    used = True
    if not used or p_ not in off or q_ not in off:
        raise Untranslatable('the 1-D step is not handed to the integration')
    d = off[p_] - off[q_]
    if off[p_] != 0 and off[q_] != 0:
        raise Untranslatable('neither point of the 1-D step is the centre sample')
    lag = off[p_] if off[q_] == 0 else off[q_]
    return centre, lag


def _band_edges(fn, given):
    """symbolic execution of the argument handling of bandlimited_rms for the call pattern in which exactly the
    parameters in `given` (among wllow, wlhigh, flow, fhigh) are not None.  -> (flow_expr, fhigh_expr) ast nodes"""
    env = {k: (ast.Name(id=k) if k in given else None) for k in ('wllow', 'wlhigh', 'flow', 'fhigh')}

    def is_none(e):
        if isinstance(e, ast.Name) and e.id in env:
            return env[e.id] is None
        raise Untranslatable(f'None-test on {ast.unparse(e)[:30]}')

    def test(t):
        if isinstance(t, ast.Compare) and len(t.ops) == 1 and isinstance(t.comparators[0], ast.Constant) \
                and t.comparators[0].value is None:
            if isinstance(t.ops[0], ast.Is):
                return is_none(t.left)
            if isinstance(t.ops[0], ast.IsNot):
                return not is_none(t.left)
        if isinstance(t, ast.BoolOp):
            vals = [test(v) for v in t.values]
            return any(vals) if isinstance(t.op, ast.Or) else all(vals)
        if isinstance(t, ast.UnaryOp) and isinstance(t.op, ast.Not):
            return not test(t.operand)
        raise Untranslatable(f'condition {ast.unparse(t)[:40]}')

    def subst(e):
        """replace band variables by their current symbolic values"""
        class S(ast.NodeTransformer):
            def visit_Name(self, n):
                if n.id in ('flow', 'fhigh') and env[n.id] is not None:
                    return env[n.id]
                return n
        import copy
        return S().visit(copy.deepcopy(e))

    def run(stmts):
        for st in stmts:
            if isinstance(st, ast.Expr):
                continue                                   # docstring, warnings.warn(...)
            if isinstance(st, ast.If):
                try:
                    branch = st.body if test(st.test) else st.orelse
                except Untranslatable:
                    if any(isinstance(n, ast.Name) and n.id in ('flow', 'fhigh') and isinstance(n.ctx, ast.Store)
                           for n in ast.walk(st)):
                        raise
                    continue                               # an if that does not touch the band edges
                if run(branch):
                    return True
                continue
            if isinstance(st, ast.Raise):
                raise _Raises(ast.unparse(st.exc)[:40] if st.exc is not None else 'raise')
            if isinstance(st, ast.Assign) and len(st.targets) == 1 and isinstance(st.targets[0], ast.Name):
                nm = st.targets[0].id
                if nm in ('flow', 'fhigh'):
                    env[nm] = subst(st.value)
                elif nm == 'work':
                    return True                            # argument handling is over
                continue
            if isinstance(st, ast.Return):
                return True
        return False
    run(fn.body)
    if env['flow'] is None or env['fhigh'] is None:
        raise Untranslatable('a band edge is still None when the mask is applied')
    return env['flow'], env['fhigh']


# --------------------------------------------------------------------------------------------------
def generate(repo):
    g = Gen('C13', imports=['PrysmVerif.Num', 'PrysmVerif.Model.C13'],
            header='set_option linter.unusedVariables false')
    ifm, _ = load(repo, 'prysm/interferogram.py')
    utl, _ = load(repo, 'prysm/util.py')
    crd, _ = load(repo, 'prysm/coordinates.py')

    ftm, _ = load(repo, 'prysm/fttools.py')
    rdm, _ = load(repo, 'prysm/_richdata.py')
    _CASTS.clear()
    _CASTS.update(_cast_helpers(ifm))
    _FLOAT_FUNCS.clear()
    for fn_ in ifm.body:
        if isinstance(fn_, ast.FunctionDef) and fn_.name not in _CASTS:
            rets_ = _own_returns(fn_)
            if rets_ and all(_floating_cast_on_top(r_) for r_ in rets_):
                _FLOAT_FUNCS.add(fn_.name)
    _PSD_CACHE.clear()

    # ---- psd: what the function RETURNS, by last-definition dataflow (rebinding / reordering / renaming are followed)
    def psd_rots():
        a = _psd_analysis(get_def(ifm, 'psd'))
        lean = lambda k: ROTS[k] if k else f'{M}.Rot.none'   # noqa: E731
        return (f'def psdPreRot : {M}.Rot := {lean(a["pre"])}\n'
                f'def psdPostRot : {M}.Rot := {lean(a["post"])}')
    g.item('psd.rotations', 'prysm/interferogram.py:psd', lambda: get_def(ifm, 'psd'), psd_rots,
           f'def psdPreRot : {M}.Rot := {M}.Rot.fftshift\ndef psdPostRot : {M}.Rot := {M}.Rot.fftshift')

    # ---- psd: the returned power as a function of P = |spectrum|^2, S2 = sum(window^2) and dx
    def psd_power():
        a = _psd_analysis(get_def(ifm, 'psd'))
        term = Tr({'P__': 'P', 'S2__': 'S2', 'dx': 'dx'}, mode='num').expr(a['power'])
        return f'def psdPower {{K : Type}} [Num K] (P S2 dx : K) : K := {term}'
    g.item('psd.power', 'prysm/interferogram.py:psd', lambda: get_def(ifm, 'psd'), psd_power,
           f'def psdPower {{K : Type}} [Num K] (P S2 dx : K) : K := P / {M}.psdCoef S2 dx')

    def psd_same_window():
        a = _psd_analysis(get_def(ifm, 'psd'))
        if a['Ws'] is None:
            # no sum of squares in the normalisation: recognisably wrong if the window enters it some other way
            # (e.g. `window.sum()`), unknown otherwise
            return False if _norm(a['Wt']) in _norm(a['power']) else None
        return _norm(a['Wt']) == _norm(a['Ws'])
    g.fact('psdWindowSameInTransformAndS2', 'prysm/interferogram.py:psd', psd_same_window)

    def psd_sq_modulus():
        """the returned power is built on |spectrum|^2 (not |spectrum|, not the squared real part)"""
        fn = get_def(ifm, 'psd')
        try:
            _psd_analysis(fn)
            return True
        except Untranslatable:
            pass
        ssa = _SSA()
        ssa.run(fn.body)
        if not (isinstance(ssa.ret, ast.Tuple) and len(ssa.ret.elts) == 3):
            return None
        pw = ssa.ret.elts[2]
        hit = []

        def has_ft(x):
            return any(isinstance(n, ast.Call) and _callee(n) == 'fft2' for n in ast.walk(x))
        for n in ast.walk(pw):
            if isinstance(n, ast.Call) and _norm(n.func) == 'abs' and len(n.args) == 1 and has_ft(n.args[0]):
                hit.append('abs')
            if isinstance(n, ast.Attribute) and n.attr in ('real', 'imag') and has_ft(n.value):
                hit.append(n.attr)
        if hit and not any(_power_of(n) is not None for n in ast.walk(pw) if isinstance(n, ast.expr)):
            return False          # the modulus / one component of the spectrum is there, but not as a squared modulus
        return None
    g.fact('psdPowerIsSquaredModulus', 'prysm/interferogram.py:psd', psd_sq_modulus)

    def psd_float():
        """the arithmetic of psd() is carried out in FLOATING POINT whatever the dtype of the map and of a user window (a 0/1
        boolean aperture, 8-bit weights, raw integer counts are legitimate inputs; products and squares of narrow integer types wrap
        around): the window whose squares are summed has passed a conversion to a floating type, and so has at least one factor of
        height * window.  False = recognisably not (the arrays enter the arithmetic as they were handed over)"""
        a = _psd_analysis(get_def(ifm, 'psd'))
        raw = a['raw']
        if raw is None or raw['Ws'] is None:
            return None

        def from_outside(e):
            # after looking through conversions: the caller's map, or the window made for it (a user array comes back as it is)
            t = _strip_casts(e)
            return _norm(t) == 'height' or (isinstance(t, ast.Call) and _callee(t) == 'make_window')
        ws, dl, dr = raw['Ws'], raw['D'].left, raw['D'].right
        if not all(from_outside(x) for x in (ws, dl, dr)):
            return None
        s2_ok = _floating_cast_on_top(ws)
        prod_ok = _floating_cast_on_top(dl) or _floating_cast_on_top(dr)
        # an accumulator type forced on the sum of squares must be a floating one (`.sum(dtype=np.int64)` truncates)
        ssa = _SSA()
        ssa.run(get_def(ifm, 'psd').body)
        for n in ast.walk(ssa.ret):
            if isinstance(n, ast.Call) and _sumsq_of(n) is not None:
                for k in n.keywords:
                    if k.arg == 'dtype' and ast.unparse(k.value).replace(' ', '').replace('"', "'") not in _FLOATISH:
                        return False
        return s2_ok and prod_ok
    g.fact('psdArithmeticInFloatingPoint', 'prysm/interferogram.py:psd', psd_float)

    def psd_window_source():
        a = _psd_analysis(get_def(ifm, 'psd'))
        W = a['Wt']
        if not (isinstance(W, ast.Call) and _callee(W) == 'make_window'):
            return None
        b = _bind(W, _params(get_def(ifm, 'make_window')))
        if 'signal' not in b or 'dx' not in b:
            return None
        # the window is made for THIS map and spacing, and the caller's `window` argument is what selects it
        return _norm(b['signal']) == 'height' and _norm(b['dx']) == 'dx' and 'which' in b and _norm(b['which']) == 'window'
    g.fact('psdWindowMadeForHeightFromWindowArgument', 'prysm/interferogram.py:psd', psd_window_source)

    # ---- psd: which shape entry feeds which frequency axis, and which output of the broadcast is returned as which axis
    def psd_axes():
        a = _psd_analysis(get_def(ifm, 'psd'))

        def proj(e):
            if isinstance(e, ast.Subscript) and isinstance(e.slice, ast.Constant) and e.slice.value in (0, 1) \
                    and isinstance(e.value, ast.Call) and _callee(e.value) in ('broadcast_1d_to_2d', 'meshgrid'):
                return e.value, e.slice.value
            raise Untranslatable(f'axis is {ast.unparse(e)[:60]}')
        cu, ku = proj(a['ux'])
        cv, kv = proj(a['uy'])
        if _norm(cu) != _norm(cv) or len(cu.args) != 2 or cu.keywords:
            raise Untranslatable('the two axes do not come from one broadcast of two 1-D axes')
        ax = [_axis_call(cu.args[0]), _axis_call(cu.args[1])]
        return (f'def psdUxShapeAxis : Nat := {ax[ku]}\n'
                f'def psdUyShapeAxis : Nat := {ax[kv]}\n'
                f'def psdUxBroadcastSlot : Nat := {ku}\n'
                f'def psdUyBroadcastSlot : Nat := {kv}')
    g.item('psd.axes', 'prysm/interferogram.py:psd', lambda: get_def(ifm, 'psd'), psd_axes,
           'def psdUxShapeAxis : Nat := 1\ndef psdUyShapeAxis : Nat := 0\n'
           'def psdUxBroadcastSlot : Nat := 0\ndef psdUyBroadcastSlot : Nat := 1')

    # ---- fttools.forward_ft_unit(dx, samples, shift=True): rotation applied to fftfreq(samples, dx)
    def ft_unit():
        fn = get_def(ftm, 'forward_ft_unit')
        ps = _params(fn)
        if ps[:2] != ['dx', 'samples'] or 'shift' not in ps:
            raise Untranslatable(f'forward_ft_unit parameters {ps}')
        dflt = fn.args.defaults[-1] if fn.args.defaults else None
        if not (ps[-1] == 'shift' and isinstance(dflt, ast.Constant) and dflt.value is True):
            raise Untranslatable('shift does not default to True')
        ssa = _SSA(consts={'shift': True})
        ssa.run(fn.body)
        rot, inner = _rot_call(ssa.ret)
        if not (isinstance(inner, ast.Call) and _callee(inner) == 'fftfreq'):
            raise Untranslatable(f'forward_ft_unit returns {ast.unparse(ssa.ret)[:50]}')
        b = _bind(inner, ['n', 'd'])
        if 'n' not in b or 'd' not in b:
            raise Untranslatable('fftfreq call')
        order = (_norm(b['n']), _norm(b['d']))
        if order == ('samples', 'dx'):
            ok = 'true'
        elif order == ('dx', 'samples'):
            ok = 'false'
        else:
            raise Untranslatable(f'fftfreq({order[0]}, {order[1]})')
        lean = ROTS[rot] if rot else f'{M}.Rot.none'
        return (f'def axisRot : {M}.Rot := {lean}\n'
                f'def axisFftfreqCountThenSpacing : Bool := {ok}')
    g.item('forward_ft_unit', 'prysm/fttools.py:forward_ft_unit', lambda: get_def(ftm, 'forward_ft_unit'), ft_unit,
           f'def axisRot : {M}.Rot := {M}.Rot.fftshift\ndef axisFftfreqCountThenSpacing : Bool := true')

    def b1d2d():
        fn = get_def(crd, 'broadcast_1d_to_2d')
        if _params(fn) != ['x', 'y']:
            return None
        ssa = _SSA()
        ssa.run(fn.body)
        if not (isinstance(ssa.ret, ast.Tuple) and len(ssa.ret.elts) == 2):
            return None
        sz = lambda v: (f'{v}.size', f'len({v})', f'{v}.shape[0]')   # noqa: E731
        rows_y = {f'({a},{b})' for a in sz('y') for b in sz('x')}       # shape (y.size, x.size)
        rows_x = {f'({a},{b})' for a in sz('x') for b in sz('y')}       # shape (x.size, y.size)
        bc = ('np.broadcast_to', 'numpy.broadcast_to')
        XX = {f'{f}(x,{shp})' for f in bc for shp in rows_y} | {f'{f}(x[None,:],{shp})' for f in bc for shp in rows_y} \
            | {f'{f}(x[np.newaxis,:],{shp})' for f in bc for shp in rows_y}
        YY = {f'{f}(y,{shp}).T' for f in bc for shp in rows_x} | {f'{f}(y[:,None],{shp})' for f in bc for shp in rows_y} \
            | {f'{f}(y[:,np.newaxis],{shp})' for f in bc for shp in rows_y}
        # recognisably wrong: y not transposed (varies along columns), or the two results swapped
        YY_bad = {f'{f}(y,{shp})' for f in bc for shp in rows_x | rows_y}
        e0, e1 = (_norm(e) for e in ssa.ret.elts)
        if e0 in XX and e1 in YY:
            return True
        if (e0 in YY and e1 in XX) or (e0 in XX and e1 in YY_bad):
            return False
        return None
    g.fact('broadcastXAlongRowsYAlongColumns', 'prysm/coordinates.py:broadcast_1d_to_2d', b1d2d)

    # ---- bandlimited_rms
    def brms_steps():
        fn = get_def(ifm, 'bandlimited_rms')
        info = _brms_analysis(fn)
        calls = info['calls']
        k = len(calls)
        # data flow: call 0 integrates `work`, call j>0 integrates the result of the previous one
        tgt = []
        for st in _stmts(fn):
            if isinstance(st, ast.Assign) and isinstance(st.value, ast.Call) and any(kw.arg == 'dx' for kw in st.value.keywords):
                tgt.append(ast.unparse(st.targets[0]))
        if len(tgt) != k:
            raise Untranslatable('integration results are not plain assignments')
        if calls[0]['arg'] != 'work' or any(calls[j]['arg'] != tgt[j - 1] for j in range(1, k)):
            raise Untranslatable('integration calls are not chained work -> reduced -> reduced')

        def table(key):
            arms = ''.join(f'  | {j} => {calls[j][key]}\n' for j in range(k))
            return arms
        txt = f'def brmsIntegrations : Nat := {k}\n'
        txt += 'def brmsIntAxis : Nat → Nat\n' + table('axis') + '  | _ => 0\n'
        txt += 'def brmsStepAxis : Nat → Nat\n' + table('step_axis') + '  | _ => 0\n'
        txt += 'def brmsStepLag : Nat → Int\n' + ''.join(f'  | {j} => ({calls[j]["lag"]} : Int)\n' for j in range(k)) + '  | _ => 0\n'
        return txt
    g.item('bandlimited_rms.steps', 'prysm/interferogram.py:bandlimited_rms', lambda: get_def(ifm, 'bandlimited_rms'),
           brms_steps,
           'def brmsIntegrations : Nat := 2\n'
           'def brmsIntAxis : Nat → Nat\n  | _ => 0\n'
           'def brmsStepAxis : Nat → Nat\n  | 0 => 0\n  | 1 => 1\n  | _ => 0\n'
           'def brmsStepLag : Nat → Int\n  | 0 => -1\n  | 1 => -1\n  | _ => 0\n')

    def brms_returns_sqrt():
        """bandlimited_rms returns the square ROOT of the (last) integral; and it integrates a COPY of the caller's PSD"""
        fn = get_def(ifm, 'bandlimited_rms')
        tgt = [ast.unparse(st.targets[0]) for st in _stmts(fn)
               if isinstance(st, ast.Assign) and isinstance(st.value, ast.Call) and any(kw.arg == 'dx' for kw in st.value.keywords)]
        rets = find_returns(fn)
        if not tgt or len(rets) != 1:
            return None
        t = ast.unparse(rets[0]).replace(' ', '')
        X = tgt[-1]
        if t in (f'np.sqrt({X})', f'{X}**0.5', f'math.sqrt({X})', f'np.sqrt(abs({X}))', f'float(np.sqrt({X}))'):
            ok = True
        elif t in (X, f'float({X})', f'{X}**2', f'np.sqrt({X})**2'):
            return False
        else:
            return None
        w = find_assigns(fn, 'work')
        if len(w) != 1:
            return None
        wt = ast.unparse(w[0]).replace(' ', '')
        if wt in ('psd.copy()', 'np.copy(psd)', 'np.array(psd)', 'np.array(psd,copy=True)', 'psd*1', 'psd+0', 'psd.astype(float)'):
            return ok
        may_alias = wt == 'psd' or (isinstance(w[0], ast.Call) and ast.unparse(w[0].func) in ('np.asarray', 'np.asanyarray', 'numpy.asarray')
                                      and w[0].args and ast.unparse(w[0].args[0]) == 'psd')
        if may_alias and any(isinstance(st, ast.Assign) and isinstance(st.targets[0], ast.Subscript)
                             and ast.unparse(st.targets[0].value) == 'work' for st in _stmts(fn)):
            return False          # masked writes go into the caller's array (np.asarray returns its argument when no conversion is needed)
        return None
    g.fact('brmsReturnsSqrtOfIntegralOfACopy', 'prysm/interferogram.py:bandlimited_rms', brms_returns_sqrt)

    def brms_float():
        """bandlimited_rms masks and integrates a FLOATING-POINT array whatever dtype the caller's PSD has (the trapezoid rule adds
        neighbouring samples: in a boolean / narrow integer type that wraps around)"""
        fn = get_def(ifm, 'bandlimited_rms')
        w = find_assigns(fn, 'work')
        if len(w) != 1:
            return None
        wline = [st.lineno for st in _stmts(fn) if isinstance(st, ast.Assign) and st.value is w[0]][0]
        # the value of `psd` when `work` is made: follow rebindings of the parameter above that line
        cur = ast.Name(id='psd', ctx=ast.Load())
        floating = False
        for st in fn.body:
            if st.lineno >= wline:
                break
            if isinstance(st, ast.Assign) and len(st.targets) == 1 and isinstance(st.targets[0], ast.Name) and st.targets[0].id == 'psd':
                if _norm(_strip_casts(st.value)) != 'psd':
                    return None
                floating = floating or _floating_cast_on_top(st.value)
        v = w[0]
        inner = v.func.value if (isinstance(v, ast.Call) and isinstance(v.func, ast.Attribute) and v.func.attr == 'copy' and not v.args) else v
        if _norm(_strip_casts(inner)) != 'psd':
            return None
        return floating or _floating_cast_on_top(inner)
    g.fact('brmsWorksInFloatingPoint', 'prysm/interferogram.py:bandlimited_rms', brms_float)

    def brms_centre():
        fn = get_def(ifm, 'bandlimited_rms')
        info = _brms_analysis(fn)
        if info['centre'] is None:
            raise Untranslatable('no centre expression')
        elt, var = info['centre']
        return f'def brmsCentre (s : Int) : Int := {Tr({var: "s"}).expr(elt)}'
    g.item('bandlimited_rms.centre', 'prysm/interferogram.py:bandlimited_rms', lambda: get_def(ifm, 'bandlimited_rms'),
           brms_centre, 'def brmsCentre (s : Int) : Int := s / 2')

    def brms_mask():
        fn = get_def(ifm, 'bandlimited_rms')
        w = find_assigns(fn, 'work')
        if not (len(w) == 1 and ast.unparse(w[0]) == 'psd.copy()'):
            raise Untranslatable('work is not psd.copy()')
        kinds = {ast.Lt: 'lt', ast.LtE: 'le', ast.Gt: 'gt', ast.GtE: 'ge'}
        found = {}
        writes = [st for st in _stmts(fn) if isinstance(st, ast.Assign) and isinstance(st.targets[0], ast.Subscript)
                  and ast.unparse(st.targets[0].value) == 'work']
        if len(writes) != 2:
            raise Untranslatable(f'{len(writes)} masked writes to work')
        for st in writes:
            t = st.targets[0].slice
            if not (isinstance(st.value, ast.Constant) and st.value.value == 0):
                raise Untranslatable('masked samples are not set to 0')
            if not (isinstance(t, ast.Compare) and len(t.ops) == 1 and type(t.ops[0]) in kinds
                    and ast.unparse(t.left) == 'r' and ast.unparse(t.comparators[0]) in ('flow', 'fhigh')):
                raise Untranslatable(f'mask {ast.unparse(t)[:40]}')
            found[ast.unparse(t.comparators[0])] = kinds[type(t.ops[0])]
        if set(found) != {'flow', 'fhigh'}:
            raise Untranslatable('mask does not use both band edges')
        return (f'def brmsLowCmp : {M}.Cmp := {M}.Cmp.{found["flow"]}\n'
                f'def brmsHighCmp : {M}.Cmp := {M}.Cmp.{found["fhigh"]}')
    g.item('bandlimited_rms.mask', 'prysm/interferogram.py:bandlimited_rms', lambda: get_def(ifm, 'bandlimited_rms'),
           brms_mask, f'def brmsLowCmp : {M}.Cmp := {M}.Cmp.lt\ndef brmsHighCmp : {M}.Cmp := {M}.Cmp.gt')

    def brms_integrator():
        fn = get_def(ifm, 'bandlimited_rms')
        return f'def brmsIntegratorPortable : Bool := {"true" if _integrator_portable(fn) else "false"}'
    g.item('bandlimited_rms.integrator', 'prysm/interferogram.py:bandlimited_rms',
           lambda: get_def(ifm, 'bandlimited_rms'), brms_integrator, 'def brmsIntegratorPortable : Bool := true')

    def brms_band():
        fn = get_def(ifm, 'bandlimited_rms')
        pats = [('PeriodLow', ('wllow',)), ('PeriodHigh', ('wlhigh',)), ('PeriodBoth', ('wllow', 'wlhigh')),
                ('FreqLow', ('flow',)), ('FreqHigh', ('fhigh',)), ('FreqBoth', ('flow', 'fhigh')),
                ('MixedPeriodUpFreqLow', ('wllow', 'flow')), ('MixedPeriodLowFreqUp', ('wlhigh', 'fhigh'))]
        txt = ''
        for name, given in pats:
            try:
                lo, hi = _band_edges(fn, given)
            except _Raises as ex:
                raise Untranslatable(f'call pattern {given} raises {ex}')
            env = {k: k for k in given}
            env.update({'default_max': 'dmax', 'r.max()': 'dmax'})
            tr = Tr(env, mode='rat')
            binders = ' '.join(f'({k} : Rat)' for k in given) + ' (dmax : Rat)'
            txt += f'def brmsBand{name} {binders} : Rat × Rat := ({tr.expr(lo)}, {tr.expr(hi)})\n'
        return txt
    g.item('bandlimited_rms.band', 'prysm/interferogram.py:bandlimited_rms', lambda: get_def(ifm, 'bandlimited_rms'),
           brms_band,
           'def brmsBandPeriodLow (wllow : Rat) (dmax : Rat) : Rat × Rat := (0, 1 / wllow)\n'
           'def brmsBandPeriodHigh (wlhigh : Rat) (dmax : Rat) : Rat × Rat := (1 / wlhigh, dmax)\n'
           'def brmsBandPeriodBoth (wllow : Rat) (wlhigh : Rat) (dmax : Rat) : Rat × Rat := (1 / wlhigh, 1 / wllow)\n'
           'def brmsBandFreqLow (flow : Rat) (dmax : Rat) : Rat × Rat := (flow, dmax)\n'
           'def brmsBandFreqHigh (fhigh : Rat) (dmax : Rat) : Rat × Rat := (0, fhigh)\n'
           'def brmsBandFreqBoth (flow : Rat) (fhigh : Rat) (dmax : Rat) : Rat × Rat := (flow, fhigh)\n'
           'def brmsBandMixedPeriodUpFreqLow (wllow : Rat) (flow : Rat) (dmax : Rat) : Rat × Rat := (flow, 1 / wllow)\n'
           'def brmsBandMixedPeriodLowFreqUp (wlhigh : Rat) (fhigh : Rat) (dmax : Rat) : Rat × Rat := (1 / wlhigh, fhigh)\n')

    def brms_band_none():
        """a call that names no band edge at all: the argument handling must reach a `raise ValueError`"""
        fn = get_def(ifm, 'bandlimited_rms')
        try:
            _band_edges(fn, ())
        except _Raises as ex:
            return True if 'ValueError' in str(ex) else None
        except Untranslatable as ex:
            # `a band edge is still None when the mask is applied` = fell through without raising: recognised and wrong
            return False if 'still None' in str(ex) else None
        return False
    g.fact('brmsNoBandGivenRaisesValueError', 'prysm/interferogram.py:bandlimited_rms', brms_band_none)

    def brms_steps_1d():
        fn = get_def(ifm, 'bandlimited_rms')
        centre, lag = _brms_1d(fn)
        env = {k: 's' for k in ('r.shape[0]', 'psd.shape[0]', 'work.shape[0]', 'len(r)', 'r.size', 'len(psd)', 'psd.size')}
        return (f'def brmsCentre1D (s : Int) : Int := {Tr(env).expr(centre)}\n'
                f'def brmsStepLag1D : Int := {lean_int(lag)}')
    g.item('bandlimited_rms.steps1d', 'prysm/interferogram.py:bandlimited_rms', lambda: get_def(ifm, 'bandlimited_rms'),
           brms_steps_1d, 'def brmsCentre1D (s : Int) : Int := s / 2\ndef brmsStepLag1D : Int := -1')

    _LOCAL_FN_ALIASES = {}

    def _rms_callee_ok(f):
        """does the callee expression denote prysm.util.rms inside render_synthetic_surface (where the parameter `rms`
        shadows the module-level name)?  True / False (recognisably something else) / None"""
        if isinstance(f, ast.Name) and f.id in _LOCAL_FN_ALIASES and f.id != 'rms':
            return _rms_callee_ok(_LOCAL_FN_ALIASES[f.id])     # `rms_fcn = globals()['rms']` in the same function
        t = ast.unparse(f).replace('"', "'").replace(' ', '')
        if t == "globals()['rms']":
            target = 'rms'
        elif isinstance(f, ast.Name) and f.id != 'rms':
            target = f.id
        elif isinstance(f, ast.Name) and f.id == 'rms':
            return False                      # the float parameter, not the function
        else:
            return None
        # module level: `from .util import ... rms [as target] ...` and nothing else binding the name
        bound = []
        for n in ifm.body:
            if isinstance(n, ast.ImportFrom):
                for al in n.names:
                    if (al.asname or al.name) == target:
                        bound.append((n.module or '', al.name))
            elif isinstance(n, (ast.FunctionDef, ast.ClassDef)) and n.name == target:
                bound.append(('def', n.name))
            elif isinstance(n, ast.Assign) and any(isinstance(t_, ast.Name) and t_.id == target for t_ in n.targets):
                bound.append(('assign', ast.unparse(n.value)))
        if len(bound) != 1:
            return None
        mod, name = bound[0]
        if mod.split('.')[-1] == 'util' and name == 'rms':
            return True
        if mod in ('assign', 'def'):
            return None
        return False

    # ---- render_synthetic_surface: the RMS rescale
    def _synth_update(fn):
        """the statement that rescales z, as an expression over z, the requested `rms` and ZRMS__ (= util.rms(z), wherever that
        call sits: in a local of any name or inline), plus the AST nodes involved -> (expr, scale statement, [rms call nodes])"""
        st = _stmts(fn)
        _LOCAL_FN_ALIASES.clear()
        for x in st:      # single-assignment locals bound to a callee expression (a name or globals()['name'])
            if isinstance(x, ast.Assign) and len(x.targets) == 1 and isinstance(x.targets[0], ast.Name) \
                    and (isinstance(x.value, ast.Name) or ast.unparse(x.value).replace(' ', '').startswith('globals()[')):
                nm = x.targets[0].id
                if sum(1 for y in st if isinstance(y, (ast.Assign, ast.AugAssign)) and nm in
                       [ast.unparse(t_) for t_ in (y.targets if isinstance(y, ast.Assign) else [y.target])]) == 1:
                    _LOCAL_FN_ALIASES[nm] = x.value
        aug = [x for x in st if isinstance(x, ast.AugAssign) and ast.unparse(x.target) == 'z'] + \
              [x for x in st if isinstance(x, ast.Assign) and ast.unparse(x.targets[0]) == 'z' and isinstance(x.value, ast.BinOp)
               and 'z' in (ast.unparse(x.value.left), ast.unparse(x.value.right))]
        if len(aug) != 1:
            raise Untranslatable('z is not rescaled by exactly one statement')
        if isinstance(aug[0], ast.AugAssign):
            upd = ast.BinOp(left=ast.Name(id='z', ctx=ast.Load()), op=aug[0].op, right=aug[0].value)
        else:
            upd = aug[0].value
        # inline the single-assignment locals (scale factor, measured rms, ... whatever they are called), to a fixed point
        origin = {}              # id(call node in the substituted tree) is not stable: remember the defining statements instead
        ssa = _SSA()
        for _round in range(6):
            names = {n.id for n in ast.walk(upd) if isinstance(n, ast.Name)} - {'z', 'rms'}
            env = {}
            for nm in names:
                defs = [x for x in st if isinstance(x, ast.Assign) and len(x.targets) == 1 and isinstance(x.targets[0], ast.Name)
                        and x.targets[0].id == nm]
                if len(defs) == 1:
                    env[nm] = defs[0].value
                    origin[nm] = defs[0]
            if not env:
                break
            ssa.env = env
            upd = ssa.subst(upd)
        calls = []

        def is_rms_call(e):
            if isinstance(e, ast.Call) and len(e.args) == 1 and not e.keywords and ast.unparse(e.args[0]) == 'z' \
                    and _rms_callee_ok(e.func) is True:
                return e
            return None

        def mk(node, hit):
            calls.append(node)
            return ast.Name(id='ZRMS__', ctx=ast.Load())
        full = _replace(upd, is_rms_call, mk)
        # line of the statement in which util.rms(z) is evaluated
        rms_lines = [x.lineno for x in st if isinstance(x, (ast.Assign, ast.AugAssign))
                     and any(is_rms_call(n) is not None for n in ast.walk(x))]
        return full, aug[0], rms_lines

    def synth():
        fn = get_def(ifm, 'render_synthetic_surface')
        full, _aug, _lines = _synth_update(fn)
        free = {n.id for n in ast.walk(full) if isinstance(n, ast.Name)} - {'z', 'rms', 'ZRMS__'}
        if len(free) == 1 and 'ZRMS__' not in {n.id for n in ast.walk(full) if isinstance(n, ast.Name)}:
            (zr,) = free            # a measured rms we cannot see through (not util.rms): translated as an opaque quantity
            env = {'rms': 'rho', zr: 'zrms', 'z': 'z'}
        elif not free:
            env = {'rms': 'rho', 'ZRMS__': 'zrms', 'z': 'z'}
        else:
            raise Untranslatable(f'rescale expression {ast.unparse(full)[:50]}')
        term = Tr(env, mode='num').expr(full)
        return f'def synthRescale {{K : Type}} [Num K] (rho zrms z : K) : K := {term}'
    g.item('render_synthetic_surface.rescale', 'prysm/interferogram.py:render_synthetic_surface',
           lambda: get_def(ifm, 'render_synthetic_surface'), synth,
           f'def synthRescale {{K : Type}} [Num K] (rho zrms z : K) : K := {M}.rescale rho zrms z')

    def synth_order():
        """order of effects in render_synthetic_surface: the mask is written (z[mask == 0] = nan) BEFORE util.rms(z) is evaluated
        (in a local of any name, or inline in the scaling statement), and the surface is scaled with that value"""
        fn = get_def(ifm, 'render_synthetic_surface')
        st = _stmts(fn)
        mask_forms = ('z[mask==0]=np.nan', 'z[mask==0]=nan', 'z[mask==False]=np.nan', 'z[~mask.astype(bool)]=np.nan',
                      'z[np.logical_not(mask)]=np.nan', 'z[mask==0]=float("nan")', "z[mask==0]=float('nan')")
        mask = [s_ for s_ in st if isinstance(s_, ast.Assign) and ast.unparse(s_).replace(' ', '') in mask_forms]
        if any(isinstance(s_, ast.Assign) and ast.unparse(s_).replace(' ', '') in
               ('z[mask!=0]=np.nan', 'z[mask==1]=np.nan', 'z[mask]=np.nan', 'z[mask==True]=np.nan', 'z[mask>0]=np.nan') for s_ in st):
            return False          # the samples INSIDE the mask are invalidated
        if len(mask) != 1:
            return None
        full, aug, rms_lines = _synth_update(fn)
        names = {n.id for n in ast.walk(full) if isinstance(n, ast.Name)}
        if 'ZRMS__' not in names:
            # the surface is not scaled by util.rms(z): recognisably wrong when the denominator is some other norm of z
            # (np.sqrt((z * z).mean()) ignores which samples are valid, the float parameter `rms` is not a function, ...)
            bad = any(isinstance(n, ast.Call) and (_callee(n) in ('sqrt', 'std', 'mean', 'nanstd', 'norm')
                                                    or (len(n.args) == 1 and ast.unparse(n.args[0]) == 'z' and _rms_callee_ok(n.func) is False))
                      for n in ast.walk(full))
            return False if bad else None
        if len(rms_lines) != 1:
            return None
        return mask[0].lineno < rms_lines[0] <= aug.lineno
    g.fact('synthRmsOfMaskedSurfaceThenScale', 'prysm/interferogram.py:render_synthetic_surface', synth_order)

    def util_rms():
        """prysm.util.rms(array) = sqrt(mean(array[finite]**2)), recognised after substituting locals"""
        fn = get_def(utl, 'rms')
        ps = _params(fn)
        if len(ps) != 1:
            return None
        ssa = _SSA()
        ssa.run(fn.body)
        A = ps[0]
        t = _norm(ssa.ret).replace('numpy.', 'np.')
        fin = (f'np.isfinite({A})', f'~np.isnan({A})', f'np.logical_not(np.isnan({A}))')
        sq = lambda x: (f'{x}**2', f'{x}*{x}', f'np.square({x})')      # noqa: E731
        good, nosqrt, nofilter = set(), set(), set()
        for f_ in fin:
            for q in sq(f'{A}[{f_}]'):
                good |= {f'np.sqrt(({q}).mean())', f'np.sqrt(np.mean({q}))', f'np.sqrt({q}.mean())', f'({q}).mean()**0.5',
                         f'math.sqrt(({q}).mean())', f'np.sqrt(np.nanmean({q}))'}
                nosqrt |= {f'({q}).mean()', f'np.mean({q})'}
        for q in sq(A):
            good |= {f'np.sqrt(np.nanmean({q}))'}
            nofilter |= {f'np.sqrt(({q}).mean())', f'np.sqrt(np.mean({q}))'}
        if t in good:
            return True
        if t in nosqrt or t in nofilter:
            return False
        return None
    g.fact('rmsIsSqrtMeanSquareOfFiniteSamples', 'prysm/util.py:rms', util_rms)

    # ---- Interferogram methods delegate to the free functions with matching arguments
    def ifg_psd():
        """Interferogram.psd: (a, b, c) = psd(self.data, self.dx); the returned object carries c as data, a as .x, b as .y"""
        fn = get_def(ifm, 'Interferogram.psd')
        calls = find_calls(fn, 'psd')
        if len(calls) != 1:
            return None
        bnd = _bind(calls[0], _params(get_def(ifm, 'psd')))
        if 'height' not in bnd or 'dx' not in bnd:
            return None
        if 'window' in bnd:
            return None
        tup = [s_ for s_ in _stmts(fn) if isinstance(s_, ast.Assign) and s_.value is calls[0]]
        if not (len(tup) == 1 and isinstance(tup[0].targets[0], ast.Tuple) and len(tup[0].targets[0].elts) == 3
                and all(isinstance(e, ast.Name) for e in tup[0].targets[0].elts)):
            return None
        na, nb, nc = (e.id for e in tup[0].targets[0].elts)
        rets = find_returns(fn)
        if not (len(rets) == 1 and isinstance(rets[0], ast.Name)):
            return None
        obj = rets[0].id
        ctor = [v for v in find_assigns(fn, obj)]
        if not (len(ctor) == 1 and isinstance(ctor[0], ast.Call) and _callee(ctor[0]) == 'RichData'):
            return None
        cb = _bind(ctor[0], ['data', 'dx', 'wavelength'])
        stores = {}
        for s_ in _stmts(fn):
            if isinstance(s_, ast.Assign) and len(s_.targets) == 1 and isinstance(s_.targets[0], ast.Attribute) \
                    and isinstance(s_.targets[0].value, ast.Name) and s_.targets[0].value.id == obj:
                if s_.lineno < tup[0].lineno:
                    return None
                stores.setdefault(s_.targets[0].attr, []).append(ast.unparse(s_.value))
        if 'data' not in cb or any(len(v) != 1 for v in stores.values()) or 'x' not in stores or 'y' not in stores:
            return None
        got = (_norm(bnd['height']), _norm(bnd['dx']), _norm(cb['data']), stores['x'][0], stores['y'][0])
        if got == ('self.data', 'self.dx', nc, na, nb):
            return True
        names = {na, nb, nc, 'self.data', 'self.dx'}
        if all(x in names for x in got):
            return False          # the same ingredients wired differently (x/y swapped, dx for data, ...)
        return None
    g.fact('interferogramPsdDelegates', 'prysm/interferogram.py:Interferogram.psd', ifg_psd)

    def ifg_psd_dx():
        fn = get_def(ifm, 'Interferogram.psd')
        rets = find_returns(fn)
        if not (len(rets) == 1 and isinstance(rets[0], ast.Name)):
            raise Untranslatable('Interferogram.psd does not return a local object')
        obj = rets[0].id
        rhs = [st.value for st in _stmts(fn) if isinstance(st, ast.Assign) and ast.unparse(st.targets[0]) == f'{obj}.dx']
        if len(rhs) != 1:
            raise Untranslatable(f'{obj}.dx assigned more than once / never')
        env = {'self.dx': 'dx', 'self.data.shape[1]': 'n', 'self.shape[1]': 'n', 'self.data.shape[0]': 'm', 'self.shape[0]': 'm'}
        # the spectrum has the shape of the data: whatever local holds it may be asked for its shape as well
        calls = find_calls(fn, 'psd')
        for st in _stmts(fn):
            if isinstance(st, ast.Assign) and calls and st.value is calls[0] and isinstance(st.targets[0], ast.Tuple) \
                    and len(st.targets[0].elts) == 3 and isinstance(st.targets[0].elts[2], ast.Name):
                nm = st.targets[0].elts[2].id
                env.update({f'{nm}.shape[1]': 'n', f'{nm}.shape[0]': 'm'})
        return f'def ifgPsdDx (dx m n : Rat) : Rat := {Tr(env, mode="rat").expr(rhs[0])}'
    g.item('Interferogram.psd.dx', 'prysm/interferogram.py:Interferogram.psd', lambda: get_def(ifm, 'Interferogram.psd'),
           ifg_psd_dx, 'def ifgPsdDx (dx m n : Rat) : Rat := 1 / (n * dx)')

    def ifg_brms():
        """Interferogram.bandlimited_rms: P = self.psd(); bandlimited_rms(r=P.r, psd=P.data, and each band edge under its own name)"""
        fn = get_def(ifm, 'Interferogram.bandlimited_rms')
        calls = find_calls(fn, 'bandlimited_rms')
        if len(calls) != 1:
            return None
        free = _params(get_def(ifm, 'bandlimited_rms'))
        bnd = _bind(calls[0], free)
        src = [nm for nm in {n.id for n in ast.walk(fn) if isinstance(n, ast.Name)}
               if any(ast.unparse(v) == 'self.psd()' for v in find_assigns(fn, nm))]
        if len(src) != 1:
            return None
        P = src[0]
        want = {'r': f'{P}.r', 'psd': f'{P}.data', 'wllow': 'wllow', 'wlhigh': 'wlhigh', 'flow': 'flow', 'fhigh': 'fhigh'}
        if set(bnd) != set(want):
            return False if set(bnd) < set(want) else None          # an edge is not passed on at all
        got = {k: _norm(v) for k, v in bnd.items()}
        if got == want:
            return True
        if all(v in set(want.values()) | {f'{P}.x', f'{P}.y', f'{P}.t'} or isinstance(bnd[k], ast.Constant) for k, v in got.items()):
            return False          # same ingredients wired differently, or an edge replaced by a constant
        return None
    g.fact('interferogramBrmsPassesPsdRAndData', 'prysm/interferogram.py:Interferogram.bandlimited_rms', ifg_brms)

    def ifg_render():
        """Interferogram.render_from_psd hands size, samples, rms, mask, psd_fcn and the model's keyword arguments on, each under
        its own name"""
        fn = get_def(ifm, 'Interferogram.render_from_psd')
        calls = find_calls(fn, 'render_synthetic_surface')
        if len(calls) != 1:
            return None
        c = calls[0]
        bnd = _bind(c, _params(get_def(ifm, 'render_synthetic_surface')))
        star = [ast.unparse(k.value) for k in c.keywords if k.arg is None]
        want = {k: k for k in ('size', 'samples', 'rms', 'mask', 'psd_fcn')}
        got = {k: _norm(v) for k, v in bnd.items()}
        if any(x != 'psd_fcn_kwargs' for x in star):
            return None                                                    # arguments travel in a dict we do not follow
        if any(k in want and (v in want or isinstance(bnd[k], ast.Constant)) and v != k for k, v in got.items()):
            return False                                                   # two arguments crossed / replaced by a constant
        if set(want) - set(got) or not star:
            return False                                                   # an argument / the model's kwargs not passed on
        if all(got[k] == k for k in want):
            return True
        return None
    g.fact('interferogramRenderDelegates', 'prysm/interferogram.py:Interferogram.render_from_psd', ifg_render)

    def tis_elementwise():
        """total_integrated_scatter documents `incident_angle : float or ndarray`: the angle must go through array functions
        (np.cos(np.radians(.)) / np.deg2rad), not through the scalar-only `math` module"""
        fn = get_def(ifm, 'Interferogram.total_integrated_scatter')
        seen = None
        for n in ast.walk(fn):
            if isinstance(n, ast.Call) and any(isinstance(x, ast.Name) and x.id == 'incident_angle' for x in ast.walk(n)):
                mod = ast.unparse(n.func).split('.')[0]
                if mod == 'math':
                    return False
                if mod in ('np', 'numpy'):
                    seen = True
        return seen
    g.fact('tisAngleThroughArrayFunctions', 'prysm/interferogram.py:Interferogram.total_integrated_scatter', tis_elementwise)

    def richdata_r():
        """RichData.r (what Interferogram.bandlimited_rms hands over as `r`) is the rho of cart_to_polar(self.x, self.y), and rho is
        hypot(x, y)"""
        cls = [n for n in rdm.body if isinstance(n, ast.ClassDef) and n.name == 'RichData']
        if len(cls) != 1:
            return None
        getter = [n for n in cls[0].body if isinstance(n, ast.FunctionDef) and n.name == 'r'
                  and any(ast.unparse(d) == 'property' for d in n.decorator_list)]
        if len(getter) != 1:
            return None
        calls = find_calls(getter[0], 'cart_to_polar')
        if len(calls) != 1:
            return None
        b_ = _bind(calls[0], ['x', 'y', 'vec_to_grid'])
        if 'vec_to_grid' in b_ or 'x' not in b_ or 'y' not in b_:
            return None
        xy = (_norm(b_['x']), _norm(b_['y']))
        if xy not in (('self.x', 'self.y'), ('self.y', 'self.x')):     # hypot is symmetric
            return None
        st = [s_ for s_ in _stmts(getter[0]) if isinstance(s_, ast.Assign) and s_.value is calls[0]]
        if not (len(st) == 1 and _norm(st[0].targets[0]) in ('(self._r,self._t)', 'self._r,self._t')):
            return False if len(st) == 1 and _norm(st[0].targets[0]) in ('(self._t,self._r)', 'self._t,self._r') else None
        c2p = get_def(crd, 'cart_to_polar')
        rho = [ast.unparse(v).replace(' ', '') for v in find_assigns(c2p, 'rho')]
        rets = find_returns(c2p)
        if len(rho) != 1 or len(rets) != 1 or not (isinstance(rets[0], ast.Tuple) and _norm(rets[0].elts[0]) == 'rho'):
            return None
        if rho[0] in ('np.hypot(x,y)', 'np.hypot(y,x)', 'np.sqrt(x**2+y**2)', 'np.sqrt(x*x+y*y)', 'np.sqrt(y**2+x**2)'):
            return True
        return None
    g.fact('richDataRIsHypotOfXY', 'prysm/_richdata.py:RichData.r + prysm/coordinates.py:cart_to_polar', richdata_r)

    def spectral_stateless():
        """psd / bandlimited_rms / total_integrated_scatter read only (data, dx, wavelength) of the current state (and call
        each other); they store nothing on self, so no result of an earlier call can reach a later one"""
        allowed = {'data', 'dx', 'wavelength', 'shape', 'size', 'psd', 'bandlimited_rms'}
        for name in ('psd', 'bandlimited_rms', 'total_integrated_scatter'):
            fn = get_def(ifm, 'Interferogram.' + name)
            for n in ast.walk(fn):
                if isinstance(n, ast.Attribute) and isinstance(n.value, ast.Name) and n.value.id == 'self':
                    if isinstance(n.ctx, (ast.Store, ast.Del)):
                        return False
                    if n.attr not in allowed:
                        return False
                if isinstance(n, ast.Call) and ast.unparse(n.func) in ('setattr', 'getattr', 'vars', 'object.__setattr__'):
                    return False
                if isinstance(n, (ast.Global, ast.Nonlocal)):
                    return False
                if isinstance(n, ast.Attribute) and ast.unparse(n).startswith('self.__dict__'):
                    return False
        return True
    g.fact('interferogramSpectralMethodsStateless', 'prysm/interferogram.py:Interferogram.{psd,bandlimited_rms,total_integrated_scatter}',
           spectral_stateless)

    # ---- no shared mutable results: a helper of fttools / coordinates / mathops-level modules whose return value a caller in
    #      interferogram.py writes into IN PLACE must not be memoised (and a memoised helper's result must not be written into)
    def results_not_shared():
        helpers = {}
        for mod in (ftm, crd):
            for n in mod.body:
                if isinstance(n, ast.FunctionDef):
                    helpers[n.name] = n
        imported = set()
        for n in ifm.body:
            if isinstance(n, ast.ImportFrom) and n.level == 1 and n.module in ('fttools', 'coordinates'):
                imported |= {a.asname or a.name for a in n.names}

        def memoised(fn):
            """True / False / None (a decorator this reader does not know)"""
            res = False
            for d in fn.decorator_list:
                t = ast.unparse(d.func if isinstance(d, ast.Call) else d).split('.')[-1].lower()
                if 'cache' in t or 'memo' in t:
                    res = True
                elif res is False:
                    res = None
            return res

        def written_results(fn):
            """names of helpers whose result is bound to a local of fn that is later written into in place"""
            bound = {}        # local -> helper
            hit = set()
            for st in ast.walk(fn):
                if isinstance(st, ast.Assign) and isinstance(st.value, ast.Call) and isinstance(st.value.func, ast.Name) \
                        and st.value.func.id in imported and st.value.func.id in helpers:
                    for t in st.targets:
                        for e in (t.elts if isinstance(t, (ast.Tuple, ast.List)) else [t]):
                            if isinstance(e, ast.Name):
                                bound[e.id] = st.value.func.id
            changed = True
            while changed:        # plain aliases `a = b`
                changed = False
                for st in ast.walk(fn):
                    if isinstance(st, ast.Assign) and isinstance(st.value, ast.Name) and st.value.id in bound:
                        for t in st.targets:
                            if isinstance(t, ast.Name) and t.id not in bound:
                                bound[t.id] = bound[st.value.id]
                                changed = True
            for st in ast.walk(fn):
                tg = []
                if isinstance(st, ast.Assign):
                    tg = st.targets
                elif isinstance(st, ast.AugAssign):
                    tg = [st.target]
                for t in tg:
                    base = t.value if isinstance(t, ast.Subscript) else (t if isinstance(st, ast.AugAssign) else None)
                    if isinstance(base, ast.Name) and base.id in bound:
                        hit.add(bound[base.id])
                if isinstance(st, ast.Call):
                    for k in st.keywords:
                        if k.arg == 'out' and isinstance(k.value, ast.Name) and k.value.id in bound:
                            hit.add(bound[k.value.id])
                    if isinstance(st.func, ast.Attribute) and st.func.attr in ('fill', 'sort', 'put', 'itemset', 'resize') \
                            and isinstance(st.func.value, ast.Name) and st.func.value.id in bound:
                        hit.add(bound[st.func.value.id])
            return hit

        written = set()
        for n in ast.walk(ifm):
            if isinstance(n, ast.FunctionDef):
                written |= written_results(n)
        verdict = True
        for name, fn in helpers.items():
            mz = memoised(fn)
            if mz is True and name in written:
                return False            # recognised and wrong: the cached object is shared by every later caller
            if mz is None and name in written:
                verdict = None
        return verdict
    g.fact('helperResultsWrittenInPlaceAreNotMemoised', 'prysm/fttools.py, prysm/coordinates.py: decorators; prysm/interferogram.py: in-place writes',
           results_not_shared)

    return g.finish()


if __name__ == '__main__':
    import sys
    text, items = generate(sys.argv[1] if len(sys.argv) > 1 else '/repo')
    print(text)
    for it in items:
        print('--', it)
