"""translator items for C13 (PSD normalisation, frequency axes, band-limited RMS, synthetic-surface RMS).

Reads prysm/interferogram.py (psd, bandlimited_rms, render_synthetic_surface, Interferogram.psd /
bandlimited_rms), prysm/util.py (rms), prysm/coordinates.py (broadcast_1d_to_2d) of the CURRENT tree and
emits the glue where the defects live:

  psdPreRot / psdPostRot      rotation kinds around fft2 in `psd`
  psdCoef                     `coef = S2*fs*fs`, `fs = 1/dx` as a generic-scalar function
  psdUxShapeAxis/UyShapeAxis  which `height.shape[k]` feeds which returned frequency axis
  brmsCentre                  the reference index `s//2`
  brmsIntegrations, brmsIntAxis, brmsStepAxis, brmsStepLag
                              for each integration call of the 2-D path of `bandlimited_rms`: the axis= it
                              reduces, and along which array axis (and over how many samples) the step
                              `dx=` handed to it was measured
  brmsLowCmp / brmsHighCmp    comparison kinds of the band mask
  brmsIntegratorPortable      the integrator is looked up as `trapezoid`, falling back to `trapz`
  brmsBand*                   the band (flow, fhigh) that each way of calling bandlimited_rms ends up with
                              (periods / frequencies, one-sided / two-sided), by symbolic execution of the
                              argument handling
  synthScale / synthRescale   `scale_factor = rms / z_rms`, `z *= scale_factor`
  ifgPsdDx                    the `dx` that Interferogram.psd() stores on the spectrum
  + structural facts

Every item works on the pinned and on the repaired source shapes and degrades to `untranslatable`
(fallback = the hand model) on shapes it does not know.
"""
import ast
from pyexpr2lean import (Gen, Tr, Untranslatable, load, get_def, find_assign, find_assigns, find_returns,
                         find_calls)

M = 'Model.C13'
ROTS = {'fftshift': f'{M}.Rot.fftshift', 'ifftshift': f'{M}.Rot.ifftshift'}


def _rot_call(e):
    """`fft.fftshift(X)` / `fft.ifftshift(X)` / `np.fft.…` -> (kind, X); anything else -> (None, e)"""
    if isinstance(e, ast.Call) and len(e.args) == 1 and not e.keywords:
        name = ast.unparse(e.func).split('.')[-1]
        if name in ROTS:
            return name, e.args[0]
    return None, e


def _stmts(fn):
    """all statements of a function in source order (flattened)"""
    out = [n for n in ast.walk(fn) if isinstance(n, ast.stmt) and n is not fn]
    out.sort(key=lambda n: (n.lineno, n.col_offset))
    return out


# --------------------------------------------------------------------------------------------------
# bandlimited_rms: symbolic reading of the points that define the integration steps
# --------------------------------------------------------------------------------------------------
def _is_ndim2(test):
    return ast.unparse(test).replace(' ', '') in ('r.ndim==2', '2==r.ndim', 'psd.ndim==2', 'work.ndim==2')


def _centre_expr(e):
    """`tuple(s//2 for s in X.shape)` (or a list comprehension) -> the element expression `s//2` and the loop name"""
    if isinstance(e, ast.Call) and ast.unparse(e.func) in ('tuple', 'list') and len(e.args) == 1:
        e = e.args[0]
    if isinstance(e, (ast.GeneratorExp, ast.ListComp)) and len(e.generators) == 1 and not e.generators[0].ifs:
        g = e.generators[0]
        if isinstance(g.target, ast.Name) and ast.unparse(g.iter) in ('work.shape', 'r.shape', 'psd.shape'):
            return e.elt, g.target.id
    return None, None


class _Points:
    """mini interpreter for the 2-D branch: name -> per-axis offset vector relative to the centre index"""

    def __init__(self):
        self.idx = {}      # name -> [o0, o1]   (index tuples / lists)
        self.pts = {}      # name -> [o0, o1]   (values r[idx])
        self.centre_elt = None

    def index_of(self, e):
        if isinstance(e, ast.Name) and e.id in self.idx:
            return list(self.idx[e.id])
        if isinstance(e, ast.Call) and ast.unparse(e.func) in ('tuple', 'list') and len(e.args) == 1:
            return self.index_of(e.args[0])
        elt, var = _centre_expr(e)
        if elt is not None:
            if self.centre_elt is None:
                self.centre_elt = (elt, var)
            elif ast.unparse(elt) != ast.unparse(self.centre_elt[0]):
                raise Untranslatable('two different centre expressions')
            return [0, 0]
        if isinstance(e, ast.Tuple) and len(e.elts) == 2:      # (c[0] - 1, c[1])
            out = []
            for k, el in enumerate(e.elts):
                out.append(self._component(el, k))
            return out
        raise Untranslatable(f'index expression {ast.unparse(e)[:50]}')

    def _component(self, el, k):
        """`X[k]`, `X[k] - 1`, `X[k] + 1` -> offset of component k"""
        def base(b):
            if isinstance(b, ast.Subscript) and isinstance(b.value, ast.Name) and b.value.id in self.idx \
                    and isinstance(b.slice, ast.Constant) and b.slice.value == k:
                return self.idx[b.value.id][k]
            raise Untranslatable(f'index component {ast.unparse(el)[:40]}')
        if isinstance(el, ast.BinOp) and isinstance(el.op, (ast.Sub, ast.Add)) and isinstance(el.right, ast.Constant) \
                and isinstance(el.right.value, int):
            d = el.right.value if isinstance(el.op, ast.Add) else -el.right.value
            return base(el.left) + d
        return base(el)

    def run(self, stmts):
        for st in stmts:
            if isinstance(st, ast.Expr) and isinstance(st.value, ast.Constant):
                continue
            if isinstance(st, ast.AugAssign) and isinstance(st.target, ast.Subscript) \
                    and isinstance(st.op, (ast.Sub, ast.Add)):
                st = ast.Assign(targets=[st.target], value=ast.BinOp(left=st.target, op=st.op, right=st.value))
            if not (isinstance(st, ast.Assign) and len(st.targets) == 1):
                raise Untranslatable(f'statement in the 2-D branch: {ast.unparse(st)[:50]}')
            t, v = st.targets[0], st.value
            if isinstance(t, ast.Name):
                # a point r[idx] ?
                if isinstance(v, ast.Subscript) and ast.unparse(v.value) == 'r':
                    self.pts[t.id] = self.index_of(v.slice)
                    continue
                if isinstance(v, ast.Name) and v.id in self.pts:
                    self.pts[t.id] = list(self.pts[v.id])
                    continue
                self.idx[t.id] = self.index_of(v)
                continue
            if isinstance(t, ast.Subscript) and isinstance(t.value, ast.Name) and t.value.id in self.idx \
                    and isinstance(t.slice, ast.Constant) and t.slice.value in (0, 1):
                k = t.slice.value
                self.idx[t.value.id][k] = self._component(v, k)
                continue
            raise Untranslatable(f'statement in the 2-D branch: {ast.unparse(st)[:50]}')


def _brms_analysis(fn):
    """-> dict(calls=[{'axis':int,'step_axis':int,'lag':int,'arg':str,'callee':str}], centre=(elt,var))"""
    body = fn.body
    pts = _Points()
    seen_branch = False
    step_defs = {}      # name -> (A, B) for  name = abs(A - B)
    calls = []

    def note_assign(st):
        if isinstance(st, ast.Assign) and len(st.targets) == 1 and isinstance(st.targets[0], ast.Name):
            v = st.value
            if isinstance(v, ast.Call) and ast.unparse(v.func) in ('abs', 'np.abs', 'np.fabs') and len(v.args) == 1 \
                    and isinstance(v.args[0], ast.BinOp) and isinstance(v.args[0].op, ast.Sub) \
                    and isinstance(v.args[0].left, ast.Name) and isinstance(v.args[0].right, ast.Name):
                step_defs[st.targets[0].id] = (v.args[0].left.id, v.args[0].right.id)

    def note_calls(st):
        for c in sorted([n for n in ast.walk(st) if isinstance(n, ast.Call)], key=lambda n: (n.lineno, n.col_offset)):
            kws = {k.arg: k.value for k in c.keywords}
            if 'dx' in kws and 'axis' in kws and c.args:
                if not isinstance(kws['dx'], ast.Name):
                    raise Untranslatable('integration step is not a plain name')
                if not (isinstance(kws['axis'], ast.Constant) and isinstance(kws['axis'].value, int)):
                    raise Untranslatable('axis= is not an integer literal')
                name = kws['dx'].id
                if name not in step_defs:
                    raise Untranslatable(f'step {name} is not abs(p - q)')
                a, b = step_defs[name]
                if a not in pts.pts or b not in pts.pts:
                    raise Untranslatable(f'step {name}: points {a},{b} not read from r in the 2-D branch')
                d = [x - y for x, y in zip(pts.pts[a], pts.pts[b])]
                nz = [k for k in (0, 1) if d[k] != 0]
                if len(nz) != 1:
                    raise Untranslatable(f'step {name} is not measured along one axis: {d}')
                calls.append({'axis': kws['axis'].value, 'step_axis': nz[0], 'lag': d[nz[0]],
                              'arg': ast.unparse(c.args[0]), 'callee': ast.unparse(c.func),
                              'target': None})

    for st in body:
        if isinstance(st, ast.If) and _is_ndim2(st.test):
            if not seen_branch:
                # first `if r.ndim == 2`: the points (run once); may also contain steps / calls
                seen_branch = True
                plain = []
                for s2 in st.body:
                    is_step = isinstance(s2, ast.Assign) and isinstance(s2.value, ast.Call) \
                        and ast.unparse(s2.value.func) in ('abs', 'np.abs', 'np.fabs')
                    has_call = any(isinstance(n, ast.Call) and any(k.arg == 'dx' for k in n.keywords) for n in ast.walk(s2))
                    if is_step or has_call:
                        note_assign(s2)
                        note_calls(s2)
                    else:
                        plain.append(s2)
                pts.run(plain)
            else:
                for s2 in st.body:
                    note_assign(s2)
                    note_calls(s2)
        else:
            note_assign(st)
            if not isinstance(st, (ast.If, ast.For, ast.While)):
                note_calls(st)
    if not seen_branch:
        raise Untranslatable('no `if r.ndim == 2` branch')
    if not calls:
        raise Untranslatable('no integration call with dx= and axis= found')
    return {'calls': calls, 'centre': pts.centre_elt}


def _integrator_portable(fn):
    """True  = every integration callee is a local name bound to np.trapezoid when the backend has it and to
               np.trapz otherwise;
       False = the callee is a fixed attribute (`np.trapz` / `np.trapezoid`) of the backend;
       Untranslatable = something else."""
    info = _brms_analysis(fn)
    callees = sorted({c['callee'] for c in info['calls']})
    verdicts = []
    for callee in callees:
        if callee in ('np.trapz', 'np.trapezoid', 'numpy.trapz', 'numpy.trapezoid'):
            verdicts.append(False)
            continue
        if '.' in callee:
            raise Untranslatable(f'integrator {callee}')
        ok = False
        for n in ast.walk(fn):
            # if hasattr(np, 'trapezoid'): X = np.trapezoid  else: X = np.trapz
            if isinstance(n, ast.If) and ast.unparse(n.test) == "hasattr(np, 'trapezoid')" and len(n.body) == 1 \
                    and len(n.orelse) == 1:
                if ast.unparse(n.body[0]) == f'{callee} = np.trapezoid' and ast.unparse(n.orelse[0]) == f'{callee} = np.trapz':
                    ok = True
            # X = getattr(np, 'trapezoid', None) or np.trapz
            if isinstance(n, ast.Assign) and ast.unparse(n.targets[0]) == callee \
                    and ast.unparse(n.value) == "getattr(np, 'trapezoid', None) or np.trapz":
                ok = True
            # X = np.trapezoid if hasattr(np, 'trapezoid') else np.trapz
            if isinstance(n, ast.Assign) and ast.unparse(n.targets[0]) == callee \
                    and ast.unparse(n.value) == "np.trapezoid if hasattr(np, 'trapezoid') else np.trapz":
                ok = True
            # try: X = np.trapezoid  except AttributeError: X = np.trapz
            if isinstance(n, ast.Try) and len(n.body) == 1 and len(n.handlers) == 1 \
                    and ast.unparse(n.body[0]) == f'{callee} = np.trapezoid' \
                    and n.handlers[0].type is not None and ast.unparse(n.handlers[0].type) == 'AttributeError' \
                    and len(n.handlers[0].body) == 1 and ast.unparse(n.handlers[0].body[0]) == f'{callee} = np.trapz':
                ok = True
        if not ok:
            raise Untranslatable(f'integrator {callee}: binding not recognised')
        verdicts.append(True)
    return all(verdicts)


def _band_edges(fn, given):
    """symbolic execution of the argument handling of bandlimited_rms for the call pattern in which exactly the
    parameters in `given` (among wllow, wlhigh, flow, fhigh) are not None.  -> (flow_expr, fhigh_expr) ast nodes"""
    env = {k: (ast.Name(id=k) if k in given else None) for k in ('wllow', 'wlhigh', 'flow', 'fhigh')}

    def is_none(e):
        if isinstance(e, ast.Name) and e.id in env:
            return env[e.id] is None
        raise Untranslatable(f'None-test on {ast.unparse(e)[:30]}')

    def test(t):
        if isinstance(t, ast.Compare) and len(t.ops) == 1 and isinstance(t.comparators[0], ast.Constant) \
                and t.comparators[0].value is None:
            if isinstance(t.ops[0], ast.Is):
                return is_none(t.left)
            if isinstance(t.ops[0], ast.IsNot):
                return not is_none(t.left)
        if isinstance(t, ast.BoolOp):
            vals = [test(v) for v in t.values]
            return any(vals) if isinstance(t.op, ast.Or) else all(vals)
        if isinstance(t, ast.UnaryOp) and isinstance(t.op, ast.Not):
            return not test(t.operand)
        raise Untranslatable(f'condition {ast.unparse(t)[:40]}')

    def subst(e):
        """replace band variables by their current symbolic values"""
        class S(ast.NodeTransformer):
            def visit_Name(self, n):
                if n.id in ('flow', 'fhigh') and env[n.id] is not None:
                    return env[n.id]
                return n
        import copy
        return S().visit(copy.deepcopy(e))

    def run(stmts):
        for st in stmts:
            if isinstance(st, ast.Expr):
                continue                                   # docstring, warnings.warn(...)
            if isinstance(st, ast.If):
                try:
                    branch = st.body if test(st.test) else st.orelse
                except Untranslatable:
                    if any(isinstance(n, ast.Name) and n.id in ('flow', 'fhigh') and isinstance(n.ctx, ast.Store)
                           for n in ast.walk(st)):
                        raise
                    continue                               # an if that does not touch the band edges
                if run(branch):
                    return True
                continue
            if isinstance(st, ast.Raise):
                raise Untranslatable('this call pattern raises')
            if isinstance(st, ast.Assign) and len(st.targets) == 1 and isinstance(st.targets[0], ast.Name):
                nm = st.targets[0].id
                if nm in ('flow', 'fhigh'):
                    env[nm] = subst(st.value)
                elif nm == 'work':
                    return True                            # argument handling is over
                continue
            if isinstance(st, ast.Return):
                return True
        return False
    run(fn.body)
    if env['flow'] is None or env['fhigh'] is None:
        raise Untranslatable('a band edge is still None when the mask is applied')
    return env['flow'], env['fhigh']


# --------------------------------------------------------------------------------------------------
def generate(repo):
    g = Gen('C13', imports=['PrysmVerif.Num', 'PrysmVerif.Model.C13'],
            header='set_option linter.unusedVariables false')
    ifm, _ = load(repo, 'prysm/interferogram.py')
    utl, _ = load(repo, 'prysm/util.py')
    crd, _ = load(repo, 'prysm/coordinates.py')

    # ---- psd: rotations around fft2
    def psd_rots():
        fn = get_def(ifm, 'psd')
        fts = find_assigns(fn, 'ft')
        if len(fts) != 1:
            raise Untranslatable('the spectrum `ft` is not assigned exactly once')
        ft = fts[0]
        post, inner = _rot_call(ft)
        if not (isinstance(inner, ast.Call) and ast.unparse(inner.func).split('.')[-1] == 'fft2' and len(inner.args) == 1
                and not inner.keywords):
            raise Untranslatable(f'spectrum is not rot(fft2(..)): {ast.unparse(ft)[:60]}')
        pre, x = _rot_call(inner.args[0])
        if ast.unparse(x).replace(' ', '') not in ('height*window', 'window*height'):
            raise Untranslatable(f'transform input is {ast.unparse(x)[:40]}')
        # the power must be |ft|^2 of that spectrum and the window must come from make_window
        p = ast.unparse(find_assign(fn, 'psd')).replace(' ', '')
        if p not in ('abs(ft)**2', 'np.abs(ft)**2', 'ft.real**2+ft.imag**2'):
            raise Untranslatable(f'power is {p[:40]}')
        lean = lambda k: ROTS[k] if k else f'{M}.Rot.none'   # noqa: E731
        return (f'def psdPreRot : {M}.Rot := {lean(pre)}\n'
                f'def psdPostRot : {M}.Rot := {lean(post)}')
    g.item('psd.rotations', 'prysm/interferogram.py:psd', lambda: get_def(ifm, 'psd'), psd_rots,
           f'def psdPreRot : {M}.Rot := {M}.Rot.fftshift\ndef psdPostRot : {M}.Rot := {M}.Rot.fftshift')

    # ---- psd: coefficient
    def psd_coef():
        fn = get_def(ifm, 'psd')
        tr = Tr({'dx': 'dx', 'S2': 'S2'}, mode='num')
        env = dict(tr.env)
        fs = find_assigns(fn, 'fs')
        if len(fs) == 1:
            env['fs'] = Tr(env, 'num').expr(fs[0])
        coef = find_assigns(fn, 'coef')
        if len(coef) != 1:
            raise Untranslatable('coef assigned more than once / never')
        term = Tr(env, 'num').expr(coef[0])
        # S2 must be the sum of the squared window and the power must be divided by coef
        s2 = ast.unparse(find_assign(fn, 'S2')).replace(' ', '')
        if s2 not in ('(window**2).sum()', 'np.sum(window**2)', '(window*window).sum()'):
            raise Untranslatable(f'S2 is {s2[:40]}')
        div = [st for st in _stmts(fn) if isinstance(st, ast.AugAssign) and ast.unparse(st.target) == 'psd']
        if not (len(div) == 1 and isinstance(div[0].op, ast.Div) and ast.unparse(div[0].value) == 'coef'):
            raise Untranslatable('power is not divided by coef exactly once')
        (ret,) = find_returns(fn)
        if ast.unparse(ret).replace(' ', '') != '(ux,uy,psd)':
            raise Untranslatable(f'returns {ast.unparse(ret)[:40]}')
        return f'def psdCoef {{K : Type}} [Num K] (S2 dx : K) : K := {term}'
    g.item('psd.coef', 'prysm/interferogram.py:psd', lambda: get_def(ifm, 'psd'), psd_coef,
           f'def psdCoef {{K : Type}} [Num K] (S2 dx : K) : K := {M}.psdCoef S2 dx')

    # ---- psd: which shape entry feeds which frequency axis
    def psd_axes():
        fn = get_def(ifm, 'psd')
        out = {}
        for nm in ('ux', 'uy'):
            call = find_assign(fn, nm, which=0)
            if not (isinstance(call, ast.Call) and ast.unparse(call.func) == 'forward_ft_unit' and len(call.args) == 2
                    and not call.keywords and ast.unparse(call.args[0]) == 'dx'):
                raise Untranslatable(f'{nm} = {ast.unparse(call)[:50]}')
            a = call.args[1]
            if not (isinstance(a, ast.Subscript) and ast.unparse(a.value) == 'height.shape'
                    and isinstance(a.slice, ast.Constant) and a.slice.value in (0, 1)):
                raise Untranslatable(f'{nm} length is {ast.unparse(a)[:40]}')
            out[nm] = a.slice.value
        b = [st for st in _stmts(fn) if isinstance(st, ast.Assign) and ast.unparse(st.value).startswith('broadcast_1d_to_2d')]
        if not (len(b) == 1 and ast.unparse(b[0]).replace(' ', '') == 'ux,uy=broadcast_1d_to_2d(ux,uy)'):
            raise Untranslatable('axes are not broadcast as ux, uy = broadcast_1d_to_2d(ux, uy)')
        return (f'def psdUxShapeAxis : Nat := {out["ux"]}\n'
                f'def psdUyShapeAxis : Nat := {out["uy"]}')
    g.item('psd.axes', 'prysm/interferogram.py:psd', lambda: get_def(ifm, 'psd'), psd_axes,
           'def psdUxShapeAxis : Nat := 1\ndef psdUyShapeAxis : Nat := 0')

    def b1d2d():
        fn = get_def(crd, 'broadcast_1d_to_2d')
        src = [ast.unparse(s).replace(' ', '') for s in fn.body if not (isinstance(s, ast.Expr) and isinstance(s.value, ast.Constant))]
        return src == ['shpx=(y.size,x.size)', 'shpy=(x.size,y.size)', 'xx=np.broadcast_to(x,shpx)',
                       'yy=np.broadcast_to(y,shpy).T', 'return(xx,yy)']
    g.fact('broadcastXAlongRowsYAlongColumns', 'prysm/coordinates.py:broadcast_1d_to_2d', b1d2d)

    # ---- bandlimited_rms
    def brms_steps():
        fn = get_def(ifm, 'bandlimited_rms')
        info = _brms_analysis(fn)
        calls = info['calls']
        k = len(calls)
        # data flow: call 0 integrates `work`, call j>0 integrates the result of the previous one
        tgt = []
        for st in _stmts(fn):
            if isinstance(st, ast.Assign) and isinstance(st.value, ast.Call) and any(kw.arg == 'dx' for kw in st.value.keywords):
                tgt.append(ast.unparse(st.targets[0]))
        if len(tgt) != k:
            raise Untranslatable('integration results are not plain assignments')
        if calls[0]['arg'] != 'work' or any(calls[j]['arg'] != tgt[j - 1] for j in range(1, k)):
            raise Untranslatable('integration calls are not chained work -> reduced -> reduced')
        (ret,) = find_returns(fn)
        if ast.unparse(ret) not in (f'np.sqrt({tgt[-1]})',):
            raise Untranslatable(f'returns {ast.unparse(ret)[:40]}')

        def table(key):
            arms = ''.join(f'  | {j} => {calls[j][key]}\n' for j in range(k))
            return arms
        txt = f'def brmsIntegrations : Nat := {k}\n'
        txt += 'def brmsIntAxis : Nat → Nat\n' + table('axis') + '  | _ => 0\n'
        txt += 'def brmsStepAxis : Nat → Nat\n' + table('step_axis') + '  | _ => 0\n'
        txt += 'def brmsStepLag : Nat → Int\n' + ''.join(f'  | {j} => ({calls[j]["lag"]} : Int)\n' for j in range(k)) + '  | _ => 0\n'
        return txt
    g.item('bandlimited_rms.steps', 'prysm/interferogram.py:bandlimited_rms', lambda: get_def(ifm, 'bandlimited_rms'),
           brms_steps,
           'def brmsIntegrations : Nat := 2\n'
           'def brmsIntAxis : Nat → Nat\n  | _ => 0\n'
           'def brmsStepAxis : Nat → Nat\n  | 0 => 0\n  | 1 => 1\n  | _ => 0\n'
           'def brmsStepLag : Nat → Int\n  | 0 => -1\n  | 1 => -1\n  | _ => 0\n')

    def brms_centre():
        fn = get_def(ifm, 'bandlimited_rms')
        info = _brms_analysis(fn)
        if info['centre'] is None:
            raise Untranslatable('no centre expression')
        elt, var = info['centre']
        return f'def brmsCentre (s : Int) : Int := {Tr({var: "s"}).expr(elt)}'
    g.item('bandlimited_rms.centre', 'prysm/interferogram.py:bandlimited_rms', lambda: get_def(ifm, 'bandlimited_rms'),
           brms_centre, 'def brmsCentre (s : Int) : Int := s / 2')

    def brms_mask():
        fn = get_def(ifm, 'bandlimited_rms')
        w = find_assigns(fn, 'work')
        if not (len(w) == 1 and ast.unparse(w[0]) == 'psd.copy()'):
            raise Untranslatable('work is not psd.copy()')
        kinds = {ast.Lt: 'lt', ast.LtE: 'le', ast.Gt: 'gt', ast.GtE: 'ge'}
        found = {}
        writes = [st for st in _stmts(fn) if isinstance(st, ast.Assign) and isinstance(st.targets[0], ast.Subscript)
                  and ast.unparse(st.targets[0].value) == 'work']
        if len(writes) != 2:
            raise Untranslatable(f'{len(writes)} masked writes to work')
        for st in writes:
            t = st.targets[0].slice
            if not (isinstance(st.value, ast.Constant) and st.value.value == 0):
                raise Untranslatable('masked samples are not set to 0')
            if not (isinstance(t, ast.Compare) and len(t.ops) == 1 and type(t.ops[0]) in kinds
                    and ast.unparse(t.left) == 'r' and ast.unparse(t.comparators[0]) in ('flow', 'fhigh')):
                raise Untranslatable(f'mask {ast.unparse(t)[:40]}')
            found[ast.unparse(t.comparators[0])] = kinds[type(t.ops[0])]
        if set(found) != {'flow', 'fhigh'}:
            raise Untranslatable('mask does not use both band edges')
        return (f'def brmsLowCmp : {M}.Cmp := {M}.Cmp.{found["flow"]}\n'
                f'def brmsHighCmp : {M}.Cmp := {M}.Cmp.{found["fhigh"]}')
    g.item('bandlimited_rms.mask', 'prysm/interferogram.py:bandlimited_rms', lambda: get_def(ifm, 'bandlimited_rms'),
           brms_mask, f'def brmsLowCmp : {M}.Cmp := {M}.Cmp.lt\ndef brmsHighCmp : {M}.Cmp := {M}.Cmp.gt')

    def brms_integrator():
        fn = get_def(ifm, 'bandlimited_rms')
        return f'def brmsIntegratorPortable : Bool := {"true" if _integrator_portable(fn) else "false"}'
    g.item('bandlimited_rms.integrator', 'prysm/interferogram.py:bandlimited_rms',
           lambda: get_def(ifm, 'bandlimited_rms'), brms_integrator, 'def brmsIntegratorPortable : Bool := true')

    def brms_band():
        fn = get_def(ifm, 'bandlimited_rms')
        pats = [('PeriodLow', ('wllow',)), ('PeriodHigh', ('wlhigh',)), ('PeriodBoth', ('wllow', 'wlhigh')),
                ('FreqLow', ('flow',)), ('FreqHigh', ('fhigh',)), ('FreqBoth', ('flow', 'fhigh'))]
        txt = ''
        for name, given in pats:
            lo, hi = _band_edges(fn, given)
            env = {k: k for k in given}
            env.update({'default_max': 'dmax', 'r.max()': 'dmax'})
            tr = Tr(env, mode='rat')
            binders = ' '.join(f'({k} : Rat)' for k in given) + ' (dmax : Rat)'
            txt += f'def brmsBand{name} {binders} : Rat × Rat := ({tr.expr(lo)}, {tr.expr(hi)})\n'
        return txt
    g.item('bandlimited_rms.band', 'prysm/interferogram.py:bandlimited_rms', lambda: get_def(ifm, 'bandlimited_rms'),
           brms_band,
           'def brmsBandPeriodLow (wllow : Rat) (dmax : Rat) : Rat × Rat := (0, 1 / wllow)\n'
           'def brmsBandPeriodHigh (wlhigh : Rat) (dmax : Rat) : Rat × Rat := (1 / wlhigh, dmax)\n'
           'def brmsBandPeriodBoth (wllow : Rat) (wlhigh : Rat) (dmax : Rat) : Rat × Rat := (1 / wlhigh, 1 / wllow)\n'
           'def brmsBandFreqLow (flow : Rat) (dmax : Rat) : Rat × Rat := (flow, dmax)\n'
           'def brmsBandFreqHigh (fhigh : Rat) (dmax : Rat) : Rat × Rat := (0, fhigh)\n'
           'def brmsBandFreqBoth (flow : Rat) (fhigh : Rat) (dmax : Rat) : Rat × Rat := (flow, fhigh)\n')

    # ---- render_synthetic_surface: the RMS rescale
    def synth():
        fn = get_def(ifm, 'render_synthetic_surface')
        sf = find_assigns(fn, 'scale_factor')
        if len(sf) != 1:
            raise Untranslatable('scale_factor assigned more than once / never')
        term = Tr({'rms': 'rho', 'z_rms': 'zrms'}, mode='num').expr(sf[0])
        aug = [st for st in _stmts(fn) if isinstance(st, ast.AugAssign) and ast.unparse(st.target) == 'z']
        if len(aug) != 1:
            raise Untranslatable('z is not rescaled by exactly one augmented assignment')
        fake = ast.BinOp(left=ast.Name(id='z'), op=aug[0].op, right=aug[0].value)
        term2 = Tr({'z': 'z', 'scale_factor': '(synthScale rho zrms)'}, mode='num').expr(fake)
        return (f'def synthScale {{K : Type}} [Num K] (rho zrms : K) : K := {term}\n'
                f'def synthRescale {{K : Type}} [Num K] (rho zrms z : K) : K := {term2}')
    g.item('render_synthetic_surface.rescale', 'prysm/interferogram.py:render_synthetic_surface',
           lambda: get_def(ifm, 'render_synthetic_surface'), synth,
           f'def synthScale {{K : Type}} [Num K] (rho zrms : K) : K := rho / zrms\n'
           f'def synthRescale {{K : Type}} [Num K] (rho zrms z : K) : K := {M}.rescale rho zrms z')

    def synth_order():
        fn = get_def(ifm, 'render_synthetic_surface')
        st = _stmts(fn)
        mask = [s for s in st if isinstance(s, ast.Assign) and ast.unparse(s).replace(' ', '') == 'z[mask==0]=np.nan']
        zr = [s for s in st if isinstance(s, ast.Assign) and ast.unparse(s.targets[0]) == 'z_rms']
        aug = [s for s in st if isinstance(s, ast.AugAssign) and ast.unparse(s.target) == 'z']
        return len(mask) == 1 and len(zr) == 1 and len(aug) == 1 \
            and ast.unparse(zr[0].value) in ("globals()['rms'](z)",) \
            and mask[0].lineno < zr[0].lineno < aug[0].lineno
    g.fact('synthRmsOfMaskedSurfaceThenScale', 'prysm/interferogram.py:render_synthetic_surface', synth_order)

    def util_rms():
        fn = get_def(utl, 'rms')
        src = [ast.unparse(s).replace(' ', '') for s in fn.body if not (isinstance(s, ast.Expr) and isinstance(s.value, ast.Constant))]
        return src == ['non_nan=np.isfinite(array)', 'returnnp.sqrt((array[non_nan]**2).mean())']
    g.fact('rmsIsSqrtMeanSquareOfFiniteSamples', 'prysm/util.py:rms', util_rms)

    # ---- Interferogram methods delegate to the free functions with matching arguments
    def ifg_psd():
        fn = get_def(ifm, 'Interferogram.psd')
        src = [ast.unparse(s).replace(' ', '') for s in fn.body if not (isinstance(s, ast.Expr) and isinstance(s.value, ast.Constant))]
        need = ['ux,uy,psd_=psd(self.data,self.dx)', 'p=RichData(psd_,0,self.wavelength)', 'p.x=ux', 'p.y=uy', 'returnp']
        return all(x in src for x in need) and src.index('p.x=ux') > src.index(need[1])
    g.fact('interferogramPsdDelegates', 'prysm/interferogram.py:Interferogram.psd', ifg_psd)

    def ifg_psd_dx():
        fn = get_def(ifm, 'Interferogram.psd')
        rhs = [st.value for st in _stmts(fn) if isinstance(st, ast.Assign) and ast.unparse(st.targets[0]) == 'p.dx']
        if len(rhs) != 1:
            raise Untranslatable('p.dx assigned more than once / never')
        env = {'self.dx': 'dx', 'self.data.shape[1]': 'n', 'self.shape[1]': 'n', 'psd_.shape[1]': 'n',
               'self.data.shape[0]': 'm', 'self.shape[0]': 'm', 'psd_.shape[0]': 'm'}
        return f'def ifgPsdDx (dx m n : Rat) : Rat := {Tr(env, mode="rat").expr(rhs[0])}'
    g.item('Interferogram.psd.dx', 'prysm/interferogram.py:Interferogram.psd', lambda: get_def(ifm, 'Interferogram.psd'),
           ifg_psd_dx, 'def ifgPsdDx (dx m n : Rat) : Rat := 1 / (n * dx)')

    def ifg_brms():
        fn = get_def(ifm, 'Interferogram.bandlimited_rms')
        (c,) = find_calls(fn, 'bandlimited_rms')
        return ast.unparse(find_assign(fn, 'psd')) == 'self.psd()' and ast.unparse(c).replace(' ', '') == \
            'bandlimited_rms(r=psd.r,psd=psd.data,wllow=wllow,wlhigh=wlhigh,flow=flow,fhigh=fhigh)'
    g.fact('interferogramBrmsPassesPsdRAndData', 'prysm/interferogram.py:Interferogram.bandlimited_rms', ifg_brms)

    def ifg_render():
        fn = get_def(ifm, 'Interferogram.render_from_psd')
        (c,) = find_calls(fn, 'render_synthetic_surface')
        return ast.unparse(c).replace(' ', '') == \
            'render_synthetic_surface(size=size,samples=samples,rms=rms,mask=mask,psd_fcn=psd_fcn,**psd_fcn_kwargs)'
    g.fact('interferogramRenderDelegates', 'prysm/interferogram.py:Interferogram.render_from_psd', ifg_render)

    def spectral_stateless():
        """psd / bandlimited_rms / total_integrated_scatter read only (data, dx, wavelength) of the current state (and call
        each other); they store nothing on self, so no result of an earlier call can reach a later one"""
        allowed = {'data', 'dx', 'wavelength', 'shape', 'size', 'psd', 'bandlimited_rms'}
        for name in ('psd', 'bandlimited_rms', 'total_integrated_scatter'):
            fn = get_def(ifm, 'Interferogram.' + name)
            for n in ast.walk(fn):
                if isinstance(n, ast.Attribute) and isinstance(n.value, ast.Name) and n.value.id == 'self':
                    if isinstance(n.ctx, (ast.Store, ast.Del)):
                        return False
                    if n.attr not in allowed:
                        return False
                if isinstance(n, ast.Call) and ast.unparse(n.func) in ('setattr', 'getattr', 'vars', 'object.__setattr__'):
                    return False
                if isinstance(n, (ast.Global, ast.Nonlocal)):
                    return False
                if isinstance(n, ast.Attribute) and ast.unparse(n).startswith('self.__dict__'):
                    return False
        return True
    g.fact('interferogramSpectralMethodsStateless', 'prysm/interferogram.py:Interferogram.{psd,bandlimited_rms,total_integrated_scatter}',
           spectral_stateless)

    return g.finish()


if __name__ == '__main__':
    import sys
    text, items = generate(sys.argv[1] if len(sys.argv) > 1 else '/repo')
    print(text)
    for it in items:
        print('--', it)
